"""Driving the real engine below the (unavailable) parser.

`api_from_ast(name)` extracts API.run / API.semantic_analysis from the working tree MECHANICALLY on every call: the
function's AST is taken from src/vtlengine/API/__init__.py, the statements that turn the script text into an AST
(`script/checking = _check_script(..)`, `vtl = load_vtl(..)`, `ast = create_ast(..)`) are dropped, a leading parameter
`ast` is added, and the result is compiled in the namespace of the real vtlengine.API module.  Everything else of
the function - DAG analysis, structure loading, the semantic pass, transpilation, the DuckDB session, execution,
result formatting - is the code of the tree, unchanged.  Dropped: exactly those parsing statements (listed in
`EXTRACTION_DROPS`).
"""
from __future__ import annotations

import ast as pyast
import copy
import importlib
from typing import Any, Callable, Dict, List, Optional, Sequence

from . import core

EXTRACTION_DROPS = ["<x> = _check_script(script)", "vtl = load_vtl(<x>)", "ast = create_ast(vtl)"]
_CACHE: Dict[str, Callable[..., Any]] = {}


def api_from_ast(name: str) -> Callable[..., Any]:
    if name in _CACHE:
        return _CACHE[name]
    core.boot(full=True)
    api = importlib.import_module("vtlengine.API")
    src = (core.SRC / "API" / "__init__.py").read_text()
    tree = pyast.parse(src)
    fn = next(n for n in tree.body if isinstance(n, pyast.FunctionDef) and n.name == name)
    dropped: List[str] = []
    body = []
    for st in fn.body:
        if isinstance(st, pyast.Assign) and isinstance(st.value, pyast.Call) and isinstance(st.value.func, pyast.Name) \
                and st.value.func.id in ("_check_script", "load_vtl", "create_ast"):
            dropped.append(st.value.func.id)
            continue
        body.append(st)
    if sorted(dropped) != ["_check_script", "create_ast", "load_vtl"]:
        raise RuntimeError(f"API.{name}: parsing prologue changed shape (found {dropped}); extraction not applicable")
    fn2 = copy.deepcopy(fn)
    fn2.name = f"{name}_from_ast"
    fn2.body = body
    fn2.args.args = [pyast.arg(arg="ast")] + [a for a in fn2.args.args if a.arg != "script"]
    fn2.args.defaults = fn2.args.defaults    # `script` was the first positional without default
    fn2.decorator_list = []
    mod = pyast.Module(body=[fn2], type_ignores=[])
    pyast.fix_missing_locations(mod)
    ns = dict(vars(api))
    exec(compile(mod, f"<extracted API.{name}>", "exec"), ns)  # noqa: S102 - the repository's own code
    _CACHE[name] = ns[fn2.name]
    return _CACHE[name]


# ---- hand-built ASTs -------------------------------------------------------------------------------------------
KW = dict(line_start=1, column_start=1, line_stop=1, column_stop=1)


def A() -> Any:
    core.boot(full=True)
    return importlib.import_module("vtlengine.AST")


def var(name: str) -> Any:
    return A().VarID(value=name, **KW)


def const(value: Any, type_: str = "INTEGER_CONSTANT") -> Any:
    return A().Constant(type_=type_, value=value, **KW)


def binop(left: Any, op: str, right: Any) -> Any:
    return A().BinOp(left=left, op=op, right=right, **KW)


def assign(name: str, expr: Any, persistent: bool = False) -> Any:
    a = A()
    cls = a.PersistentAssignment if persistent else a.Assignment
    return cls(left=var(name), op="<-" if persistent else ":=", right=expr, **KW)


def clause(dataset: Any, op: str, children: Sequence[Any]) -> Any:
    return A().RegularAggregation(op=op, dataset=dataset, children=list(children), **KW)


def start(stmts: Sequence[Any]) -> Any:
    return A().Start(children=list(stmts), **KW)


def dataset_structure(name: str, ids: Sequence[str] = ("Id_1",), measures: Sequence[str] = ("Me_1",),
                      id_type: str = "Integer", me_type: str = "Number") -> Dict[str, Any]:
    comps = [{"name": i, "type": id_type, "role": "Identifier", "nullable": False} for i in ids]
    comps += [{"name": m, "type": me_type, "role": "Measure", "nullable": True} for m in measures]
    return {"name": name, "DataStructure": comps}


def structures(datasets: Sequence[Dict[str, Any]], scalars: Sequence[Dict[str, Any]] = ()) -> Dict[str, Any]:
    d: Dict[str, Any] = {"datasets": list(datasets)}
    if scalars:
        d["scalars"] = list(scalars)
    return d
