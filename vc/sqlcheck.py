"""Discharging contracts on SQL macros / scalar expressions evaluated by vc.sqlvc."""
from __future__ import annotations

import logging
import time
from typing import Any, Callable, Dict, List, Optional, Sequence, Tuple

from . import smt
from .core import DISCHARGED, REFUTED, UNDECIDED, Check, Obligation, pmap, run_smt
from .smt import And, Eq, Ge, Le, Not, is_sym
from .sqlvc import CStr, SqlEngine, SqlPath, digits_value, is_digit

logging.getLogger("sqlglot").setLevel(logging.ERROR)


def discharge_sql(chk: Check, eng: SqlEngine, function: str, clause_id: str, clause_text: str,
                  paths: Sequence[SqlPath], pre: Sequence[Any], post: Callable[[SqlPath], Any],
                  model_vars: Sequence[str] = (),
                  replay: Optional[Callable[[Dict[str, str], SqlPath], Tuple[Optional[bool], str, Any]]] = None,
                  finding_key: Optional[Callable[[Dict[str, str], SqlPath], str]] = None,
                  timeout: float = 30.0) -> Obligation:
    import os
    only = os.environ.get("VERIF_ONLY")
    if only and only not in f"{function}::{clause_id}":
        return Obligation(f"{function}::{clause_id}", function, clause_text, status=DISCHARGED)   # not recorded
    timeout = float(os.environ.get("VERIF_TIMEOUT", timeout))
    ob = chk.ob(f"{function}::{clause_id}", function, clause_text)
    t0 = time.time()
    queries: List[Tuple[int, str, SqlPath]] = []
    for i, p in enumerate(paths):
        if p.kind == "abort":
            # a path outside the model only matters if it is feasible under the precondition
            text = smt.query(eng.decls, list(eng.axioms) + list(pre) + list(p.pc))
            queries.append((i, text, p))
            continue
        try:
            goal = post(p)
        except Exception as e:  # noqa: BLE001
            ob.status, ob.detail = UNDECIDED, f"postcondition not evaluable on path {i}: {type(e).__name__}: {e}"
            return ob
        if not is_sym(goal) and goal:
            continue
        text = smt.query(eng.decls, list(eng.axioms) + list(pre) + list(p.pc) + [Not(goal)], get=list(model_vars))
        queries.append((i, text, p))
    uniq: Dict[str, Any] = {}
    for _, text, _ in queries:
        uniq.setdefault(text, None)
    results = pmap(lambda tx: run_smt(tx, timeout=timeout, tag=clause_id), list(uniq))
    for tx, r in zip(list(uniq), results):
        uniq[tx] = r
    ob.seconds = time.time() - t0
    backends = set()
    # order-independent verdict: a counter-model on any path wins over `unknown` / out-of-model on an earlier path
    ordered = ([q for q in queries if q[2].kind != "abort" and uniq[q[1]].status == "sat"]
               + [q for q in queries if not (q[2].kind != "abort" and uniq[q[1]].status == "sat")])
    for i, text, p in ordered:
        r = uniq[text]
        backends.add(r.backend)
        if r.status == "unsat":
            continue
        if p.kind == "abort":
            ob.status = UNDECIDED
            ob.detail = f"path {i} leaves the SQL model and is feasible (or undecided) under the precondition: {p.value}"
            ob.backend = "+".join(sorted(backends))
            return ob
        if r.status == "unknown":
            ob.status, ob.detail = UNDECIDED, f"solver unknown on path {i}: {r.raw[:160]}"
            ob.backend = "+".join(sorted(backends))
            return ob
        ob.status, ob.backend = REFUTED, r.backend
        ob.detail = f"path {i} of {len(paths)}: counter-model {r.model}; outcome {p.kind} {str(p.value)[:120]}"
        ob.witness = {"model": r.model, "outcome": p.kind}
        if finding_key:
            ob.finding_key = finding_key(r.model, p)
        if replay:
            try:
                ok, detail, wit = replay(r.model, p)
                ob.replayed, ob.replay_detail = ok, detail
                if wit is not None:
                    ob.witness = wit
            except Exception as e:  # noqa: BLE001
                ob.replayed, ob.replay_detail = None, f"replay harness error: {type(e).__name__}: {e}"
        return ob
    ob.status = DISCHARGED
    ob.backend = "+".join(sorted(backends)) or "const-fold"
    ob.detail = f"{len(paths)} paths, {len(uniq)} distinct solver queries, all unsat"
    return ob


NATIVE_BACKEND = "bounded-native-search(duckdb)"


def _undecided(ob: Obligation, detail: str,
               fallback: Optional[Callable[[], Optional[Tuple[bool, str, Any, str]]]]) -> Obligation:
    """Deductive route exhausted without a verdict.  With a `fallback` (bounded search through the real code against
    the computable specification) a concrete disagreement is a violation that is already replayed natively; otherwise,
    and when the search finds nothing, the obligation stays undecided."""
    ob.status, ob.detail = UNDECIDED, detail
    if fallback is None:
        return ob
    try:
        res = fallback()
    except Exception as e:  # noqa: BLE001
        ob.detail = f"{detail}; bounded native search not possible: {type(e).__name__}: {e}"
        return ob
    if res is None:
        return ob
    found, fdetail, wit, key = res
    ob.detail = f"{detail}; {fdetail}"
    if found:
        ob.status, ob.backend = REFUTED, NATIVE_BACKEND
        ob.witness, ob.replayed, ob.replay_detail = wit, True, fdetail
        if key:
            ob.finding_key = key
    return ob


def discharge_groups(chk: Check, eng: SqlEngine, function: str, clause_id: str, clause_text: str,
                     groups: Sequence[Tuple[Dict[str, Any], Sequence[SqlPath], Sequence[Any], Callable[[SqlPath], Any]]],
                     model_vars: Sequence[str] = (),
                     replay: Optional[Callable[[Dict[str, Any], SqlPath], Tuple[Optional[bool], str, Any]]] = None,
                     finding_key: Optional[Callable[[Dict[str, Any], SqlPath], str]] = None,
                     prefer: Sequence[Any] = (), timeout: float = 30.0,
                     fallback: Optional[Callable[[], Optional[Tuple[bool, str, Any, str]]]] = None) -> Obligation:
    """One obligation over several case groups (e.g. one per concrete period number).  Each group is
    (fixed values merged into the counter-model, paths, precondition, postcondition).  `prefer` = extra constraints
    tried when a counter-model exists, to report a witness inside the property's own range when there is one.
    `fallback` = bounded search on the REAL code, called only when the deductive route ends undecided (solver
    `unknown`, or a feasible path outside the SQL model): returns (disagreement found, detail, witness, finding key).
    A concrete disagreement between the real code and the specification is a replayed violation; no disagreement
    leaves the obligation undecided (a bounded search proves nothing)."""
    import os
    oid = f"{function}::{clause_id}"
    only = os.environ.get("VERIF_ONLY")
    if only and only not in oid:
        return Obligation(oid, function, clause_text, status=DISCHARGED)
    timeout = float(os.environ.get("VERIF_TIMEOUT", timeout))
    ob = chk.ob(oid, function, clause_text)
    t0 = time.time()
    queries: List[Tuple[str, SqlPath, Dict[str, Any], List[Any], Any]] = []
    npaths = 0
    for fixed, paths, pre, post in groups:
        for p in paths:
            npaths += 1
            if p.kind == "abort":
                queries.append((smt.query(eng.decls, list(eng.axioms) + list(pre) + list(p.pc)), p, fixed, [], None))
                continue
            try:
                goal = post(p)
            except Exception as e:  # noqa: BLE001
                ob.status, ob.detail = UNDECIDED, f"postcondition not evaluable: {type(e).__name__}: {e}"
                return ob
            if not is_sym(goal) and goal:
                continue
            asserts = list(eng.axioms) + list(pre) + list(p.pc) + [Not(goal)]
            queries.append((smt.query(eng.decls, asserts, get=list(model_vars)), p, fixed, asserts, goal))
    uniq: Dict[str, Any] = {}
    for text, *_ in queries:
        uniq.setdefault(text, None)
    results = pmap(lambda tx: run_smt(tx, timeout=timeout, tag=clause_id), list(uniq))
    for tx, r in zip(list(uniq), results):
        uniq[tx] = r
    ob.seconds = time.time() - t0
    backends = set()
    # The verdict must not depend on the order of the paths: a counter-model on ANY path refutes the clause, whatever
    # the solver answered on the paths examined before it (an `unknown` on path 0 used to hide a `sat` on path 2).
    ordered = ([q for q in queries if q[1].kind != "abort" and uniq[q[0]].status == "sat"]
               + [q for q in queries if not (q[1].kind != "abort" and uniq[q[0]].status == "sat")])
    for text, p, fixed, asserts, goal in ordered:
        r = uniq[text]
        backends.add(r.backend)
        if r.status == "unsat":
            continue
        ob.backend = "+".join(sorted(backends))
        if p.kind == "abort":
            return _undecided(ob, "a path leaves the SQL model and is feasible (or undecided) under the precondition: "
                              f"{p.value}", fallback)
        if r.status == "unknown":
            return _undecided(ob, f"solver unknown ({fixed}): {r.raw[:160]}", fallback)
        model = dict(r.model)
        if prefer:
            # look for a witness inside the preferred range on any refuted path (nicer to read and to replay)
            tried = 0
            for text2, p2, fixed2, asserts2, _g2 in queries:
                if p2.kind == "abort" or uniq[text2].status != "sat" or tried >= 24:
                    continue
                tried += 1
                r2 = run_smt(smt.query(eng.decls, asserts2 + list(prefer), get=list(model_vars)), timeout=min(timeout, 10),
                             tag="prefer")
                if r2.status == "sat":
                    model, p, fixed = dict(r2.model), p2, fixed2
                    break
        full: Dict[str, Any] = dict(fixed)
        full.update(model)
        ob.status, ob.backend = REFUTED, r.backend
        ob.detail = f"counter-model {full}; outcome {p.kind} {str(p.value)[:120]}"
        ob.witness = {"model": {k: str(v) for k, v in full.items()}, "outcome": p.kind}
        if finding_key:
            ob.finding_key = finding_key(full, p)
        if replay:
            try:
                ok, detail, wit = replay(full, p)
                ob.replayed, ob.replay_detail = ok, detail
                if wit is not None:
                    ob.witness = wit
            except Exception as e:  # noqa: BLE001
                ob.replayed, ob.replay_detail = None, f"replay harness error: {type(e).__name__}: {e}"
        return ob
    ob.status = DISCHARGED
    ob.backend = "+".join(sorted(backends)) or "const-fold"
    ob.detail = f"{len(groups)} case group(s), {npaths} paths, {len(uniq)} distinct solver queries, all unsat"
    return ob


def parse_period_text(s: CStr) -> Optional[Tuple[Any, Any, Optional[int], Any]]:
    """Read a canonical period text of concrete shape: (shape condition, year, indicator char code, number).

    Shapes: YYYYA | YYYY-Sn | YYYY-Qn | YYYY-Mnn | YYYY-Wnn | YYYY-Dnnn (number width 1/2/3 by total length)."""
    n = len(s)
    ch = s.chars
    if n == 5:
        return And(*[is_digit(c) for c in ch[:4]], Eq(ch[4], 65)), digits_value(ch[:4]), 65, 1
    if n in (7, 8, 9):
        shape = And(*[is_digit(c) for c in ch[:4]], Eq(ch[4], 45), *[is_digit(c) for c in ch[6:]])
        return shape, digits_value(ch[:4]), ch[5], digits_value(ch[6:])
    return None


def period_text_is(s: CStr, y: Any, ind: str, n: Any) -> Any:
    """s is the canonical text of period (y, ind, n)."""
    width = {"A": 0, "S": 1, "Q": 1, "M": 2, "W": 2, "D": 3}[ind]
    want_len = 5 if ind == "A" else 6 + width
    if len(s) != want_len:
        return False
    r = parse_period_text(s)
    if r is None:
        return False
    shape, yy, ic, nn = r
    return And(shape, Eq(yy, y), Eq(ic, ord(ind)), Eq(nn, n) if ind != "A" else True)
