"""E1 `pyvc`: symbolic execution of real Python functions (read from /repo's working tree on every run).

Forward symbolic execution with path splitting by decision-prefix re-execution: the function body is
interpreted over values that are either concrete Python values or SMT terms (`vc.smt.T`); every branch on a
symbolic condition is a decision; all decision sequences are enumerated depth-first.  Each explored path
yields (path condition, outcome, post-state of the module globals, call-site obligations).  The check then
asks the solver, per path and per contract clause, whether  pre /\\ pc /\\ not post  is satisfiable.

Subset (anything else raises OutsideSubset -> the obligation is *undecided*, never skipped):
  statements: assign / augassign / annassign / if / for over concrete iterables / while with concrete
              guard / return / raise / try-except-finally / with (not supported) / global / pass / assert / expr
  values:     int (mathematical), bool, str (SMT strings), None, tuples/lists/dicts/sets of those, finite
              enumerations (classes or enum members read from the source) incl. symbolic members and
              symbolic subsets, instances of source classes with plain attributes, module constant tables.
  calls:      functions of the source tree (inlined, depth-limited, or replaced by a sidecar contract),
              a fixed table of builtins / externals with assumed semantics (reported in the evidence).
Dropped by extraction: annotations, docstrings, decorators other than classmethod/staticmethod/property
(lru_cache treated as transparent), logging.
"""
from __future__ import annotations

import ast
import itertools
from dataclasses import dataclass, field
from typing import Any, Callable, Dict, List, Optional, Sequence, Set, Tuple

from . import smt
from .core import SRC, run_smt
from .pysrc import module_ast
from .smt import BOOL, INT, STR, T, And, Decls, Eq, Implies, Ite, Not, Or, is_sym


class OutsideSubset(Exception):
    pass


class PathLimit(Exception):
    pass


# ----------------------------------------------------------------------------------------------
# value classes
# ----------------------------------------------------------------------------------------------
class Opaque:
    """A value the encoding does not model.  Harmless unless control flow or a contract depends on it."""

    def __init__(self, why: str) -> None:
        self.why = why

    def __repr__(self) -> str:
        return f"Opaque({self.why})"


@dataclass(eq=False)
class ClassV:
    rel: str
    name: str
    node: Optional[ast.ClassDef]
    bases: List[Any]
    engine: Any = None

    def __repr__(self) -> str:
        return f"<class {self.name}>"

    def mro(self) -> List["ClassV"]:
        out: List[ClassV] = [self]
        for b in self.bases:
            if isinstance(b, ClassV):
                for c in b.mro():
                    if c not in out:
                        out.append(c)
        return out

    def is_subclass_of(self, other: Any) -> bool:
        if isinstance(other, ClassV):
            return other in self.mro()
        if isinstance(other, BuiltinClass):
            return any(isinstance(b, BuiltinClass) and b.is_subclass_of(other) for c in self.mro() for b in c.bases)
        return False


@dataclass(eq=False)
class BuiltinClass:
    name: str

    HIER = {"KeyError": "LookupError", "IndexError": "LookupError", "LookupError": "Exception",
            "ValueError": "Exception", "TypeError": "Exception", "AttributeError": "Exception",
            "NotImplementedError": "RuntimeError", "RuntimeError": "Exception", "OSError": "Exception",
            "FileNotFoundError": "OSError", "ZeroDivisionError": "ArithmeticError", "ArithmeticError": "Exception",
            "OverflowError": "ArithmeticError", "AssertionError": "Exception", "StopIteration": "Exception",
            "Exception": "BaseException", "BaseException": None, "UnicodeDecodeError": "ValueError",
            "KeyboardInterrupt": "BaseException", "SystemExit": "BaseException", "GeneratorExit": "BaseException",
            "DuckDBError": "Exception", "ExternalError": "Exception", "BodyError": "Exception",
            "MemoryError": "Exception", "PermissionError": "OSError"}

    def __repr__(self) -> str:
        return f"<builtin class {self.name}>"

    def is_subclass_of(self, other: Any) -> bool:
        if not isinstance(other, BuiltinClass):
            return False
        cur: Optional[str] = self.name
        while cur is not None:
            if cur == other.name:
                return True
            cur = self.HIER.get(cur)
        return False


_BUILTIN_CLASSES: Dict[str, BuiltinClass] = {}


def builtin_class(name: str) -> BuiltinClass:
    if name not in _BUILTIN_CLASSES:
        _BUILTIN_CLASSES[name] = BuiltinClass(name)
    return _BUILTIN_CLASSES[name]


@dataclass(eq=False)
class FuncV:
    rel: str
    qualname: str
    node: ast.FunctionDef
    cls: Optional[ClassV] = None
    kind: str = "function"   # function | method | classmethod | staticmethod | property

    def __repr__(self) -> str:
        return f"<func {self.rel}:{self.qualname}>"


@dataclass(eq=False)
class BoundV:
    func: Any
    self_value: Any


@dataclass(eq=False)
class ObjV:
    cls: Any
    attrs: Dict[str, Any] = field(default_factory=dict)
    args: Tuple[Any, ...] = ()
    kwargs: Dict[str, Any] = field(default_factory=dict)

    def __repr__(self) -> str:
        return f"<obj {getattr(self.cls, 'name', self.cls)} {self.attrs or self.kwargs}>"


@dataclass(eq=False)
class ModuleV:
    name: str          # rel path for source modules, dotted name for externals
    external: bool = False


@dataclass(eq=False)
class ExternalV:
    name: str

    def __repr__(self) -> str:
        return f"<external {self.name}>"


class EnumSort:
    """A finite sort whose members are concrete python values (ClassV objects, strings, EnumMember...)."""

    def __init__(self, name: str, members: Sequence[Any]) -> None:
        self.name = name
        self.members = list(members)
        self._idx = {id(m) if isinstance(m, (ClassV, ObjV)) else m: i for i, m in enumerate(self.members)}

    def index(self, m: Any) -> Optional[int]:
        return self._idx.get(id(m) if isinstance(m, (ClassV, ObjV)) else m)

    def __contains__(self, m: Any) -> bool:
        return self.index(m) is not None


@dataclass(eq=False)
class SymEnum:
    sort: EnumSort
    term: Any      # T Int (index into sort.members)

    def eq_member(self, m: Any) -> Any:
        i = self.sort.index(m)
        if i is None:
            return False
        return Eq(self.term, i)

    def __repr__(self) -> str:
        return f"SymEnum<{self.sort.name}:{self.term}>"


@dataclass(eq=False)
class SymSet:
    sort: EnumSort
    mem: Dict[int, Any]                 # member index -> Bool
    frozen_origin: Optional[str] = None  # set when it denotes a module-level table entry (must not be mutated)

    def copy(self) -> "SymSet":
        return SymSet(self.sort, dict(self.mem))

    def contains(self, v: Any) -> Any:
        if isinstance(v, SymEnum):
            if v.sort is not self.sort:
                return Or(*[And(v.eq_member(m), self.mem.get(self.sort.index(m), False))
                            for m in v.sort.members if m in self.sort])
            return Or(*[And(Eq(v.term, i), b) for i, b in self.mem.items()])
        i = self.sort.index(v)
        if i is None:
            return False
        return self.mem.get(i, False)


class ReturnSignal(Exception):
    def __init__(self, value: Any) -> None:
        self.value = value


class RaiseSignal(Exception):
    def __init__(self, exc: Any) -> None:
        self.exc = exc


class BreakSignal(Exception):
    pass


class ContinueSignal(Exception):
    pass


@dataclass
class PathResult:
    pc: List[Any]
    kind: str                 # 'return' | 'raise' | 'abort'
    value: Any
    gpost: Dict[Tuple[str, str], Any]
    obligations: List[Tuple[List[Any], Any, str]]   # (pc at the point, condition that must hold, description)
    externals: Set[str]
    decisions: List[Tuple[int, int]]
    effects: List[Tuple[str, Any]] = field(default_factory=list)   # recorded external side effects, in order
    abort_reason: str = ""


# ----------------------------------------------------------------------------------------------
# the engine
# ----------------------------------------------------------------------------------------------
class Engine:
    def __init__(self, decls: Optional[Decls] = None, max_paths: int = 20000, max_depth: int = 12,
                 prune: bool = False) -> None:
        self.decls = decls or Decls()
        self.max_paths = max_paths
        self.max_depth = max_depth
        self.prune = prune
        self.modules: Dict[str, Dict[str, Any]] = {}
        self.externals: Dict[str, Callable[..., Any]] = {}
        self.contracts: Dict[Tuple[str, str], Callable[..., Any]] = {}
        self.enum_sorts: Dict[str, EnumSort] = {}
        self.axioms: List[Any] = []       # global assumptions (range constraints of symbolic enums, ...)
        self.inlined: Set[str] = set()
        self.used_externals: Set[str] = set()
        self.external_values: Dict[str, Any] = {}   # dotted external name -> modelled value
        self._prune_cache: Dict[str, bool] = {}
        # per-path state
        self.pc: List[Any] = []
        self.prefix: List[Tuple[int, int]] = []
        self.decisions: List[Tuple[int, int]] = []
        self.gstate: Dict[Tuple[str, str], Any] = {}
        self.obligs: List[Tuple[List[Any], Any, str]] = []
        self.effects: List[Tuple[str, Any]] = []
        self.depth = 0
        from . import pyext
        pyext.install(self)

    # -- module environments --------------------------------------------------------------------
    def resolve_module(self, dotted: str) -> Optional[str]:
        if not dotted.startswith("vtlengine"):
            return None
        parts = dotted.split(".")[1:]
        base = SRC.joinpath(*parts) if parts else SRC
        if (base.with_suffix(".py")).exists() and parts:
            return "/".join(parts) + ".py"
        if (base / "__init__.py").exists():
            return "/".join(parts + ["__init__.py"]) if parts else "__init__.py"
        return None

    def module_env(self, rel: str) -> Dict[str, Any]:
        if rel in self.modules:
            return self.modules[rel]
        env: Dict[str, Any] = {}
        self.modules[rel] = env
        tree = module_ast(rel)
        pkg_parts = ["vtlengine"] + rel.split("/")[:-1]
        for st in tree.body:
            self._module_stmt(rel, st, env, pkg_parts)
        return env

    def _module_stmt(self, rel: str, st: ast.stmt, env: Dict[str, Any], pkg_parts: List[str]) -> None:
        if isinstance(st, ast.ImportFrom):
            mod = st.module or ""
            if st.level:
                base = pkg_parts[: len(pkg_parts) - (st.level - 1)]
                mod = ".".join(base + ([mod] if mod else []))
            target = self.resolve_module(mod)
            for a in st.names:
                nm = a.asname or a.name
                if target is not None:
                    env[nm] = ("lazy-import", target, a.name, mod)
                else:
                    env[nm] = ExternalV(f"{mod}.{a.name}")
        elif isinstance(st, ast.Import):
            for a in st.names:
                nm = a.asname or a.name.split(".")[0]
                # `import a.b.c` binds the TOP package; `import a.b.c as x` binds the submodule
                dotted = a.name if a.asname else a.name.split(".")[0]
                target = self.resolve_module(dotted)
                env[nm] = ModuleV(target, False) if target else ModuleV(dotted, True)
        elif isinstance(st, ast.FunctionDef):
            env[st.name] = FuncV(rel, st.name, st)
        elif isinstance(st, ast.ClassDef):
            env[st.name] = ("lazy-class", rel, st)
        elif isinstance(st, ast.Assign):
            for t in st.targets:
                if isinstance(t, ast.Name):
                    env[t.id] = ("lazy-expr", rel, st.value)
                elif isinstance(t, ast.Tuple) and all(isinstance(e, ast.Name) for e in t.elts):
                    for i, e in enumerate(t.elts):
                        env[e.id] = ("lazy-tuple", rel, st.value, i)  # type: ignore[attr-defined]
        elif isinstance(st, ast.AnnAssign) and isinstance(st.target, ast.Name) and st.value is not None:
            env[st.target.id] = ("lazy-expr", rel, st.value)
        elif isinstance(st, (ast.If, ast.Try)):
            # module-level conditionals (TYPE_CHECKING, optional imports): take the textual union
            for sub in getattr(st, "body", []):
                self._module_stmt(rel, sub, env, pkg_parts)

    def lookup_global(self, rel: str, name: str) -> Any:
        if (rel, name) in self.gstate:
            return self.gstate[(rel, name)]
        env = self.module_env(rel)
        if name not in env:
            if name in self.externals:
                return ExternalV(name)
            if name in BuiltinClass.HIER:
                return builtin_class(name)
            raise OutsideSubset(f"name {name!r} not found in module {rel}")
        v = env[name]
        if isinstance(v, tuple) and v and isinstance(v[0], str) and v[0].startswith("lazy-"):
            kind = v[0]
            if kind == "lazy-import":
                _, target, orig, mod = v
                sub = self.resolve_module(mod + "." + orig)
                if sub is not None and orig not in self.module_env(target):
                    val: Any = ModuleV(sub, False)
                else:
                    val = self.lookup_global(target, orig)
                    if (target, orig) in self.gstate:
                        return val      # mutable global of another module: do not cache
            elif kind == "lazy-class":
                val = self._make_class(v[1], v[2])
            elif kind == "lazy-expr":
                env[name] = Opaque(f"recursive module constant {name}")
                val = self._eval_module_expr(v[1], v[2], name)
            elif kind == "lazy-tuple":
                whole = self._eval_module_expr(v[1], v[2], name)
                val = whole[v[3]] if isinstance(whole, (tuple, list)) else Opaque("tuple unpack")
            else:
                raise AssertionError(kind)
            env[name] = val
            return val
        return v

    def _eval_module_expr(self, rel: str, node: ast.expr, name: str) -> Any:
        saved = (self.pc, self.decisions, self.prefix)
        try:
            fr = Frame(self, rel, {}, None)
            try:
                v = fr.eval(node)
            except (OutsideSubset, RaiseSignal) as e:
                return Opaque(f"module constant {name}: {e}")
            # module-level containers are process-global state: tag them so that any mutation is an obligation
            if type(v) is dict:
                v = GDict(v)
            elif type(v) is list:
                v = GList(v)
            elif type(v) is set:
                v = GSet(v)
            if isinstance(v, (GDict, GList, GSet)):
                v._frozen_origin = f"{rel}:{name}"
            return v
        finally:
            self.pc, self.decisions, self.prefix = saved

    def _make_class(self, rel: str, node: ast.ClassDef) -> ClassV:
        cv = ClassV(rel, node.name, node, [], self)
        self.module_env(rel)[node.name] = cv
        for b in node.bases:
            try:
                bv = Frame(self, rel, {}, None).eval(b)
            except OutsideSubset:
                bv = Opaque("base")
            cv.bases.append(bv)
        return cv

    def class_attr(self, cv: ClassV, name: str) -> Any:
        """Resolve a class attribute through the MRO read from the source; returns (found, value)."""
        for c in cv.mro():
            if c.node is None:
                continue
            for st in c.node.body:
                if isinstance(st, ast.FunctionDef) and st.name == name:
                    kind = "method"
                    for d in st.decorator_list:
                        dn = d.id if isinstance(d, ast.Name) else d.attr if isinstance(d, ast.Attribute) else ""
                        if dn in ("classmethod", "staticmethod", "property"):
                            kind = dn
                    key = ("fn", id(st))
                    cache = c.__dict__.setdefault("_fncache", {})
                    if key not in cache:
                        cache[key] = FuncV(c.rel, f"{c.name}.{name}", st, c, kind)
                    return True, cache[key]
                if isinstance(st, ast.Assign) and any(isinstance(t, ast.Name) and t.id == name for t in st.targets):
                    return True, Frame(self, c.rel, {}, None).eval(st.value)
                if isinstance(st, ast.AnnAssign) and isinstance(st.target, ast.Name) and st.target.id == name \
                        and st.value is not None:
                    return True, Frame(self, c.rel, {}, None).eval(st.value)
        return False, None

    # -- symbolic inputs ------------------------------------------------------------------------
    def sym_int(self, name: str) -> T:
        return self.decls.const(name, INT)

    def sym_bool(self, name: str) -> T:
        return self.decls.const(name, BOOL)

    def sym_str(self, name: str) -> T:
        return self.decls.const(name, STR)

    def enum_sort(self, name: str, members: Sequence[Any]) -> EnumSort:
        if name not in self.enum_sorts:
            self.enum_sorts[name] = EnumSort(name, members)
        return self.enum_sorts[name]

    def sym_enum(self, name: str, sort: EnumSort) -> SymEnum:
        t = self.decls.const(name, INT)
        self.axioms.append(And(smt.Ge(t, 0), smt.Lt(t, len(sort.members))))
        return SymEnum(sort, t)

    # -- decisions ------------------------------------------------------------------------------
    def choose(self, arity: int, conds: Optional[Sequence[Any]] = None) -> int:
        """n-way decision; conds[i] is added to the path condition for choice i."""
        k = len(self.decisions)
        if k < len(self.prefix):
            c = self.prefix[k][0]
        else:
            c = 0
            if self.prune and conds is not None:
                while c < arity - 1 and not self._feasible(conds[c]):
                    c += 1
        self.decisions.append((c, arity))
        if conds is not None:
            self.pc.append(conds[c])
        return c

    def decide(self, cond: Any) -> bool:
        if isinstance(cond, Opaque):
            if getattr(self, "nondet_opaque", False):
                # over-approximation for safety/totality clauses: an unmodelled condition may go either way
                return self.choose(2) == 0
            raise OutsideSubset(f"branch on unmodelled value: {cond.why}")
        if not is_sym(cond):
            return bool(cond)
        if cond in self.pc:
            return True
        if Not(cond) in self.pc:
            return False
        k = len(self.decisions)
        if k < len(self.prefix):
            c = self.prefix[k][0]
            arity = self.prefix[k][1]
        else:
            arity = 2
            c = 0
            if self.prune:
                ft, ff = self._feasible(cond), None
                if not ft:
                    c, arity = 0, 1   # only the false branch is feasible: no decision point
                    self.decisions.append((0, 1))
                    self.pc.append(Not(cond))
                    return False
                ff = self._feasible(Not(cond))
                if not ff:
                    self.decisions.append((0, 1))
                    self.pc.append(cond)
                    return True
        if arity == 1:
            # replaying a pruned decision: recompute which side was feasible
            ft = self._feasible(cond)
            self.decisions.append((0, 1))
            self.pc.append(cond if ft else Not(cond))
            return bool(ft)
        self.decisions.append((c, 2))
        self.pc.append(cond if c == 0 else Not(cond))
        return c == 0

    def _feasible(self, cond: Any) -> bool:
        if not is_sym(cond):
            return bool(cond)
        text = smt.query(self.decls, list(self.axioms) + list(self.pc) + [cond])
        if text in self._prune_cache:
            return self._prune_cache[text]
        r = run_smt(text, timeout=5, tag="prune", backends=("z3",))
        ok = r.status != "unsat"
        self._prune_cache[text] = ok
        return ok

    def oblige(self, cond: Any, desc: str) -> None:
        """Record a call-site obligation (must hold under the current path condition)."""
        self.obligs.append((list(self.pc), cond, desc))

    # -- exploration ----------------------------------------------------------------------------
    def explore(self, fn: FuncV, args: Sequence[Any] = (), kwargs: Optional[Dict[str, Any]] = None,
                gpre: Optional[Dict[Tuple[str, str], Any]] = None,
                setup: Optional[Callable[["Engine"], None]] = None) -> List[PathResult]:
        results: List[PathResult] = []
        prefix: List[Tuple[int, int]] = []
        while True:
            if len(results) >= self.max_paths:
                raise PathLimit(f"more than {self.max_paths} paths in {fn.qualname}")
            self.pc, self.prefix, self.decisions = [], prefix, []
            self.gstate = dict(gpre or {})
            self.obligs, self.effects, self.depth = [], [], 0
            self.used_externals = set()
            if setup:
                setup(self)
            try:
                try:
                    v = self.call(fn, list(args), dict(kwargs or {}))
                    res = PathResult(self.pc, "return", v, self.gstate, self.obligs, self.used_externals,
                                     self.decisions, self.effects)
                except RaiseSignal as r:
                    res = PathResult(self.pc, "raise", r.exc, self.gstate, self.obligs, self.used_externals,
                                     self.decisions, self.effects)
            except OutsideSubset as e:
                res = PathResult(self.pc, "abort", None, self.gstate, self.obligs, self.used_externals,
                                 self.decisions, self.effects, abort_reason=str(e))
            results.append(res)
            dec = list(self.decisions)
            while dec and dec[-1][0] >= dec[-1][1] - 1:
                dec.pop()
            if not dec:
                break
            dec[-1] = (dec[-1][0] + 1, dec[-1][1])
            prefix = dec
        return results

    def func(self, rel: str, qualname: str) -> FuncV:
        parts = qualname.split(".")
        v = self.lookup_global(rel, parts[0])
        for p in parts[1:]:
            if isinstance(v, ClassV):
                ok, v = self.class_attr(v, p)
                if not ok:
                    raise OutsideSubset(f"{qualname} not found in {rel}")
            else:
                raise OutsideSubset(f"{qualname} not found in {rel}")
        if not isinstance(v, FuncV):
            raise OutsideSubset(f"{rel}:{qualname} is not a function")
        return v

    # -- calls ----------------------------------------------------------------------------------
    def call(self, f: Any, args: List[Any], kwargs: Dict[str, Any]) -> Any:
        if isinstance(f, BoundV):
            return self.call(f.func, [f.self_value] + args, kwargs)
        if isinstance(f, ExternalV):
            h = self.externals.get(f.name)
            if h is None:
                return Opaque(f"call of unmodelled external {f.name}")
            self.used_externals.add(f.name)
            return h(self, *args, **kwargs)
        if isinstance(f, (ClassV, BuiltinClass)):
            return self.instantiate(f, args, kwargs)
        if isinstance(f, FuncV):
            key = (f.rel, f.qualname)
            if key in self.contracts:
                self.used_externals.add(f"contract:{f.rel}:{f.qualname}")
                return self.contracts[key](self, *args, **kwargs)
            if self.depth >= self.max_depth:
                raise OutsideSubset(f"inlining depth exceeded at {f.qualname}")
            self.inlined.add(f"{f.rel}:{f.qualname}")
            self.depth += 1
            try:
                frame = Frame(self, f.rel, {}, f)
                frame.bind_params(f.node, args, kwargs)
                try:
                    frame.exec_block(f.node.body)
                except ReturnSignal as r:
                    return r.value
                return None
            finally:
                self.depth -= 1
        if isinstance(f, Opaque):
            return Opaque(f"call of {f.why}")
        if callable(f) and getattr(f, "_pyvc_native", False):
            return f(self, *args, **kwargs)
        raise OutsideSubset(f"call of unsupported callee {f!r}")

    def enum_members(self, cv: ClassV) -> Optional[Dict[str, ObjV]]:
        """Members of an Enum class read from its source body (None when cv is not an Enum)."""
        if "_enum_members" in cv.__dict__:
            return cv.__dict__["_enum_members"]
        is_enum = any(isinstance(b, ExternalV) and b.name.split(".")[-1] in ("Enum", "IntEnum", "StrEnum")
                      for c in cv.mro() for b in c.bases)
        members: Optional[Dict[str, ObjV]] = None
        if is_enum and cv.node is not None:
            members = {}
            for st in cv.node.body:
                if isinstance(st, ast.Assign) and len(st.targets) == 1 and isinstance(st.targets[0], ast.Name):
                    val = Frame(self, cv.rel, {}, None).eval(st.value)
                    members[st.targets[0].id] = ObjV(cv, {"name": st.targets[0].id, "value": val, "_value_": val})
        cv.__dict__["_enum_members"] = members
        return members

    def instantiate(self, cls: Any, args: List[Any], kwargs: Dict[str, Any]) -> Any:
        if isinstance(cls, BuiltinClass):
            return ObjV(cls, {}, tuple(args), dict(kwargs))
        em = self.enum_members(cls) if isinstance(cls, ClassV) else None
        if em is not None:
            if len(args) != 1:
                raise OutsideSubset("enum call")
            if isinstance(args[0], ObjV) and args[0].cls is cls:
                return args[0]
            if is_sym(args[0]) or isinstance(args[0], (SymEnum, Opaque)):
                ms = list(em.values())
                conds = [Frame(self, cls.rel, {}, None).equals(args[0], m.attrs["value"]) for m in ms]
                c = self.choose(len(ms) + 1, conds + [Not(Or(*conds))])
                if c == len(ms):
                    raise RaiseSignal(ObjV(builtin_class("ValueError"), {}, (args[0],)))
                return ms[c]
            for m in em.values():
                if m.attrs["value"] == args[0] and type(m.attrs["value"]) is type(args[0]):
                    return m
            raise RaiseSignal(ObjV(builtin_class("ValueError"), {}, (args[0],)))
        ok, init = self.class_attr(cls, "__init__")
        obj = ObjV(cls, {}, tuple(args), dict(kwargs))
        if ok and isinstance(init, FuncV) and not self._is_exception_class(cls):
            self.call(init, [obj] + args, kwargs)
        elif not ok and cls.node is not None and any(
                (isinstance(d, ast.Name) and d.id == "dataclass") or
                (isinstance(d, ast.Call) and isinstance(d.func, ast.Name) and d.func.id == "dataclass")
                for d in cls.node.decorator_list):
            names = []
            for c in reversed(cls.mro()):
                if c.node is None:
                    continue
                for st in c.node.body:
                    if isinstance(st, ast.AnnAssign) and isinstance(st.target, ast.Name):
                        names.append((st.target.id, c, st.value))
            for i, (n, c, dflt) in enumerate(names):
                if i < len(args):
                    obj.attrs[n] = args[i]
                elif n in kwargs:
                    obj.attrs[n] = kwargs[n]
                elif dflt is not None:
                    obj.attrs[n] = Frame(self, c.rel, {}, None).eval_dataclass_default(dflt)
            okp, post_init = self.class_attr(cls, "__post_init__")
            if okp and isinstance(post_init, FuncV):
                self.call(post_init, [obj], {})
        return obj

    def _is_exception_class(self, cls: ClassV) -> bool:
        return any(isinstance(b, BuiltinClass) for c in cls.mro() for b in c.bases)


class Frame:
    def __init__(self, eng: Engine, rel: str, locals_: Dict[str, Any], fn: Optional[FuncV]) -> None:
        self.eng = eng
        self.rel = rel
        self.locals = locals_
        self.fn = fn
        self.globals_declared: Set[str] = set()

    # -- parameters -----------------------------------------------------------------------------
    def bind_params(self, node: ast.FunctionDef, args: List[Any], kwargs: Dict[str, Any]) -> None:
        a = node.args
        params = [p.arg for p in a.posonlyargs + a.args]
        defaults = [None] * (len(params) - len(a.defaults)) + list(a.defaults)
        kwargs = dict(kwargs)
        for i, p in enumerate(params):
            if i < len(args):
                self.locals[p] = args[i]
            elif p in kwargs:
                self.locals[p] = kwargs.pop(p)
            elif defaults[i] is not None:
                self.locals[p] = Frame(self.eng, self.rel, {}, None).eval(defaults[i])
            else:
                raise OutsideSubset(f"missing argument {p} calling {node.name}")
        if len(args) > len(params):
            if a.vararg is None:
                raise OutsideSubset(f"too many positional arguments calling {node.name}")
            self.locals[a.vararg.arg] = tuple(args[len(params):])
        elif a.vararg is not None:
            self.locals[a.vararg.arg] = ()
        for p, d in zip(a.kwonlyargs, a.kw_defaults):
            if p.arg in kwargs:
                self.locals[p.arg] = kwargs.pop(p.arg)
            elif d is not None:
                self.locals[p.arg] = Frame(self.eng, self.rel, {}, None).eval(d)
            else:
                raise OutsideSubset(f"missing kw-only argument {p.arg}")
        if a.kwarg is not None:
            self.locals[a.kwarg.arg] = kwargs
        elif kwargs:
            raise OutsideSubset(f"unexpected keyword arguments {sorted(kwargs)} calling {node.name}")

    def eval_dataclass_default(self, node: ast.expr) -> Any:
        if isinstance(node, ast.Call) and isinstance(node.func, ast.Name) and node.func.id == "field":
            for k in node.keywords:
                if k.arg == "default_factory":
                    return self.eng.call(self.eval(k.value), [], {})
                if k.arg == "default":
                    return self.eval(k.value)
            return Opaque("dataclass field without default")
        return self.eval(node)

    # -- statements -----------------------------------------------------------------------------
    def exec_block(self, stmts: Sequence[ast.stmt]) -> None:
        for st in stmts:
            self.exec(st)

    def exec(self, st: ast.stmt) -> None:  # noqa: C901
        eng = self.eng
        if isinstance(st, ast.Expr):
            if isinstance(st.value, ast.Constant):
                return  # docstring
            self.eval(st.value)
        elif isinstance(st, ast.Assign):
            v = self.eval(st.value)
            for t in st.targets:
                self.assign(t, v)
        elif isinstance(st, ast.AnnAssign):
            if st.value is not None:
                self.assign(st.target, self.eval(st.value))
        elif isinstance(st, ast.AugAssign):
            cur = self.eval(_load(st.target))
            self.assign(st.target, self.binop(st.op, cur, self.eval(st.value)))
        elif isinstance(st, ast.Return):
            raise ReturnSignal(self.eval(st.value) if st.value is not None else None)
        elif isinstance(st, ast.Pass):
            return
        elif isinstance(st, ast.Global):
            self.globals_declared.update(st.names)
        elif isinstance(st, ast.If):
            if eng.decide(self.truth(self.eval(st.test))):
                self.exec_block(st.body)
            else:
                self.exec_block(st.orelse)
        elif isinstance(st, ast.Raise):
            if st.exc is None:
                cur = self.locals.get("__current_exception__")
                if cur is None:
                    raise OutsideSubset("bare raise outside handler")
                raise RaiseSignal(cur)
            exc = self.eval(st.exc)
            if isinstance(exc, (ClassV, BuiltinClass)):
                exc = eng.instantiate(exc, [], {})
            raise RaiseSignal(exc)
        elif isinstance(st, ast.Assert):
            if not eng.decide(self.truth(self.eval(st.test))):
                raise RaiseSignal(ObjV(builtin_class("AssertionError")))
        elif isinstance(st, ast.For):
            it = self.eval(st.iter)
            seq = self.iterate(it)
            broke = False
            for item in seq:
                self.assign(st.target, item)
                try:
                    self.exec_block(st.body)
                except BreakSignal:
                    broke = True
                    break
                except ContinueSignal:
                    continue
            if not broke:
                self.exec_block(st.orelse)
        elif isinstance(st, ast.While):
            n = 0
            while eng.decide(self.truth(self.eval(st.test))):
                n += 1
                if n > 64:
                    raise OutsideSubset("while loop exceeds 64 symbolic iterations (needs an invariant)")
                try:
                    self.exec_block(st.body)
                except BreakSignal:
                    break
                except ContinueSignal:
                    continue
        elif isinstance(st, ast.Break):
            raise BreakSignal()
        elif isinstance(st, ast.Continue):
            raise ContinueSignal()
        elif isinstance(st, ast.Try):
            self.exec_try(st)
        elif isinstance(st, ast.With):
            self.exec_with(st, 0)
        elif isinstance(st, (ast.FunctionDef, ast.ClassDef)):
            if isinstance(st, ast.FunctionDef):
                self.locals[st.name] = FuncV(self.rel, (self.fn.qualname + "." if self.fn else "") + st.name, st)
            else:
                raise OutsideSubset("nested class definition")
        elif isinstance(st, (ast.Import, ast.ImportFrom)):
            env: Dict[str, Any] = {}
            eng._module_stmt(self.rel, st, env, ["vtlengine"] + self.rel.split("/")[:-1])
            for k, v in env.items():
                if isinstance(v, tuple) and v and v[0] == "lazy-import":
                    v = eng.lookup_global(v[1], v[2])
                self.locals[k] = v
        elif isinstance(st, ast.Delete):
            for t in st.targets:
                if isinstance(t, ast.Name):
                    self.locals.pop(t.id, None)
                elif isinstance(t, ast.Subscript):
                    obj = self.eval(t.value)
                    key = self.eval(t.slice)
                    if isinstance(obj, dict) and not is_sym(key):
                        if getattr(obj, "_frozen_origin", None):
                            self.eng.oblige(False, f"mutation of module-level state {obj._frozen_origin} (del)")
                        if key not in obj:
                            raise RaiseSignal(ObjV(builtin_class("KeyError"), {}, (key,)))
                        del obj[key]
                    else:
                        raise OutsideSubset("del on symbolic container")
                else:
                    raise OutsideSubset("del target")
        else:
            raise OutsideSubset(f"statement {type(st).__name__} (line {st.lineno})")

    def exec_try(self, st: ast.Try) -> None:
        eng = self.eng
        try:
            try:
                self.exec_block(st.body)
            except RaiseSignal as r:
                handled = False
                for h in st.handlers:
                    if h.type is None:
                        match: Any = True
                    else:
                        types = self.eval(h.type)
                        types = types if isinstance(types, tuple) else (types,)
                        match = any(self.exc_isinstance(r.exc, t) for t in types)
                    if match:
                        handled = True
                        if h.name:
                            self.locals[h.name] = r.exc
                        saved = self.locals.get("__current_exception__")
                        self.locals["__current_exception__"] = r.exc
                        try:
                            self.exec_block(h.body)
                        finally:
                            self.locals["__current_exception__"] = saved
                        break
                if not handled:
                    raise
            else:
                self.exec_block(st.orelse)
        finally:
            if st.finalbody:
                self.exec_block(st.finalbody)

    def exec_with(self, st: ast.With, i: int) -> None:
        """`with cm() as v: BODY` for @contextmanager generator functions of the source tree: the generator body is
        interpreted with BODY as the continuation of its `yield` (an exception of BODY is thrown at the yield, a
        normal end resumes after it) - the contextlib protocol.  Objects with a `_pyvc_with` hook model externals."""
        if i == len(st.items):
            self.exec_block(st.body)
            return
        item = st.items[i]
        ce = item.context_expr
        cm_fn = None
        if isinstance(ce, ast.Call):
            f = self.eval(ce.func)
            if isinstance(f, FuncV) and any(
                    (isinstance(d, ast.Name) and d.id == "contextmanager") or
                    (isinstance(d, ast.Attribute) and d.attr == "contextmanager") for d in f.node.decorator_list):
                cm_fn = f
        if cm_fn is not None:
            assert isinstance(ce, ast.Call)
            args = [self.eval(a) for a in ce.args]
            kwargs = {k.arg: self.eval(k.value) for k in ce.keywords if k.arg}
            outer = self

            def on_yield(value: Any) -> Any:
                if item.optional_vars is not None:
                    outer.assign(item.optional_vars, value)
                try:
                    outer.exec_with(st, i + 1)
                except ReturnSignal as r:
                    r._from_with_body = True  # type: ignore[attr-defined]
                    raise
                return None

            fr = Frame(self.eng, cm_fn.rel, {}, cm_fn)
            fr.on_yield = on_yield  # type: ignore[attr-defined]
            fr.bind_params(cm_fn.node, args, kwargs)
            self.eng.inlined.add(f"{cm_fn.rel}:{cm_fn.qualname}")
            try:
                fr.exec_block(cm_fn.node.body)
            except ReturnSignal as r:
                if getattr(r, "_from_with_body", False):
                    raise
            return
        cm = self.eval(ce)
        hook = getattr(cm, "_pyvc_with", None)
        if hook is None:
            raise OutsideSubset(f"with over {type(cm).__name__} (line {st.lineno})")
        hook(self, st, i)

    def exc_isinstance(self, exc: Any, cls: Any) -> bool:
        c = exc.cls if isinstance(exc, ObjV) else None
        if c is None:
            raise OutsideSubset("exception value not an object")
        if isinstance(c, ClassV):
            return c.is_subclass_of(cls)
        if isinstance(c, BuiltinClass):
            return c.is_subclass_of(cls)
        return False

    # -- assignment -----------------------------------------------------------------------------
    def assign(self, target: ast.expr, v: Any) -> None:
        if isinstance(target, ast.Name):
            if target.id in self.globals_declared:
                self.eng.gstate[(self.rel, target.id)] = v
            else:
                self.locals[target.id] = v
        elif isinstance(target, (ast.Tuple, ast.List)):
            items = list(self.iterate(v))
            if len(items) != len(target.elts):
                raise OutsideSubset("unpacking length mismatch")
            for t, x in zip(target.elts, items):
                self.assign(t, x)
        elif isinstance(target, ast.Attribute):
            obj = self.eval(target.value)
            if isinstance(obj, ObjV):
                obj.attrs[target.attr] = v
            elif isinstance(obj, ModuleV) and not obj.external:
                self.eng.gstate[(obj.name, target.attr)] = v
            elif isinstance(obj, ClassV):
                self.eng.gstate[(obj.rel, f"{obj.name}.{target.attr}")] = v
            else:
                raise OutsideSubset(f"attribute store on {obj!r}")
        elif isinstance(target, ast.Subscript):
            obj = self.eval(target.value)
            key = self.eval(target.slice)
            hook = getattr(obj, "_pyvc_setitem", None)      # (additive) theory-backed collections, vc.pycoll
            if hook is not None:
                hook(self.eng, key, v)
                return
            if isinstance(obj, (dict, list)) and not is_sym(key) and not isinstance(key, (SymEnum, Opaque)):
                if getattr(obj, "_frozen_origin", None):
                    self.eng.oblige(False, f"mutation of module-level table {obj._frozen_origin}")  # type: ignore
                obj[key] = v
            elif type(obj) is dict and is_sym(key) and not getattr(obj, "_frozen_origin", None):
                # (additive) local dict keyed by symbolic terms: overwrite the entry whose key equals `key`, else insert
                if key not in obj:           # not the identical term: it must denote a key that is not there yet
                    for k in list(obj):
                        if (isinstance(k, (int, str)) or is_sym(k)) and smt.sort_of(k) == key.sort:
                            self.eng.oblige(Not(Eq(key, k)), "dict store under a symbolic key: the key differs from the "
                                                             "keys already present (no aliasing of symbolic keys)")
                obj[key] = v
            else:
                raise OutsideSubset("subscript store with symbolic key/container")
        else:
            raise OutsideSubset(f"assignment target {type(target).__name__}")

    # -- expressions ----------------------------------------------------------------------------
    def truth(self, v: Any) -> Any:
        if isinstance(v, T):
            if v.sort == BOOL:
                return v
            if v.sort == INT:
                return smt.Ne(v, 0)
            if v.sort == STR:
                return smt.Ne(v, "")
        if isinstance(v, SymSet):
            return Or(*v.mem.values())
        hook = getattr(v, "_pyvc_truth", None)              # (additive) theory-backed collections, vc.pycoll
        if hook is not None:
            return hook(self.eng)
        if isinstance(v, (SymEnum, ClassV, FuncV, ObjV, ModuleV, BuiltinClass)):
            return True
        if isinstance(v, Opaque):
            return v
        return bool(v)

    def eval(self, e: ast.expr) -> Any:  # noqa: C901
        eng = self.eng
        if isinstance(e, ast.Constant):
            return e.value
        if isinstance(e, ast.Name):
            if e.id in self.locals and e.id not in self.globals_declared:
                return self.locals[e.id]
            if e.id in ("True", "False", "None"):
                return {"True": True, "False": False, "None": None}[e.id]
            try:
                gv = eng.lookup_global(self.rel, e.id)
                if isinstance(gv, ExternalV) and gv.name in eng.external_values:
                    return eng.external_values[gv.name]
                return gv
            except OutsideSubset:
                if e.id in eng.externals:
                    return ExternalV(e.id)
                if e.id in BuiltinClass.HIER:
                    return builtin_class(e.id)
                raise
        if isinstance(e, ast.Attribute):
            return self.getattr(self.eval(e.value), e.attr)
        if isinstance(e, ast.BoolOp):
            vals_pc: Any = None
            if isinstance(e.op, ast.And):
                cur: Any = True
                for sub in e.values:
                    cur = self.eval(sub)
                    if not eng.decide(self.truth(cur)):
                        return cur
                return cur
            cur = False
            for sub in e.values:
                cur = self.eval(sub)
                if eng.decide(self.truth(cur)):
                    return cur
            return cur
        if isinstance(e, ast.UnaryOp):
            v = self.eval(e.operand)
            if isinstance(e.op, ast.Not):
                t = self.truth(v)
                if isinstance(t, Opaque):
                    return t
                return Not(t)
            if isinstance(e.op, ast.USub):
                return smt.Neg(v)
            if isinstance(e.op, ast.UAdd):
                return v
            raise OutsideSubset("unary operator")
        if isinstance(e, ast.BinOp):
            return self.binop(e.op, self.eval(e.left), self.eval(e.right))
        if isinstance(e, ast.Compare):
            left = self.eval(e.left)
            result: Any = True
            for op, rn in zip(e.ops, e.comparators):
                right = self.eval(rn)
                c = self.compare(op, left, right)
                if len(e.ops) == 1:
                    return c
                if isinstance(c, Opaque):
                    return c
                result = And(result, c)
                left = right
            return result
        if isinstance(e, ast.IfExp):
            if eng.decide(self.truth(self.eval(e.test))):
                return self.eval(e.body)
            return self.eval(e.orelse)
        if isinstance(e, ast.Call):
            return self.eval_call(e)
        if isinstance(e, ast.JoinedStr):
            parts = []
            for v in e.values:
                if isinstance(v, ast.Constant):
                    parts.append(v.value)
                else:
                    assert isinstance(v, ast.FormattedValue)
                    x = self.eval(v.value)
                    s = self.to_str(x, v.format_spec)
                    if isinstance(s, Opaque):
                        return s
                    parts.append(s)
            return smt.Concat(*parts)
        if isinstance(e, ast.Tuple):
            return tuple(self.eval_elts(e.elts))
        if isinstance(e, ast.List):
            return list(self.eval_elts(e.elts))
        if isinstance(e, ast.Set):
            return self.make_set(self.eval_elts(e.elts))
        if isinstance(e, ast.Dict):
            d: Dict[Any, Any] = {}
            for k, v in zip(e.keys, e.values):
                if k is None:
                    sub = self.eval(v)
                    if not isinstance(sub, dict):
                        raise OutsideSubset("** of non-dict")
                    d.update(sub)
                else:
                    kk = self.eval(k)
                    if is_sym(kk) and len(e.keys) == 1:
                        d[kk] = self.eval(v)          # (additive) one-entry literal {name: value}: no aliasing possible
                        continue
                    if is_sym(kk) or isinstance(kk, (SymEnum, Opaque)):
                        raise OutsideSubset("dict literal with symbolic key")
                    d[kk] = self.eval(v)
            return d
        if isinstance(e, ast.Subscript):
            return self.subscript(self.eval(e.value), e.slice)
        if isinstance(e, (ast.ListComp, ast.SetComp, ast.GeneratorExp, ast.DictComp)):
            return self.comprehension(e)
        if isinstance(e, ast.Lambda):
            fn = ast.FunctionDef(name="<lambda>", args=e.args, body=[ast.Return(value=e.body)], decorator_list=[],
                                 lineno=e.lineno, col_offset=0)
            fv = FuncV(self.rel, "<lambda>", fn)
            fv.closure = dict(self.locals)  # type: ignore[attr-defined]
            return fv
        if isinstance(e, ast.Starred):
            raise OutsideSubset("starred expression")
        if isinstance(e, ast.NamedExpr):
            v = self.eval(e.value)
            self.assign(e.target, v)
            return v
        if isinstance(e, ast.Yield):
            v = self.eval(e.value) if e.value is not None else None
            cb = getattr(self, "on_yield", None) or getattr(eng, "default_on_yield", None)
            if cb is None:
                raise OutsideSubset("yield outside a modelled context manager")
            return cb(v)
        raise OutsideSubset(f"expression {type(e).__name__}")

    def eval_elts(self, elts: Sequence[ast.expr]) -> List[Any]:
        out: List[Any] = []
        for x in elts:
            if isinstance(x, ast.Starred):
                out.extend(self.iterate(self.eval(x.value)))
            else:
                out.append(self.eval(x))
        return out

    def make_set(self, items: Sequence[Any]) -> Any:
        if any(isinstance(x, (SymEnum,)) or is_sym(x) for x in items):
            raise OutsideSubset("set literal with symbolic elements")
        return set(items)

    def comprehension(self, e: Any) -> Any:
        out_list: List[Any] = []
        out_dict: Dict[Any, Any] = {}

        def rec(i: int) -> None:
            if i == len(e.generators):
                if isinstance(e, ast.DictComp):
                    k = self.eval(e.key)
                    if is_sym(k) or isinstance(k, (SymEnum, Opaque)):
                        raise OutsideSubset("dict comprehension with symbolic key")
                    out_dict[k] = self.eval(e.value)
                else:
                    out_list.append(self.eval(e.elt))
                return
            g = e.generators[i]
            for item in self.iterate(self.eval(g.iter)):
                self.assign(g.target, item)
                if all(self.eng.decide(self.truth(self.eval(c))) for c in g.ifs):
                    rec(i + 1)

        saved = dict(self.locals)
        rec(0)
        self.locals = saved
        if isinstance(e, ast.DictComp):
            return out_dict
        if isinstance(e, ast.SetComp):
            return self.make_set(out_list)
        return out_list

    def iterate(self, it: Any) -> List[Any]:
        if isinstance(it, (list, tuple)):
            return list(it)
        if isinstance(it, (set, frozenset)):
            try:
                return sorted(it, key=repr)
            except TypeError:
                return list(it)
        if isinstance(it, dict):
            return list(it.keys())
        if isinstance(it, range):
            return list(it)
        if isinstance(it, str):
            return list(it)
        if isinstance(it, DictItems):
            return list(it.items)
        hook = getattr(it, "_pyvc_iter", None)              # (additive) theory-backed collections, vc.pycoll
        if hook is not None:
            return list(hook(self.eng))
        raise OutsideSubset(f"iteration over {type(it).__name__} (symbolic collections need a loop contract)")

    def to_str(self, x: Any, spec: Any = None) -> Any:
        hook = getattr(x, "_pyvc_str", None)
        if hook is not None and spec is None:
            return hook(self.eng)
        if spec is not None:
            sp = self.eval(spec)
            if isinstance(x, int) and not isinstance(x, bool) and isinstance(sp, str):
                return format(x, sp)
            if is_sym(x) and x.sort == INT and isinstance(sp, str) and sp in ("02", "02d", "03", "03d", "04", "04d"):
                w = int(sp[1])
                s = smt.IntToStr(x)
                pads = s
                for k in range(1, w):
                    pads = Ite(smt.Lt(smt.Len(s), k + 1) if False else smt.Eq(smt.Len(s), w - k), smt.Concat("0" * k, s), pads)
                return Ite(smt.Ge(x, 0), pads, Opaque_to_str())
            return Opaque("format spec")
        if isinstance(x, bool):
            return str(x)
        if isinstance(x, (int, str)):
            return str(x)
        if x is None:
            return "None"
        if is_sym(x):
            if x.sort == STR:
                return x
            if x.sort == INT:
                return smt.IntToStr(x)
            if x.sort == BOOL:
                return Ite(x, "True", "False")
        return Opaque(f"str() of {type(x).__name__}")

    def binop(self, op: ast.operator, a: Any, b: Any) -> Any:
        for x, other, refl in ((a, b, False), (b, a, True)):
            hook = getattr(x, "_pyvc_binop", None)
            if hook is not None:
                return hook(self.eng, type(op).__name__, other, refl)
        if isinstance(a, Opaque) or isinstance(b, Opaque):
            return Opaque("arithmetic on unmodelled value")
        if isinstance(op, ast.Add):
            if isinstance(a, (list, tuple)) and isinstance(b, type(a)):
                return a + b
            if (isinstance(a, str) or (is_sym(a) and a.sort == STR)) and (isinstance(b, str) or (is_sym(b) and b.sort == STR)):
                return smt.Concat(a, b)
            return smt.Add(a, b)
        if isinstance(op, ast.Sub):
            if isinstance(a, (set, frozenset)) and isinstance(b, (set, frozenset)):
                return a - b
            return smt.Sub(a, b)
        if isinstance(op, ast.Mult):
            if isinstance(a, (list, str)) and isinstance(b, int):
                return a * b
            return smt.Mul(a, b)
        if isinstance(op, ast.FloorDiv):
            if self.eng.decide(smt.Eq(b, 0)):
                raise RaiseSignal(ObjV(builtin_class("ZeroDivisionError")))
            return smt.FloorDiv(a, b)
        if isinstance(op, ast.Mod):
            if isinstance(a, str):
                return Opaque("% string formatting")
            if self.eng.decide(smt.Eq(b, 0)):
                raise RaiseSignal(ObjV(builtin_class("ZeroDivisionError")))
            return smt.Mod(a, b)
        if isinstance(op, ast.BitOr) and isinstance(a, (set, frozenset, dict)):
            return a | b
        if isinstance(op, ast.BitAnd) and isinstance(a, (set, frozenset)):
            return a & b
        if isinstance(op, (ast.BitOr, ast.BitAnd)) and isinstance(a, SymSet) and isinstance(b, SymSet):
            f = Or if isinstance(op, ast.BitOr) else And
            return SymSet(a.sort, {i: f(a.mem.get(i, False), b.mem.get(i, False)) for i in range(len(a.sort.members))})
        raise OutsideSubset(f"binary operator {type(op).__name__} on {type(a).__name__}")

    def compare(self, op: ast.cmpop, a: Any, b: Any) -> Any:  # noqa: C901
        if isinstance(op, (ast.Is, ast.IsNot)):
            if a is None or b is None:
                r: Any = (a is None and b is None)
            elif isinstance(a, (SymEnum,)) or isinstance(b, SymEnum):
                r = self.equals(a, b)
            elif is_sym(a) or is_sym(b):
                r = self.equals(a, b)
            elif isinstance(a, bool) or isinstance(b, bool):
                r = a is b
            else:
                r = a is b
            return Not(r) if isinstance(op, ast.IsNot) else r
        if isinstance(op, (ast.Eq, ast.NotEq)):
            r = self.equals(a, b)
            if isinstance(r, Opaque):
                return r
            return Not(r) if isinstance(op, ast.NotEq) else r
        if isinstance(op, (ast.In, ast.NotIn)):
            r = self.contains(b, a)
            if isinstance(r, Opaque):
                return r
            return Not(r) if isinstance(op, ast.NotIn) else r
        if isinstance(a, Opaque) or isinstance(b, Opaque):
            return Opaque("comparison of unmodelled value")
        if isinstance(a, str) and isinstance(b, str):
            return {ast.Lt: a < b, ast.LtE: a <= b, ast.Gt: a > b, ast.GtE: a >= b}[type(op)]
        f = {ast.Lt: smt.Lt, ast.LtE: smt.Le, ast.Gt: smt.Gt, ast.GtE: smt.Ge}.get(type(op))
        if f is None:
            raise OutsideSubset("comparison operator")
        if (is_sym(a) and a.sort == STR) or (is_sym(b) and b.sort == STR):
            raise OutsideSubset("ordering of symbolic strings")
        return f(a, b)

    def equals(self, a: Any, b: Any) -> Any:
        if isinstance(a, Opaque) or isinstance(b, Opaque):
            return Opaque("equality of unmodelled value")
        if isinstance(a, SymEnum) and isinstance(b, SymEnum):
            if a.sort is b.sort:
                return Eq(a.term, b.term)
            return Or(*[And(a.eq_member(m), b.eq_member(m)) for m in a.sort.members if m in b.sort])
        if isinstance(a, SymEnum):
            return a.eq_member(b)
        if isinstance(b, SymEnum):
            return b.eq_member(a)
        if is_sym(a) or is_sym(b):
            if a is None or b is None:
                return False
            return Eq(a, b)
        if isinstance(a, (ClassV, FuncV, ObjV, ModuleV, BuiltinClass)) or isinstance(b, (ClassV, FuncV, ObjV, ModuleV, BuiltinClass)):
            if isinstance(a, ObjV) and isinstance(a.cls, ClassV) and a is not b:
                ok, eqf = self.eng.class_attr(a.cls, "__eq__")
                if ok and isinstance(eqf, FuncV):
                    return self.truth(self.eng.call(eqf, [a, b], {}))
            return a is b   # default object identity
        if isinstance(a, (tuple, list)) and isinstance(b, (tuple, list)) and type(a) is type(b):
            if len(a) != len(b):
                return False
            return And(*[self.equals(x, y) for x, y in zip(a, b)])
        if isinstance(a, bool) != isinstance(b, bool) and isinstance(a, (bool, int)) and isinstance(b, (bool, int)):
            return int(a) == int(b)
        return a == b

    def contains(self, container: Any, item: Any) -> Any:
        if isinstance(container, Opaque) or isinstance(item, Opaque):
            return Opaque("membership on unmodelled value")
        if isinstance(container, SymSet):
            return container.contains(item)
        hook = getattr(container, "_pyvc_contains", None)   # (additive) theory-backed collections, vc.pycoll
        if hook is not None:
            return hook(self.eng, item)
        if isinstance(container, (set, frozenset, list, tuple)):
            return Or(*[self.equals(item, x) for x in container])
        if isinstance(container, dict):
            return Or(*[self.equals(item, x) for x in container.keys()])
        if isinstance(container, DictItems):
            raise OutsideSubset("in dict.items()")
        if isinstance(container, str) and isinstance(item, str):
            return item in container
        if (isinstance(container, str) or (is_sym(container) and container.sort == STR)) and \
                (isinstance(item, str) or (is_sym(item) and item.sort == STR)):
            return smt.app(BOOL, "str.contains", container, item)
        raise OutsideSubset(f"membership test on {type(container).__name__}")

    def subscript(self, obj: Any, sl: ast.expr) -> Any:  # noqa: C901
        eng = self.eng
        if isinstance(obj, Opaque):
            if getattr(eng, "strict_partial_ops", False) and not isinstance(sl, ast.Slice):
                # (additive, vc.pystrops) totality clauses: the IndexError / KeyError outcome would be lost
                raise OutsideSubset(f"subscript of unmodelled value ({obj.why}) may raise")
            return Opaque("subscript of unmodelled value")
        if isinstance(sl, ast.Slice):
            lo = self.eval(sl.lower) if sl.lower is not None else None
            hi = self.eval(sl.upper) if sl.upper is not None else None
            if sl.step is not None:
                raise OutsideSubset("slice step")
            slhook = getattr(obj, "_pyvc_getslice", None)       # (additive) lists of symbolic length, vc.pystrops
            if slhook is not None:
                return slhook(eng, lo, hi)
            if isinstance(obj, (list, tuple, str)) and not is_sym(lo) and not is_sym(hi):
                return obj[lo:hi]
            if is_sym(obj) and obj.sort == STR and not is_sym(lo) and not is_sym(hi):
                lo = lo or 0
                if lo < 0 or (hi is not None and hi < 0):
                    n = smt.Len(obj)
                    lo2 = smt.Add(n, lo) if lo < 0 else lo
                    lo2 = smt.Max(lo2, 0) if lo < 0 else lo2
                    if hi is None:
                        return smt.Substr(obj, lo2, n)
                    hi2 = smt.Max(smt.Add(n, hi), 0) if hi < 0 else hi
                    return smt.Substr(obj, lo2, smt.Max(smt.Sub(hi2, lo2), 0))
                if hi is None:
                    return smt.Substr(obj, lo, smt.Len(obj))
                return smt.Substr(obj, lo, max(hi - lo, 0))
            raise OutsideSubset("slice of symbolic value")
        key = self.eval(sl)
        hook = getattr(obj, "_pyvc_getitem", None)
        if hook is not None:
            return hook(eng, key)
        if isinstance(key, Opaque):
            if getattr(eng, "strict_partial_ops", False):
                raise OutsideSubset(f"subscript with unmodelled key ({key.why}) may raise")
            return Opaque("subscript with unmodelled key")
        if isinstance(obj, dict):
            if isinstance(key, SymEnum):
                return self.table_lookup(obj, key)
            if is_sym(key):
                return self.table_lookup_term(obj, key)
            if isinstance(key, (list, dict, set)):
                raise OutsideSubset("unhashable key")
            if key not in obj:
                raise RaiseSignal(ObjV(builtin_class("KeyError"), {}, (key,)))
            return obj[key]
        if isinstance(obj, (list, tuple)):
            if is_sym(key):
                raise OutsideSubset("symbolic list index")
            if not isinstance(key, int) or key >= len(obj) or key < -len(obj):
                raise RaiseSignal(ObjV(builtin_class("IndexError")))
            return obj[key]
        if isinstance(obj, str) and isinstance(key, int):
            if key >= len(obj) or key < -len(obj):
                raise RaiseSignal(ObjV(builtin_class("IndexError")))
            return obj[key]
        if is_sym(obj) and obj.sort == STR:
            n = smt.Len(obj)
            if is_sym(key) or key >= 0:
                if eng.decide(Or(smt.Ge(key, n), smt.Lt(key, smt.Neg(n)))):
                    raise RaiseSignal(ObjV(builtin_class("IndexError")))
                if is_sym(key):
                    raise OutsideSubset("symbolic string index")
                return smt.Substr(obj, key, 1)
            if eng.decide(smt.Lt(n, -key)):
                raise RaiseSignal(ObjV(builtin_class("IndexError")))
            return smt.Substr(obj, smt.Add(n, key), 1)
        if isinstance(obj, (ClassV, ExternalV)):
            return obj  # typing generics such as Dict[str, Any]
        raise OutsideSubset(f"subscript of {type(obj).__name__}")

    def table_lookup(self, table: Dict[Any, Any], key: SymEnum) -> Any:
        """D[k] for a concrete dict and a symbolic enum key: KeyError fork + value merge."""
        eng = self.eng
        present = [m for m in key.sort.members if _hashable(m) and m in table]
        missing = [m for m in key.sort.members if not (_hashable(m) and m in table)]
        if missing:
            if eng.decide(Or(*[key.eq_member(m) for m in missing])):
                raise RaiseSignal(ObjV(builtin_class("KeyError"), {}, (key,)))
        if not present:
            raise OutsideSubset("table lookup with no possible key")
        vals = [table[m] for m in present]
        origin = getattr(table, "_frozen_origin", None)
        # sets of members of one enum sort -> symbolic subset
        if all(isinstance(v, (set, frozenset)) for v in vals):
            sort = self._sort_covering([x for v in vals for x in v])
            if sort is not None:
                mem = {}
                for i, m2 in enumerate(sort.members):
                    mem[i] = Or(*[key.eq_member(m) for m in present if m2 in table[m]])
                return SymSet(sort, mem, frozen_origin=origin or "table")
        if all(isinstance(v, (int, str, bool)) and not isinstance(v, bool) or is_sym(v) for v in vals) \
                and len({smt.sort_of(v) for v in vals}) == 1:
            out = vals[-1]
            for m, v in reversed(list(zip(present, vals))[:-1]):
                out = Ite(key.eq_member(m), v, out)
            return out
        if all(isinstance(v, bool) for v in vals):
            return Or(*[And(key.eq_member(m), v) for m, v in zip(present, vals)])
        sort = self._sort_covering(vals)
        if sort is not None:
            out_t: Any = sort.index(vals[-1])
            for m, v in reversed(list(zip(present, vals))[:-1]):
                out_t = Ite(key.eq_member(m), sort.index(v), out_t)
            return SymEnum(sort, out_t) if is_sym(out_t) else sort.members[out_t]
        # general case: fork per key
        c = eng.choose(len(present), [key.eq_member(m) for m in present])
        return vals[c]

    def table_lookup_term(self, table: Dict[Any, Any], key: T) -> Any:
        eng = self.eng
        # concrete keys of the key's sort, and (additive) symbolic keys of that sort (dicts keyed by symbolic names)
        keys = [k for k in table if (isinstance(k, (int, str)) or is_sym(k)) and smt.sort_of(k) == key.sort]
        if any(is_sym(k) and k == key for k in keys):
            return table[key]            # the identical term is a key of the table
        if eng.decide(Not(Or(*[Eq(key, k) for k in keys]))):
            raise RaiseSignal(ObjV(builtin_class("KeyError"), {}, (key,)))
        vals = [table[k] for k in keys]
        if vals and all(isinstance(v, (int, str)) and not isinstance(v, bool) for v in vals) and \
                len({smt.sort_of(v) for v in vals}) == 1:
            out = vals[-1]
            for k, v in reversed(list(zip(keys, vals))[:-1]):
                out = Ite(Eq(key, k), v, out)
            return out
        c = eng.choose(len(keys), [Eq(key, k) for k in keys])
        return vals[c]

    def _sort_covering(self, values: Sequence[Any]) -> Optional[EnumSort]:
        for s in self.eng.enum_sorts.values():
            if all(v in s for v in values):
                return s
        return None

    def getattr(self, obj: Any, name: str) -> Any:  # noqa: C901
        eng = self.eng
        if isinstance(obj, Opaque):
            if getattr(eng, "strict_partial_ops", False):
                # (additive, vc.pystrops) totality clauses: the value may be None / lack the attribute
                raise OutsideSubset(f"attribute {name} of unmodelled value ({obj.why}) may raise")
            return Opaque(f"{obj.why}.{name}")
        if obj is None and getattr(eng, "none_attr_raises", False):
            raise RaiseSignal(ObjV(builtin_class("AttributeError"), {},
                                   (f"'NoneType' object has no attribute '{name}'",)))
        if isinstance(obj, ModuleV):
            if obj.external:
                full = f"{obj.name}.{name}"
                if full in eng.external_values:
                    return eng.external_values[full]
                return ExternalV(full)
            # a submodule of a package (vtlengine.Exceptions) takes precedence over names re-exported by __init__
            if obj.name.endswith("__init__.py"):
                pkg = ".".join(["vtlengine"] + obj.name.split("/")[:-1])
                sub = eng.resolve_module(pkg + "." + name)
                if sub is not None:
                    return ModuleV(sub, False)
            return eng.lookup_global(obj.name, name)
        if isinstance(obj, ExternalV):
            full = f"{obj.name}.{name}"
            if full in eng.external_values:
                return eng.external_values[full]
            return ExternalV(full)
        if isinstance(obj, ObjV):
            if name in obj.attrs:
                return obj.attrs[name]
            if name == "__class__":
                return obj.cls
            if isinstance(obj.cls, ClassV):
                ok, v = eng.class_attr(obj.cls, name)
                if ok:
                    if isinstance(v, FuncV):
                        if v.kind == "method":
                            return BoundV(v, obj)
                        if v.kind == "classmethod":
                            return BoundV(v, obj.cls)
                        if v.kind == "property":
                            return eng.call(v, [obj], {})
                    return v
            if name == "args":
                return obj.args
            raise OutsideSubset(f"attribute {name} of {obj!r}")
        if isinstance(obj, ClassV):
            if name == "__name__":
                return obj.name
            gkey = (obj.rel, f"{obj.name}.{name}")
            if gkey in eng.gstate:
                return eng.gstate[gkey]
            em = eng.enum_members(obj)
            if em is not None and name in em:
                return em[name]
            ok, v = eng.class_attr(obj, name)
            if not ok:
                raise RaiseSignal(ObjV(builtin_class("AttributeError"), {}, (name,)))
            if isinstance(v, FuncV) and v.kind == "classmethod":
                return BoundV(v, obj)
            return v
        if isinstance(obj, SymEnum):
            return self.symenum_attr(obj, name)
        if isinstance(obj, SuperV):
            mro = obj.cls.mro()
            for c in mro[1:]:
                ok, v = eng.class_attr(ClassV(c.rel, c.name, c.node, [], eng), name)
                if ok and isinstance(v, FuncV):
                    v2 = FuncV(v.rel, f"{c.name}.{name}", v.node, c, v.kind)
                    return BoundV(v2, obj.self_value if v.kind != "classmethod" else obj.cls)
            # reached a builtin base (Exception.__init__ etc.): record the arguments on the object
            def _builtin_init(eng2: Any, *a: Any, **k: Any) -> Any:
                if isinstance(obj.self_value, ObjV):
                    obj.self_value.args = tuple(a)
                return None
            _builtin_init._pyvc_native = True  # type: ignore[attr-defined]
            return _builtin_init
        hook = getattr(obj, "_pyvc_getattr", None)
        if hook is not None:
            return hook(eng, name)
        h = eng.externals.get(f"method:{name}")
        if h is not None:
            if name in _MUTATORS and getattr(obj, "_frozen_origin", None):
                eng.oblige(False, f"mutation of module-level state {obj._frozen_origin} (.{name})")
            return BoundV(_native(h), obj)
        if is_sym(obj) or isinstance(obj, str):
            # an unmodelled string method: its result is an unmodelled value (harmless unless branched on)
            return BoundV(_native(lambda e, recv, *a, **k: Opaque(f"str.{name}()")), obj)
        raise OutsideSubset(f"attribute {name} of {type(obj).__name__}")

    def symenum_attr(self, obj: SymEnum, name: str) -> Any:
        eng = self.eng
        groups: List[Tuple[Any, List[Any]]] = []
        for m in obj.sort.members:
            if isinstance(m, ClassV):
                if name == "__name__":
                    v: Any = m.name
                else:
                    ok, v = eng.class_attr(m, name)
                    if not ok:
                        v = Opaque(f"missing attribute {name}")
            elif isinstance(m, ObjV):
                v = m.attrs.get(name, Opaque(f"missing attribute {name}"))
            else:
                raise OutsideSubset(f"attribute {name} of enum member {m!r}")
            for g in groups:
                if g[0] is v or (not isinstance(v, (FuncV, ClassV, ObjV, Opaque)) and type(g[0]) is type(v) and g[0] == v):
                    g[1].append(m)
                    break
            else:
                groups.append((v, [m]))
        if len(groups) == 1:
            v = groups[0][0]
        elif all(isinstance(g[0], (int, str)) and not isinstance(g[0], bool) for g in groups) and \
                len({smt.sort_of(g[0]) for g in groups}) == 1:
            out = groups[-1][0]
            for gv, ms in reversed(groups[:-1]):
                out = Ite(Or(*[obj.eq_member(m) for m in ms]), gv, out)
            return out
        else:
            c = eng.choose(len(groups), [Or(*[obj.eq_member(m) for m in ms]) for _, ms in groups])
            v = groups[c][0]
        if isinstance(v, FuncV) and v.kind in ("classmethod",):
            return BoundV(v, obj)
        if isinstance(v, FuncV) and v.kind == "method":
            return BoundV(v, obj)
        return v

    def eval_call(self, e: ast.Call) -> Any:
        eng = self.eng
        if isinstance(e.func, ast.Name) and e.func.id == "super" and not e.args and "super" not in self.locals:
            if self.fn is None or self.fn.cls is None or not self.fn.node.args.args:
                raise OutsideSubset("super() outside a method")
            return SuperV(self.fn.cls, self.locals[self.fn.node.args.args[0].arg])
        f = self.eval(e.func)
        args: List[Any] = []
        for a in e.args:
            if isinstance(a, ast.Starred):
                args.extend(self.iterate(self.eval(a.value)))
            else:
                args.append(self.eval(a))
        kwargs: Dict[str, Any] = {}
        for k in e.keywords:
            if k.arg is None:
                d = self.eval(k.value)
                if not isinstance(d, dict):
                    raise OutsideSubset("** of non-dict in call")
                kwargs.update(d)
            else:
                kwargs[k.arg] = self.eval(k.value)
        if isinstance(f, FuncV) and hasattr(f, "closure"):
            fr = Frame(eng, f.rel, dict(f.closure), f)  # type: ignore[attr-defined]
            fr.bind_params(f.node, args, kwargs)
            try:
                fr.exec_block(f.node.body)
            except ReturnSignal as r:
                return r.value
            return None
        return eng.call(f, args, kwargs)


@dataclass(eq=False)
class SuperV:
    cls: Any
    self_value: Any


_MUTATORS = {"append", "extend", "add", "update", "discard", "remove", "pop", "setdefault", "clear", "insert",
             "sort", "reverse", "popitem"}


class GDict(dict):  # type: ignore[type-arg]
    _frozen_origin: Optional[str] = None


class GList(list):  # type: ignore[type-arg]
    _frozen_origin: Optional[str] = None


class GSet(set):  # type: ignore[type-arg]
    _frozen_origin: Optional[str] = None


class DictItems:
    def __init__(self, items: List[Tuple[Any, Any]]) -> None:
        self.items = items


def _hashable(x: Any) -> bool:
    try:
        hash(x)
        return True
    except TypeError:
        return False


def _native(h: Callable[..., Any]) -> Any:
    def w(eng: Engine, *a: Any, **k: Any) -> Any:
        return h(eng, *a, **k)
    w._pyvc_native = True  # type: ignore[attr-defined]
    return w


def Opaque_to_str() -> Any:
    return ""


def _load(t: ast.expr) -> ast.expr:
    import copy
    t2 = copy.copy(t)
    t2.ctx = ast.Load()  # type: ignore[attr-defined]
    return t2
