"""Proleptic-Gregorian calendar closed forms over the term layer (concrete ints fold, symbolic ints give LIA terms).

days = days since 1970-01-01.  Algorithms: days_from_civil / civil_from_days (H. Hinnant), ISO-8601 weeks.
All divisions are by positive constants (linear for the solver).  Cross-checked against Python `datetime` for
every day of years 1..9999 at start-up of the checks that use it (vc.sqlconf).
"""
from __future__ import annotations

from typing import Any, Tuple

from . import smt
from .smt import Add, And, Eq, FloorDiv, Ge, Gt, Ite, Le, Lt, Mod, Mul, Not, Or, Sub


def fdiv(a: Any, b: int) -> Any:
    return FloorDiv(a, b)


S = smt.share


_CIVIL: dict = {}   # days term -> (y, m, d) it was built from (valid dates only)


def days_from_civil(y: Any, m: Any, d: Any, valid: bool = False) -> Any:
    """valid=True: the caller has established that (y, m, d) is a real date; the result then remembers its
    fields so that civil_from_days of it is (y, m, d) by construction (round-trip lemma, validated exhaustively
    over years 1..9999 by selfcheck rather than re-proved by the solver in every query)."""
    z = _days_from_civil(y, m, d)
    if valid and smt.is_sym(z):
        _CIVIL[z.sx] = (y, m, d)
    return z


def _days_from_civil(y: Any, m: Any, d: Any) -> Any:
    y2 = S(Ite(Le(m, 2), Sub(y, 1), y))
    era = S(fdiv(y2, 400))
    yoe = S(Sub(y2, Mul(era, 400)))
    mp = S(Ite(Gt(m, 2), Sub(m, 3), Add(m, 9)))
    doy = S(Add(fdiv(Add(Mul(153, mp), 2), 5), Sub(d, 1)))
    doe = S(Add(Sub(Add(Mul(yoe, 365), fdiv(yoe, 4)), fdiv(yoe, 100)), doy))
    return S(Sub(Add(Mul(era, 146097), doe), 719468))


def civil_from_days(z: Any) -> Tuple[Any, Any, Any]:
    if smt.is_sym(z) and z.sx in _CIVIL:
        return _CIVIL[z.sx]
    z2 = S(Add(z, 719468))
    era = S(fdiv(z2, 146097))
    doe = S(Sub(z2, Mul(era, 146097)))
    yoe = S(fdiv(Sub(Add(Sub(doe, fdiv(doe, 1460)), fdiv(doe, 36524)), fdiv(doe, 146096)), 365))
    y = S(Add(yoe, Mul(era, 400)))
    doy = S(Sub(doe, Sub(Add(Mul(365, yoe), fdiv(yoe, 4)), fdiv(yoe, 100))))
    mp = S(fdiv(Add(Mul(5, doy), 2), 153))
    d = S(Add(Sub(doy, fdiv(Add(Mul(153, mp), 2), 5)), 1))
    m = S(Ite(Lt(mp, 10), Add(mp, 3), Sub(mp, 9)))
    y = S(Ite(Le(m, 2), Add(y, 1), y))
    return y, m, d


def is_leap(y: Any) -> Any:
    return And(Eq(Mod(y, 4), 0), Or(Not(Eq(Mod(y, 100), 0)), Eq(Mod(y, 400), 0)))


def days_in_year(y: Any) -> Any:
    return Ite(is_leap(y), 366, 365)


def days_in_month(y: Any, m: Any) -> Any:
    return S(Ite(Eq(m, 2), Ite(is_leap(y), 29, 28),
                 Ite(Or(Eq(m, 4), Eq(m, 6), Eq(m, 9), Eq(m, 11)), 30, 31)))


def valid_date(y: Any, m: Any, d: Any) -> Any:
    return And(Ge(m, 1), Le(m, 12), Ge(d, 1), Le(d, days_in_month(y, m)))


def day_of_year(z: Any) -> Any:
    y, _m, _d = civil_from_days(z)
    return S(Add(Sub(z, days_from_civil(y, 1, 1, True)), 1))


def iso_dow(z: Any) -> Any:
    """Monday = 1 .. Sunday = 7 (1970-01-01 was a Thursday)."""
    return S(Add(Mod(Add(z, 3), 7), 1))


def iso_year_week(z: Any) -> Tuple[Any, Any]:
    thursday = S(Add(Sub(z, Sub(iso_dow(z), 1)), 3))
    y, _m, _d = civil_from_days(thursday)
    week = S(Add(fdiv(Sub(thursday, days_from_civil(y, 1, 1, True)), 7), 1))
    return y, week


def iso_week1_monday(y: Any) -> Any:
    jan4 = days_from_civil(y, 1, 4, True)
    return S(Sub(jan4, Sub(iso_dow(jan4), 1)))


def iso_weeks_in_year(y: Any) -> Any:
    """52 or 53: number of ISO weeks of ISO year y."""
    return S(fdiv(Sub(iso_week1_monday(Add(y, 1)), iso_week1_monday(y)), 7))


def add_months(z: Any, n: Any) -> Any:
    """date + INTERVAL n MONTH with day clamping (DuckDB / SQL semantics)."""
    y, m, d = civil_from_days(z)
    tot = S(Add(Add(Mul(y, 12), Sub(m, 1)), n))
    y2 = S(fdiv(tot, 12))
    m2 = S(Add(Mod(tot, 12), 1))
    d2 = S(smt.Min(d, days_in_month(y2, m2)))
    return days_from_civil(y2, m2, d2, True)


def last_day(z: Any) -> Any:
    y, m, _d = civil_from_days(z)
    return days_from_civil(y, m, days_in_month(y, m), True)


def selfcheck(lo_year: int = 1, hi_year: int = 9999, step: int = 1) -> int:
    """Compare with datetime for every `step`-th day; returns number of days checked (raises on mismatch)."""
    import datetime
    d0 = datetime.date(lo_year, 1, 1)
    d1 = datetime.date(hi_year, 12, 31)
    epoch = datetime.date(1970, 1, 1)
    n = 0
    d = d0
    one = datetime.timedelta(days=step)
    while d <= d1:
        z = (d - epoch).days
        assert days_from_civil(d.year, d.month, d.day) == z, d
        assert civil_from_days(z) == (d.year, d.month, d.day), d
        iy, iw, idw = d.isocalendar()
        assert iso_dow(z) == idw and iso_year_week(z) == (iy, iw), d
        assert day_of_year(z) == d.timetuple().tm_yday, d
        n += 1
        try:
            d = d + one
        except OverflowError:
            break
    for y in range(lo_year, hi_year):
        assert iso_weeks_in_year(y) == datetime.date(y, 12, 28).isocalendar()[1], y
    return n
