"""Sequentialised interleavings of two calls on the REAL functions (no threads).

`interleave(run_a, run_b, rel, line)` executes run_a(); right after the k-th execution of the statement of source file
`rel` that contains `line` has completed (the next line / return event of the same frame) it executes run_b() to
completion on the same thread, then lets run_a() continue.  This is exactly the schedule "thread A is pre-empted
between two statements, thread B runs its whole call, thread A resumes" - a schedule a thread switch can produce
(CPython switches threads between bytecodes; a statement boundary is a bytecode boundary).  Implemented with
sys.settrace on the harness side; the code under test is unmodified.
"""
from __future__ import annotations

import ast
import sys
from typing import Any, Callable, Dict, Optional, Tuple

from . import core
from .pysrc import module_ast


def stmt_range(rel: str, line: int) -> Tuple[int, int]:
    """(first, last) line of the innermost simple statement of module `rel` containing `line`."""
    best: Optional[Tuple[int, int]] = None
    for n in ast.walk(module_ast(rel)):
        if isinstance(n, ast.stmt) and not isinstance(n, (ast.FunctionDef, ast.AsyncFunctionDef, ast.ClassDef, ast.If, ast.For,
                                                          ast.While, ast.With, ast.Try, ast.AsyncFor, ast.AsyncWith)):
            lo, hi = n.lineno, getattr(n, "end_lineno", n.lineno) or n.lineno
            if lo <= line <= hi and (best is None or hi - lo < best[1] - best[0]):
                best = (lo, hi)
    return best or (line, line)


def interleave(run_a: Callable[[], Any], run_b: Callable[[], Any], rel: str, line: int, occurrence: int = 1
               ) -> Dict[str, Any]:
    """Returns {'switched': bool, 'a': result-or-exception of run_a, 'b': ... of run_b}."""
    target = str((core.SRC / rel).resolve())
    lo, hi = stmt_range(rel, line)
    st: Dict[str, Any] = {"armed": None, "count": 0, "switched": False, "b": None}

    def switch() -> None:
        st["switched"] = True
        st["armed"] = None
        sys.settrace(None)
        try:
            st["b"] = ("ok", run_b())
        except BaseException as e:  # noqa: BLE001 - the other call's failure is its own business
            st["b"] = ("error", e)
        finally:
            sys.settrace(tracer)

    def local(frame: Any, event: str, arg: Any) -> Any:
        if st["switched"]:
            return None
        if st["armed"] is frame:
            if event in ("return", "exception") or (event == "line" and not lo <= frame.f_lineno <= hi):
                if event != "exception":
                    switch()
                else:
                    st["armed"] = None
                return None if st["switched"] else local
            return local
        if event == "line" and lo <= frame.f_lineno <= hi and st["armed"] is None:
            st["count"] += 1
            if st["count"] == occurrence:
                st["armed"] = frame
        return local

    def tracer(frame: Any, event: str, arg: Any) -> Any:
        if st["switched"]:
            return None
        try:
            fn = frame.f_code.co_filename
        except Exception:  # noqa: BLE001
            return None
        if fn != target:
            return None
        return local

    old = sys.gettrace()
    sys.settrace(tracer)
    try:
        try:
            a: Tuple[str, Any] = ("ok", run_a())
        except BaseException as e:  # noqa: BLE001
            a = ("error", e)
    finally:
        sys.settrace(old)
    return {"switched": st["switched"], "a": a, "b": st["b"], "statement": (lo, hi)}
