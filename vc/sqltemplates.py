"""SQL templates of the engine: extraction from the real source and the order-insensitivity contract (shared by C15 / C33).

Every byte of SQL that reaches DuckDB is produced from
  * string constants and f-string skeletons of the SQL-producing python files (`sql_source_files()`),
  * the statements of duckdb_transpiler/sql/*.sql,
  * SQL returned by small generator functions (called for real with opaque operands: `generated_fragments()`),
plus quoted identifiers / literals spliced into the holes.  This module re-reads all of them on every run and finds each
occurrence of an ORDER-SENSITIVE construct (`scan()`): a construct whose value may depend on the physical order of the
rows it ranges over.  The checks turn each occurrence into one obligation, keyed by file :: function :: construct
(+ ordinal inside the function) - never by line number.

Nothing here models the code: a fragment is the text of the source (holes kept as `{expr}`), a generated fragment is
the return value of the real function.
"""
from __future__ import annotations

import ast
import re
from dataclasses import dataclass, field
from pathlib import Path
from typing import Any, Dict, Iterator, List, Optional, Sequence, Set, Tuple

from . import core
from .pysrc import annotate_parents, enclosing_function, qualname_of

HOLE_L, HOLE_R = "⟦", "⟧"          # hole delimiters in skeletons (cannot occur in SQL source text)


# ----------------------------------------------------------------------------------------------------------------
# fragments
# ----------------------------------------------------------------------------------------------------------------
@dataclass
class Fragment:
    rel: str                     # file relative to src/vtlengine
    qualname: str                # enclosing function ('<module>' at top level; '<sql>' for .sql statements)
    lineno: int                  # for messages only, never part of an obligation id
    text: str                    # skeleton: constant text with holes as <HOLE_L>source-of-expression<HOLE_R>
    holes: List[ast.expr] = field(default_factory=list)
    kind: str = "const"          # const | fstring | concat | format | sqlfile | generated
    node: Optional[ast.AST] = None
    origin: str = ""             # generated: the call that produced the text

    @property
    def where(self) -> str:
        return f"{self.rel}:{self.qualname}"


def sql_source_files() -> List[str]:
    """Python files whose strings can become SQL text: the transpiler package, the viral-propagation SQL generator and
    every other module of the tree that talks to a DuckDB connection (found by `duckdb_call_sites`)."""
    out: Set[str] = set()
    for p in core.SRC.rglob("*.py"):
        rel = str(p.relative_to(core.SRC))
        if rel.startswith(("duckdb_transpiler/", "ViralPropagation/")):
            out.add(rel)
    for site in duckdb_call_sites():
        out.add(site.rel)
    return sorted(out)


_TREES: Dict[str, ast.Module] = {}


def tree_of(rel: str) -> ast.Module:
    """Parsed on first use in this process (= once per run; nothing is cached across runs)."""
    if rel not in _TREES:
        t = ast.parse((core.SRC / rel).read_text(), filename=rel)
        annotate_parents(t)
        _TREES[rel] = t
    return _TREES[rel]


def _is_docstring(node: ast.Constant) -> bool:
    par = getattr(node, "_parent", None)
    if not isinstance(par, ast.Expr):
        return False
    gp = getattr(par, "_parent", None)
    return isinstance(gp, (ast.FunctionDef, ast.AsyncFunctionDef, ast.ClassDef, ast.Module)) and gp.body and gp.body[0] is par


def _skeleton(node: ast.AST) -> Optional[Tuple[str, List[ast.expr], str]]:
    """(text, holes, kind) of a string-valued expression built from literals; None when it is not one."""
    if isinstance(node, ast.Constant) and isinstance(node.value, str):
        return node.value, [], "const"
    if isinstance(node, ast.JoinedStr):
        parts: List[str] = []
        holes: List[ast.expr] = []
        for v in node.values:
            if isinstance(v, ast.Constant):
                parts.append(str(v.value))
            elif isinstance(v, ast.FormattedValue):
                # a nested literal (f"{'x' if c else 'y'}") stays a hole: its alternatives are fragments of their own
                holes.append(v.value)
                parts.append(HOLE_L + ast.unparse(v.value) + HOLE_R)
        return "".join(parts), holes, "fstring"
    if isinstance(node, ast.BinOp) and isinstance(node.op, ast.Add):
        a, b = _skeleton(node.left), _skeleton(node.right)
        if a is None and b is None:
            return None
        text, holes = "", []
        for side, sk in ((node.left, a), (node.right, b)):
            if sk is None:
                holes.append(side)
                text += HOLE_L + ast.unparse(side) + HOLE_R
            else:
                text += sk[0]
                holes += sk[1]
        return text, holes, "concat"
    if isinstance(node, ast.Call) and isinstance(node.func, ast.Attribute) and node.func.attr == "format":
        base = _skeleton(node.func.value)
        if base is None:
            return None
        text, holes = base[0], list(base[1])
        kw = {k.arg: k.value for k in node.keywords if k.arg}
        auto = [0]

        def sub(m: "re.Match[str]") -> str:
            name = m.group(1)
            if name in kw:
                holes.append(kw[name])
                return HOLE_L + ast.unparse(kw[name]) + HOLE_R
            if name.isdigit() and int(name) < len(node.args):
                holes.append(node.args[int(name)])
                return HOLE_L + ast.unparse(node.args[int(name)]) + HOLE_R
            if name == "" and auto[0] < len(node.args):
                a = node.args[auto[0]]
                auto[0] += 1
                holes.append(a)
                return HOLE_L + ast.unparse(a) + HOLE_R
            return m.group(0)
        return re.sub(r"\{(\w*)\}", sub, text), holes, "format"
    return None


def python_fragments(rels: Optional[Sequence[str]] = None) -> List[Fragment]:
    """Every maximal literal-built string expression of the SQL source files (docstrings excluded)."""
    out: List[Fragment] = []
    for rel in (rels if rels is not None else sql_source_files()):
        tree = tree_of(rel)
        consumed: Set[int] = set()

        def visit(node: ast.AST) -> None:
            if id(node) in consumed:
                return
            sk = None
            if isinstance(node, (ast.JoinedStr, ast.BinOp, ast.Call)) or (
                    isinstance(node, ast.Constant) and isinstance(node.value, str) and not _is_docstring(node)):
                sk = _skeleton(node)
            if sk is not None:
                text, holes, kind = sk
                for sub in ast.walk(node):
                    consumed.add(id(sub))
                out.append(Fragment(rel, qualname_of(node), getattr(node, "lineno", 0), text, holes, kind, node))
                # literals nested inside holes (conditional pieces) are fragments of their own
                for h in holes:
                    for sub in ast.walk(h):
                        consumed.discard(id(sub))
                    visit_children(h, include_self=True)
                return
            visit_children(node)

        def visit_children(node: ast.AST, include_self: bool = False) -> None:
            if include_self:
                visit(node)
                return
            for ch in ast.iter_child_nodes(node):
                visit(ch)

        visit(tree)
    return out


def sql_file_fragments() -> List[Fragment]:
    out: List[Fragment] = []
    base = core.SRC / "duckdb_transpiler" / "sql"
    for p in sorted(base.rglob("*.sql")):
        rel = str(p.relative_to(core.SRC))
        txt = p.read_text()
        # statements are separated by ';' at end of line (macro bodies contain no top-level ';')
        pos = 0
        for m in re.finditer(r";[ \t]*(?:--[^\n]*)?\n|\Z", txt):
            stmt = txt[pos:m.start()]
            line = txt[:pos].count("\n") + 1 + (len(stmt) - len(stmt.lstrip("\n")))
            pos = m.end()
            body = "\n".join(ln for ln in stmt.splitlines() if not ln.strip().startswith("--"))
            if not body.strip():
                continue
            mm = re.search(r"(?is)\bCREATE\s+(?:OR\s+REPLACE\s+)?(?:MACRO|FUNCTION|TYPE)\s+(\w+)", body)
            out.append(Fragment(rel, mm.group(1) if mm else "<sql>", line, body, [], "sqlfile"))
            if m.end() >= len(txt):
                break
    return out


# ----------------------------------------------------------------------------------------------------------------
# DuckDB call sites (where SQL text is handed to the engine)
# ----------------------------------------------------------------------------------------------------------------
@dataclass
class CallSite:
    rel: str
    qualname: str
    lineno: int
    method: str
    node: ast.Call
    arg: Optional[ast.expr]


DB_SQL_METHODS = ("execute", "sql", "executemany", "query")


def duckdb_call_sites() -> List[CallSite]:
    """`<conn-like>.execute/sql/query/executemany(<text>, ...)` and `duckdb.sql/query/execute(...)` in the whole tree."""
    out: List[CallSite] = []
    for p in sorted(core.SRC.rglob("*.py")):
        rel = str(p.relative_to(core.SRC))
        src = p.read_text()
        if not any(f".{m}(" in src for m in DB_SQL_METHODS):
            continue
        tree = tree_of(rel)
        for n in ast.walk(tree):
            if isinstance(n, ast.Call) and isinstance(n.func, ast.Attribute) and n.func.attr in DB_SQL_METHODS:
                recv = ast.unparse(n.func.value)
                low = recv.lower()
                if "conn" in low or low in ("duckdb", "con", "cursor", "cur", "db") or low.endswith((".conn", ".connection")):
                    out.append(CallSite(rel, qualname_of(n), n.lineno, n.func.attr, n, n.args[0] if n.args else None))
    return out


# ----------------------------------------------------------------------------------------------------------------
# order-sensitive constructs
# ----------------------------------------------------------------------------------------------------------------
# window functions whose VALUE depends on the order of the rows of the partition
RANKING = {"ROW_NUMBER", "RANK", "DENSE_RANK", "NTILE", "PERCENT_RANK", "CUME_DIST"}
POSITIONAL = {"LAG", "LEAD", "FIRST_VALUE", "LAST_VALUE", "NTH_VALUE", "FIRST", "LAST"}
# aggregates whose value depends on the order in which the rows of the group arrive
ORDERED_AGG = {"LIST", "ARRAY_AGG", "STRING_AGG", "GROUP_CONCAT", "LISTAGG", "FIRST", "LAST", "ANY_VALUE", "ARBITRARY",
               "ARG_MIN", "ARG_MAX", "MIN_BY", "MAX_BY", "ARGMIN", "ARGMAX", "HISTOGRAM"}
# plain aggregates: order-insensitive as aggregates / over a whole partition, sensitive over a ROWS frame
PLAIN_AGG = {"SUM", "AVG", "MIN", "MAX", "COUNT", "MEDIAN", "STDDEV_POP", "STDDEV_SAMP", "VAR_POP", "VAR_SAMP", "BOOL_AND",
             "BOOL_OR", "PRODUCT", "BIT_AND", "BIT_OR", "BIT_XOR", "MODE", "QUANTILE", "QUANTILE_CONT", "QUANTILE_DISC",
             "FSUM", "KAHAN_SUM", "ENTROPY", "KURTOSIS", "SKEWNESS", "COVAR_POP", "COVAR_SAMP", "CORR", "REGR_SLOPE"}
NONDET_FUNCS = {"RANDOM", "UUID", "GEN_RANDOM_UUID", "SETSEED", "NEXTVAL", "CURRVAL", "NOW", "TODAY", "CURRENT_TIMESTAMP",
                "GET_CURRENT_TIMESTAMP", "GET_CURRENT_TIME", "TRANSACTION_TIMESTAMP", "TXID_CURRENT", "CURRENT_TIME",
                "CURRENT_LOCALTIMESTAMP", "CURRENT_LOCALTIME"}


@dataclass
class Site:
    frag: Fragment
    construct: str        # window:<FUNC> | window:<hole> | agg:<FUNC> | fold:list_reduce | limit | distinct-on | rowid | sample
    #                       | nondet:<FUNC> | holed-function | window-function-template:<FUNC>
    start: int            # offset in frag.text (messages only)
    func: str = ""        # function name (upper) or '' when it is a hole
    args: str = ""        # argument text of the function
    window: Optional[str] = None     # text between the parentheses of OVER ( ... ); None: no OVER
    detail: str = ""
    ordinal: int = 0      # k-th site of this construct inside (file, function) - assigned by scan()

    @property
    def key(self) -> str:
        tail = f"#{self.ordinal}" if self.ordinal else ""
        return f"template::{self.frag.rel}::{self.frag.qualname}::{self.construct}{tail}"

    def snippet(self, width: int = 110) -> str:
        t = self.frag.text
        a = max(0, self.start - 10)
        return re.sub(r"\s+", " ", t[a:a + width]).replace(HOLE_L, "{").replace(HOLE_R, "}")


def _match_paren(text: str, i: int) -> int:
    """index of the parenthesis closing the one at text[i] (holes are opaque); -1 when unbalanced in this fragment."""
    depth, n, j = 0, len(text), i
    in_str = False
    while j < n:
        c = text[j]
        if c == HOLE_L:
            k = text.find(HOLE_R, j)
            j = (k if k >= 0 else n - 1) + 1
            continue
        if c == "'":
            in_str = not in_str
        elif not in_str:
            if c == "(":
                depth += 1
            elif c == ")":
                depth -= 1
                if depth == 0:
                    return j
        j += 1
    return -1


def _match_paren_back(text: str, i: int) -> int:
    """index of the parenthesis opening the one that closes at text[i]."""
    depth, j = 0, i
    while j >= 0:
        c = text[j]
        if c == HOLE_R:
            k = text.rfind(HOLE_L, 0, j)
            j = (k if k >= 0 else 0) - 1
            continue
        if c == ")":
            depth += 1
        elif c == "(":
            depth -= 1
            if depth == 0:
                return j
        j -= 1
    return -1


_SQLISH = re.compile(r"(?i)\b(SELECT|FROM|WHERE|GROUP BY|ORDER BY|PARTITION BY|OVER|QUALIFY|JOIN|UNION|INSERT|CREATE|COPY|"
                     r"CASE|WHEN|CAST|COALESCE|LIMIT|HAVING|list_reduce|UPDATE|DROP|SET)\b")
_CALL = re.compile(r"(?i)(?<![\w.\"'])([A-Za-z_][A-Za-z_0-9]*)\s*\(")


def looks_like_sql(text: str) -> bool:
    return bool(_SQLISH.search(text))


def scan_text(frag: Fragment) -> List[Site]:
    """All order-sensitive constructs of one fragment (syntactic; classification happens in the checks)."""
    t = frag.text
    sites: List[Site] = []
    taken: Set[int] = set()         # offsets of function names already reported as window functions

    # --- window functions: <func>(<args>) OVER (<window>) | OVER <hole> | OVER <name>
    for m in re.finditer(r"(?i)\bOVER\b", t):
        j = m.start() - 1
        while j >= 0 and t[j].isspace():
            j -= 1
        func, args, fstart = "", "", m.start()
        # optional FILTER (...) / IGNORE NULLS between the call and OVER
        back = t[:j + 1]
        mm = re.search(r"(?i)\)\s*(?:IGNORE\s+NULLS|RESPECT\s+NULLS)$", back)
        if mm:
            j = mm.start()
        if j >= 0 and t[j] == ")":
            o = _match_paren_back(t, j)
            if o >= 0:
                args = t[o + 1:j]
                k = o - 1
                while k >= 0 and t[k].isspace():
                    k -= 1
                e = k + 1
                while k >= 0 and (t[k].isalnum() or t[k] == "_"):
                    k -= 1
                func = t[k + 1:e]
                fstart = k + 1
                if k >= 0 and t[k] == HOLE_R:        # name glued to a hole: ARG_{op}(
                    hk = t.rfind(HOLE_L, 0, k)
                    k2 = hk - 1
                    while k2 >= 0 and (t[k2].isalnum() or t[k2] == "_"):
                        k2 -= 1
                    func = t[k2 + 1:e]
                    fstart = k2 + 1
        elif j >= 0 and t[j] == HOLE_R:
            hk = t.rfind(HOLE_L, 0, j)
            func = t[hk:j + 1]
            fstart = hk
        else:
            continue            # the word OVER in prose
        k = m.end()
        while k < len(t) and t[k].isspace():
            k += 1
        window: Optional[str]
        if k < len(t) and t[k] == "(":
            c = _match_paren(t, k)
            window = t[k + 1:c] if c >= 0 else t[k + 1:]
        elif k < len(t) and t[k] == HOLE_L:
            c = t.find(HOLE_R, k)
            window = t[k:c + 1]
        else:
            mm2 = re.match(r"\w+", t[k:])
            if not mm2:
                continue
            window = "<named:" + mm2.group(0) + ">"
        name = func.upper() if HOLE_L not in func else func
        cons = f"window:{name}" if HOLE_L not in func else ("window:" + re.sub(re.escape(HOLE_L) + ".*?" + re.escape(HOLE_R), "{}", func))
        sites.append(Site(frag, cons, fstart, name if HOLE_L not in func else "", args, window))
        taken.add(fstart)

    # --- calls: ordered aggregates, folds, nondeterministic functions, window-function templates without OVER
    for m in _CALL.finditer(t):
        name = m.group(1).upper()
        if m.start(1) in taken:
            continue
        if name in ORDERED_AGG or name in POSITIONAL or name in RANKING:
            c = _match_paren(t, m.end() - 1)
            args = t[m.end():c] if c >= 0 else t[m.end():]
            if name in ORDERED_AGG:
                sites.append(Site(frag, f"agg:{name}", m.start(1), name, args))
            elif name in POSITIONAL or name in RANKING:
                sites.append(Site(frag, f"window-function-template:{name}", m.start(1), name, args))
        elif name == "LIST_REDUCE" or name == "LIST_AGGREGATE" or name == "LIST_AGGR" or name == "ARRAY_REDUCE":
            c = _match_paren(t, m.end() - 1)
            sites.append(Site(frag, "fold:" + name.lower(), m.start(1), name, t[m.end():c] if c >= 0 else t[m.end():]))
        elif name in NONDET_FUNCS:
            sites.append(Site(frag, f"nondet:{name}", m.start(1), name))
    # function name completed by a hole:  ARG_{op}( ... )  /  {op}( ... )
    for m in re.finditer(r"([A-Za-z_][A-Za-z_0-9]*)?" + re.escape(HOLE_L) + r"([^" + HOLE_R + r"]*)" + re.escape(HOLE_R) + r"(\w*)\(", t):
        if m.start() in taken or (m.group(1) and m.start() + len(m.group(1)) in taken):
            continue
        c = _match_paren(t, m.end() - 1)
        sites.append(Site(frag, "holed-function:" + (m.group(1) or "") + "{}" + (m.group(3) or ""), m.start(),
                          "", t[m.end():c] if c >= 0 else t[m.end():], detail=m.group(2)))
    # --- keywords
    for m in re.finditer(r"(?i)\bLIMIT\s+(\d+|" + re.escape(HOLE_L) + r"[^" + HOLE_R + r"]*" + re.escape(HOLE_R) + r"|ALL\b)", t):
        sites.append(Site(frag, "limit", m.start(), "LIMIT", m.group(1)))
    for m in re.finditer(r"(?i)\bDISTINCT\s+ON\b", t):
        sites.append(Site(frag, "distinct-on", m.start(), "DISTINCT ON"))
    for m in re.finditer(r"(?i)(?<![\w\"])rowid\b(?!\")", t):
        if looks_like_sql(t):
            sites.append(Site(frag, "rowid", m.start(), "ROWID"))
    for m in re.finditer(r"(?i)\b(USING\s+SAMPLE|TABLESAMPLE)\b", t):
        sites.append(Site(frag, "sample", m.start(), "SAMPLE"))
    for m in re.finditer(r"\b(CURRENT_DATE|CURRENT_TIMESTAMP|CURRENT_TIME|LOCALTIMESTAMP)\b(?!\s*\()", t):
        sites.append(Site(frag, f"nondet:{m.group(1).upper()}", m.start(), m.group(1).upper()))
    for m in re.finditer(r"(?i)\bOFFSET\s+\d+", t):
        if looks_like_sql(t):
            sites.append(Site(frag, "offset", m.start(), "OFFSET"))
    # list(...) / list(...) OVER (...) that is the operand of a fold belongs to the fold's obligation
    folds = [s for s in sites if s.construct.startswith("fold:")]
    keep: List[Site] = []
    for s in sites:
        host = next((f for f in folds if f is not s and s.func in ("LIST", "ARRAY_AGG") and
                     f.start < s.start <= f.start + len(f.func) + 1 + len(f.args)), None)
        if host is not None:
            host.detail = (host.detail + " " if host.detail else "") + f"operand={s.construct}" + \
                (f" OVER ({s.window})" if s.window is not None else "")
            host.window = s.window if s.window is not None else host.window
            continue
        keep.append(s)
    return keep


def scan(frags: Sequence[Fragment]) -> List[Site]:
    """Sites of all fragments, with stable ordinals: k-th occurrence of the construct inside (file, function), in
    source order of the fragments and textual order inside a fragment."""
    sites: List[Site] = []
    for f in frags:
        sites += scan_text(f)
    count: Dict[Tuple[str, str, str], int] = {}
    total: Dict[Tuple[str, str, str], int] = {}
    for s in sites:
        k = (s.frag.rel, s.frag.qualname, s.construct)
        total[k] = total.get(k, 0) + 1
    for s in sites:
        k = (s.frag.rel, s.frag.qualname, s.construct)
        count[k] = count.get(k, 0) + 1
        s.ordinal = count[k] if total[k] > 1 else 0
    return sites


# ----------------------------------------------------------------------------------------------------------------
# dataflow inside the generating function: what text can a hole hold, which columns does a key list denote
# ----------------------------------------------------------------------------------------------------------------
class FnCtx:
    """Definitions visible at a node: assignments of the enclosing function(s) (closures look outwards), appends."""

    def __init__(self, rel: str, node: Optional[ast.AST]) -> None:
        self.rel = rel
        self.fns: List[ast.AST] = []
        cur = node
        while cur is not None:
            if isinstance(cur, (ast.FunctionDef, ast.AsyncFunctionDef, ast.Lambda)):
                self.fns.append(cur)
            cur = getattr(cur, "_parent", None)
        self.assign: Dict[str, List[ast.expr]] = {}
        self.unpack: Dict[str, List[Tuple[ast.expr, int]]] = {}      # name -> (rhs, position) of tuple unpacking
        self.grow: Dict[str, List[ast.expr]] = {}                    # name -> appended / extended expressions
        self.loopvar: Dict[str, List[ast.expr]] = {}                 # for-target name -> iterable
        self.params: Dict[str, Tuple[ast.AST, int]] = {}
        for fn in self.fns:
            if isinstance(fn, ast.Lambda):
                continue
            a = fn.args  # type: ignore[attr-defined]
            for i, p in enumerate(a.posonlyargs + a.args + a.kwonlyargs):
                self.params.setdefault(p.arg, (fn, i))
            for n in ast.walk(fn):
                if isinstance(n, ast.Assign):
                    for t in n.targets:
                        self._bind(t, n.value)
                elif isinstance(n, ast.AnnAssign) and n.value is not None:
                    self._bind(n.target, n.value)
                elif isinstance(n, ast.AugAssign) and isinstance(n.target, ast.Name):
                    self.grow.setdefault(n.target.id, []).append(n.value)
                elif isinstance(n, (ast.For, ast.comprehension)):
                    tgt = n.target
                    if isinstance(tgt, ast.Name):
                        self.loopvar.setdefault(tgt.id, []).append(n.iter)
                    elif isinstance(tgt, ast.Tuple):
                        for k, e in enumerate(tgt.elts):
                            if isinstance(e, ast.Name):
                                self.unpack.setdefault(e.id, []).append((ast.Subscript(value=n.iter, slice=ast.Constant("*each*")), k))
                elif isinstance(n, ast.Call) and isinstance(n.func, ast.Attribute) and isinstance(n.func.value, ast.Name) \
                        and n.func.attr in ("append", "extend", "insert", "add", "update") and n.args:
                    self.grow.setdefault(n.func.value.id, []).append(n.args[-1])

    def _bind(self, t: ast.expr, v: ast.expr) -> None:
        if isinstance(t, ast.Name):
            self.assign.setdefault(t.id, []).append(v)
        elif isinstance(t, (ast.Tuple, ast.List)):
            for k, e in enumerate(t.elts):
                if isinstance(e, ast.Name):
                    self.unpack.setdefault(e.id, []).append((v, k))

    @property
    def fn_name(self) -> str:
        for f in self.fns:
            if isinstance(f, (ast.FunctionDef, ast.AsyncFunctionDef)):
                return f.name
        return "<module>"


def module_constant(rel: str, name: str) -> Optional[ast.expr]:
    for st in tree_of(rel).body:
        if isinstance(st, ast.Assign) and len(st.targets) == 1 and isinstance(st.targets[0], ast.Name) \
                and st.targets[0].id == name:
            return st.value
        if isinstance(st, ast.AnnAssign) and isinstance(st.target, ast.Name) and st.target.id == name and st.value is not None:
            return st.value
    return None


def call_sites_of(fname: str, rels: Optional[Sequence[str]] = None) -> List[Tuple[str, ast.Call]]:
    """Calls `fname(...)`, `x.fname(...)` in the SQL source files."""
    out = []
    for rel in (rels if rels is not None else sql_source_files()):
        for n in ast.walk(tree_of(rel)):
            if isinstance(n, ast.Call) and ((isinstance(n.func, ast.Name) and n.func.id == fname) or
                                            (isinstance(n.func, ast.Attribute) and n.func.attr == fname)):
                out.append((rel, n))
    return out


def _call_arg(call: ast.Call, fn: ast.AST, index: int, name: str) -> Optional[ast.expr]:
    """Actual argument for parameter (index, name) of fn; methods called as obj.m(...) skip `self`."""
    for k in call.keywords:
        if k.arg == name:
            return k.value
    a = fn.args  # type: ignore[attr-defined]
    params = [p.arg for p in a.posonlyargs + a.args]
    off = 1 if params and params[0] in ("self", "cls") and isinstance(call.func, ast.Attribute) else 0
    i = index - off
    if 0 <= i < len(call.args) and not any(isinstance(x, ast.Starred) for x in call.args[: i + 1]):
        return call.args[i]
    return None


MAX_ALTS = 64


def text_alternatives(expr: ast.expr, ctx: FnCtx, depth: int = 0, seen: Tuple[str, ...] = ()) -> List[str]:
    """Skeleton texts the string-valued expression can evaluate to (holes for what is not a literal).  Follows local
    single/multiple assignments, conditional expressions, `or`, parameters (to all call sites) up to a depth."""
    if depth > 6:
        return [HOLE_L + ast.unparse(expr) + HOLE_R]
    sk = _skeleton(expr)
    if sk is not None:
        text, holes, _k = sk
        alts = [text]
        for h in holes:
            src = HOLE_L + ast.unparse(h) + HOLE_R
            if not any(src in a for a in alts):
                continue
            sub = text_alternatives(h, ctx, depth + 1, seen)
            if sub == [src]:
                continue
            alts = [a.replace(src, s, 1) for a in alts for s in sub][:MAX_ALTS]
        return alts
    if isinstance(expr, ast.IfExp):
        yes = text_alternatives(expr.body, ctx, depth + 1, seen)
        no = text_alternatives(expr.orelse, ctx, depth + 1, seen)
        if isinstance(expr.test, ast.Name):
            # `X if L else ''`: on the else branch the collection L is empty - remembered for the key analysis
            no = [a + HOLE_L + "@empty " + expr.test.id + HOLE_R for a in no]
        return (yes + no)[:MAX_ALTS]
    if isinstance(expr, ast.BoolOp) and isinstance(expr.op, ast.Or):
        out: List[str] = []
        for v in expr.values:
            out += text_alternatives(v, ctx, depth + 1, seen)
        return out[:MAX_ALTS]
    if isinstance(expr, ast.Name) and expr.id not in seen:
        srcs = ctx.assign.get(expr.id, [])
        if srcs and expr.id not in ctx.grow and expr.id not in ctx.unpack:
            out = []
            for s in srcs:
                out += text_alternatives(s, ctx, depth + 1, seen + (expr.id,))
            return out[:MAX_ALTS]
        if not srcs and expr.id in ctx.params and expr.id not in ctx.unpack and expr.id not in ctx.loopvar:
            fn, idx = ctx.params[expr.id]
            out = []
            for rel, call in call_sites_of(fn.name):  # type: ignore[attr-defined]
                arg = _call_arg(call, fn, idx, expr.id)
                if arg is None:
                    out.append(HOLE_L + ast.unparse(expr) + HOLE_R)
                    continue
                out += text_alternatives(arg, FnCtx(rel, call), depth + 2, ())      # caller's namespace: fresh `seen`
            if out:
                return list(dict.fromkeys(out))[:MAX_ALTS]
    return [HOLE_L + ast.unparse(expr) + HOLE_R]


# abstract column sets ------------------------------------------------------------------------------------------
Atom = Tuple[str, str, Tuple[str, ...]]     # ('ids', dataset-expr, minus names) | ('name', expr, ()) | ('lit', text, ()) | ('unknown', src, ())


def _ids_source(e: ast.expr) -> Optional[Tuple[str, bool]]:
    """(dataset expression, elements-are-components) when e is `<ds>.get_identifiers_names()` / `.get_identifiers()`."""
    if isinstance(e, ast.Call) and isinstance(e.func, ast.Attribute) and not e.args:
        if e.func.attr == "get_identifiers_names":
            return ast.unparse(e.func.value), False
        if e.func.attr == "get_identifiers":
            return ast.unparse(e.func.value), True
    return None


def _elt_is_var(elt: ast.expr, var: str, comps: bool) -> bool:
    """elt denotes the (quoted) name of loop variable `var`."""
    if isinstance(elt, ast.Call) and isinstance(elt.func, ast.Name) and elt.func.id in ("quote_name",) and len(elt.args) == 1:
        return _elt_is_var(elt.args[0], var, comps)
    if isinstance(elt, ast.JoinedStr):
        vals = [v for v in elt.values if isinstance(v, ast.FormattedValue)]
        lits = "".join(str(v.value) for v in elt.values if isinstance(v, ast.Constant))
        return len(vals) == 1 and lits.replace('"', "") == "" and _elt_is_var(vals[0].value, var, comps)
    if comps:
        return isinstance(elt, ast.Attribute) and elt.attr == "name" and isinstance(elt.value, ast.Name) and elt.value.id == var
    return isinstance(elt, ast.Name) and elt.id == var


def colsets(expr: ast.expr, ctx: FnCtx, depth: int = 0, seen: Tuple[str, ...] = ()) -> List[List[Atom]]:
    """Alternatives of the set of columns the expression (a key list, a joined string, one quoted name) denotes."""
    unk: List[List[Atom]] = [[("unknown", ast.unparse(expr), ())]]
    if depth > 8:
        return unk
    ids = _ids_source(expr)
    if ids is not None:
        return [[("ids", ids[0], ())]]
    if isinstance(expr, ast.Call):
        f = expr.func
        if isinstance(f, ast.Name) and f.id == "quote_name" and len(expr.args) == 1:
            return [[("name", ast.unparse(expr.args[0]), ())]]
        if isinstance(f, ast.Attribute) and f.attr == "join" and len(expr.args) == 1:
            return colsets(expr.args[0], ctx, depth + 1, seen)
        if isinstance(f, ast.Name) and f.id in ("list", "tuple", "sorted", "quote_identifiers") and len(expr.args) == 1:
            return colsets(expr.args[0], ctx, depth + 1, seen)
    if isinstance(expr, ast.JoinedStr):
        vals = [v for v in expr.values if isinstance(v, ast.FormattedValue)]
        lits = "".join(str(v.value) for v in expr.values if isinstance(v, ast.Constant))
        if len(vals) == 1 and lits.replace('"', "") == "":
            return [[("name", ast.unparse(vals[0].value), ())]]
    if isinstance(expr, ast.Constant) and isinstance(expr.value, str):
        return [[("lit", expr.value, ())]]
    if isinstance(expr, (ast.List, ast.Tuple)):
        alts: List[List[Atom]] = [[]]
        for e in expr.elts:
            sub = colsets(e.value if isinstance(e, ast.Starred) else e, ctx, depth + 1, seen)
            alts = [a + s for a in alts for s in sub][:MAX_ALTS]
        return alts
    if isinstance(expr, (ast.ListComp, ast.GeneratorExp)) and len(expr.generators) == 1:
        g = expr.generators[0]
        if isinstance(g.target, ast.Name):
            var = g.target.id
            base = colsets(g.iter, ctx, depth + 1, seen)
            src_ids = _ids_source(g.iter)
            comps = bool(src_ids and src_ids[1])
            if not _elt_is_var(expr.elt, var, comps) and not (comps is False and _elt_is_var(expr.elt, var, True)):
                return unk
            minus: List[str] = []
            for c in g.ifs:
                ok = False
                if isinstance(c, ast.Compare) and len(c.ops) == 1 and isinstance(c.ops[0], ast.NotEq):
                    l, r = c.left, c.comparators[0]
                    if _elt_is_var(l, var, comps) or _elt_is_var(l, var, True):
                        minus.append(ast.unparse(r))
                        ok = True
                if not ok:
                    return unk          # a filter the analysis does not understand may drop key columns
            out = []
            for alt in base:
                na: List[Atom] = []
                for kind, src, m in alt:
                    na.append((kind, src, tuple(m) + tuple(minus)) if kind == "ids" else
                              (("unknown", src, ()) if minus else (kind, src, m)))
                out.append(na)
            return out
    if isinstance(expr, ast.IfExp):
        return (colsets(expr.body, ctx, depth + 1, seen) + colsets(expr.orelse, ctx, depth + 1, seen))[:MAX_ALTS]
    if isinstance(expr, ast.Name) and expr.id not in seen:
        srcs = ctx.assign.get(expr.id, [])
        if srcs and expr.id not in ctx.unpack:
            out2: List[List[Atom]] = []
            for s in srcs:
                out2 += colsets(s, ctx, depth + 1, seen + (expr.id,))
            # appended elements only ADD key columns: a superset still covers what the base covers
            return out2[:MAX_ALTS]
    return unk


@dataclass
class WindowKeys:
    text: str                       # expanded window text of this alternative
    partition: List[str]            # key items as written (literal column text or hole source)
    order: List[str]
    frame: str
    atoms: List[List[Atom]]         # alternatives of the union of column sets of all key items
    order_items: List[str] = field(default_factory=list)


def _split_top(s: str) -> List[str]:
    out, depth, cur, i = [], 0, "", 0
    while i < len(s):
        c = s[i]
        if c == HOLE_L:
            k = s.find(HOLE_R, i)
            cur += s[i:k + 1]
            i = k + 1
            continue
        if c == "(":
            depth += 1
        elif c == ")":
            depth -= 1
        if c == "," and depth == 0:
            out.append(cur.strip())
            cur = ""
        else:
            cur += c
        i += 1
    if cur.strip():
        out.append(cur.strip())
    return out


def window_alternatives(site: Site) -> List[WindowKeys]:
    """Expanded alternatives of the window specification of a site, with the columns its keys denote."""
    ctx = FnCtx(site.frag.rel, site.frag.node)
    w = site.window or ""
    alts = [w]
    for m in re.finditer(re.escape(HOLE_L) + r"([^" + HOLE_R + r"]*)" + re.escape(HOLE_R), w):
        src = m.group(0)
        try:
            e = ast.parse(m.group(1), mode="eval").body
        except SyntaxError:
            continue
        sub = text_alternatives(e, ctx)
        if sub != [src]:
            alts = [a.replace(src, s, 1) for a in alts for s in sub][:MAX_ALTS]
    out: List[WindowKeys] = []
    for a in dict.fromkeys(alts):
        empties = re.findall(re.escape(HOLE_L) + r"@empty (\w+)" + re.escape(HOLE_R), a)
        t = re.sub(re.escape(HOLE_L) + r"@empty \w+" + re.escape(HOLE_R), "", a).strip()
        if t.startswith("(") and _match_paren(t, 0) == len(t) - 1:
            t = t[1:-1].strip()
        mp = re.search(r"(?is)\bPARTITION\s+BY\b(.*?)(?=\bORDER\s+BY\b|\bROWS\b|\bRANGE\b|\bGROUPS\b|$)", t)
        mo = re.search(r"(?is)\bORDER\s+BY\b(.*?)(?=\bROWS\b|\bRANGE\b|\bGROUPS\b|$)", t)
        mf = re.search(r"(?is)\b(ROWS|RANGE|GROUPS)\b.*$", t)
        part = _split_top(mp.group(1)) if mp else []
        order = _split_top(mo.group(1)) if mo else []
        unions: List[List[Atom]] = [[]]
        for item in part + order:
            core_item = re.sub(r"(?i)\s+(ASC|DESC)(\s+NULLS\s+(FIRST|LAST))?\s*$", "", item).strip()
            hm = re.fullmatch(re.escape(HOLE_L) + r"([^" + HOLE_R + r"]*)" + re.escape(HOLE_R), core_item)
            if hm:
                try:
                    sub2 = colsets(ast.parse(hm.group(1), mode="eval").body, ctx)
                except SyntaxError:
                    sub2 = [[("unknown", hm.group(1), ())]]
            elif HOLE_L in core_item:
                sub2 = [[("unknown", core_item, ())]]
            else:
                sub2 = [[("lit", core_item, ())]]
            unions = [u + s for u in unions for s in sub2][:MAX_ALTS]
        for name in empties:
            # the collection `name` is EMPTY on this alternative: the columns it stands for are an empty set, so they
            # are (vacuously) among the keys
            sub3 = colsets(ast.Name(id=name, ctx=ast.Load()), ctx)
            unions = [u + s for u in unions for s in sub3][:MAX_ALTS]
        out.append(WindowKeys(t, part, order, mf.group(0).strip() if mf else "", unions, order))
    return out


def covers_identifiers(atoms: List[Atom]) -> Optional[str]:
    """Dataset expression D such that the atoms contain every identifier of D; None when not shown."""
    names = {src for kind, src, _ in atoms if kind == "name"}
    for kind, src, minus in atoms:
        if kind == "ids" and all(m in names for m in minus):
            return src
    return None


# ----------------------------------------------------------------------------------------------------------------
# SQL returned by the real small generator functions (called with opaque operands)
# ----------------------------------------------------------------------------------------------------------------
PH = ['"a"', '"b"', '"c"', '"d"']


def vtl_tokens() -> Dict[str, str]:
    """NAME -> token text of AST/Grammar/tokens.py (string constants of the module, read from the source)."""
    out: Dict[str, str] = {}
    for st in tree_of("AST/Grammar/tokens.py").body:
        if isinstance(st, ast.Assign) and len(st.targets) == 1 and isinstance(st.targets[0], ast.Name) \
                and isinstance(st.value, ast.Constant) and isinstance(st.value.value, str):
            out[st.targets[0].id] = st.value.value
    return out


def sample_rules() -> List[Tuple[str, Any]]:
    """Viral propagation rules used to instantiate the generators: every aggregate function of the real _AGG_GROUP
    table and enumerated rules of the clause shapes the generator distinguishes (binary / unary / null / default)."""
    core.boot(full=True)
    import importlib
    vp = importlib.import_module("vtlengine.ViralPropagation")
    vps = importlib.import_module("vtlengine.ViralPropagation.sql")
    R = vp.ViralPropagationRule
    rules: List[Tuple[str, Any]] = []
    for fn in getattr(vps, "_AGG_GROUP", {}):
        rules.append((f"aggregate {fn}", R(name="r", signature_type="variable", target="At_1", aggregate_function=fn)))
    rules += [
        ("enumerated: when A and B then A; else D",
         R(name="r", signature_type="variable", target="At_1", enumerated_clauses=[{"values": ["A", "B"], "result": "A"}], default_value="D")),
        ("enumerated: when C and N then C; when C then C; else N",
         R(name="r", signature_type="variable", target="At_1", enumerated_clauses=[{"values": ["C", "N"], "result": "C"},
                                                                                   {"values": ["C"], "result": "C"}], default_value="N")),
        ("enumerated: when A then B; else null",
         R(name="r", signature_type="variable", target="At_1", enumerated_clauses=[{"values": ["A"], "result": "B"}], default_value=None)),
        ("enumerated: else D", R(name="r", signature_type="variable", target="At_1", enumerated_clauses=[], default_value="D")),
    ]
    return rules


def generated_fragments() -> Tuple[List[Fragment], List[str]]:
    """(fragments, problems).  Each fragment is the text a real generator function returns for placeholder operands."""
    core.boot(full=True)
    import importlib
    out: List[Fragment] = []
    problems: List[str] = []

    def add(rel: str, qual: str, text: Any, origin: str) -> None:
        if isinstance(text, str) and text:
            out.append(Fragment(rel, qual, 0, text, [], "generated", origin=origin))

    # --- operator registry: every registered template, every typed override, the fallback for every VTL token
    rel = "duckdb_transpiler/Transpiler/operators.py"
    try:
        ops = importlib.import_module("vtlengine.duckdb_transpiler.Transpiler.operators")
        reg = ops.registry
        for (tok, arity), op in list(reg._operators.items()):
            for n in ([arity] if arity else [1, 2, 3, 4]):
                try:
                    add(rel, "_create_default_registry", op.sql(*PH[:n]), f"registry[{tok!r}, arity {arity}].sql({n} operands)")
                except Exception:  # noqa: BLE001 - a template that needs another arity
                    pass
        for (tok, dt), op in list(reg._typed_overrides.items()):
            for n in (1, 2):
                try:
                    add(rel, "_create_default_registry", op.sql(*PH[:n]), f"registry typed[{tok!r}, {getattr(dt, '__name__', dt)}].sql({n})")
                except Exception:  # noqa: BLE001
                    pass
        for name, tok in sorted(vtl_tokens().items()):
            for n in (1, 2, 3):          # registry.sql is always given at least one operand (see `registry_call_arity`)
                if (tok, n) in reg._operators or (tok, 0) in reg._operators:
                    continue
                try:
                    add(rel, "OperatorRegistry.sql", reg.sql(tok, *PH[:n]), f"registry.sql(tokens.{name}, {n} operands) [fallback]")
                except Exception as e:  # noqa: BLE001
                    problems.append(f"registry.sql fallback {name}: {type(e).__name__}")
    except Exception as e:  # noqa: BLE001
        problems.append(f"operator registry not enumerable: {type(e).__name__}: {e}")
    # --- type-aware aggregate builder
    rel = "duckdb_transpiler/Transpiler/__init__.py"
    try:
        tr = importlib.import_module("vtlengine.duckdb_transpiler.Transpiler")
        dts = importlib.import_module("vtlengine.DataTypes")
        for name, tok in sorted(vtl_tokens().items()):
            for dtn in ("TimePeriod", "Duration", "Date", "Integer", "Number", "String", "Boolean", "TimeInterval"):
                for lvl in (False, True):
                    try:
                        r = tr.SQLTranspiler._build_agg_expr(tok, PH[0], getattr(dts, dtn), dataset_level=lvl)
                    except Exception as e:  # noqa: BLE001
                        problems.append(f"_build_agg_expr({name},{dtn}): {type(e).__name__}")
                        continue
                    add(rel, "SQLTranspiler._build_agg_expr", r, f"_build_agg_expr(tokens.{name}, col, {dtn}, dataset_level={lvl})")
        add(rel, "SQLTranspiler._build_timeshift_date_frequency_subquery",
            tr.SQLTranspiler._build_timeshift_date_frequency_subquery('"T"', PH[0]), "_build_timeshift_date_frequency_subquery(src, col)")
        # analytic function text for every VTL token (with and without lag/lead parameters)
        A = importlib.import_module("vtlengine.AST")
        kw = dict(line_start=1, column_start=1, line_stop=1, column_stop=1)
        t = tr.SQLTranspiler()
        for name, tok in sorted(vtl_tokens().items()):
            for params in (None, [1], [1, A.Constant(type_="INTEGER_CONSTANT", value=0, **kw)]):
                node = A.Analytic(op=tok, operand=None, window=None, params=params, partition_by=["Id_1"], partition_op=None,
                                  order_by=None, **kw)
                try:
                    add(rel, "SQLTranspiler._build_analytic_expr", t._build_analytic_expr(tok, PH[0], node),
                        f"_build_analytic_expr(tokens.{name}, col, Analytic(params={'None' if params is None else len(params)}))")
                except TypeError:
                    pass            # a registry template of another arity (not an analytic operator)
                except Exception as e:  # noqa: BLE001
                    problems.append(f"_build_analytic_expr({name}): {type(e).__name__}")
    except Exception as e:  # noqa: BLE001
        problems.append(f"transpiler generators not callable: {type(e).__name__}: {e}")
    # --- viral propagation generators
    rel = "ViralPropagation/sql.py"
    try:
        vps = importlib.import_module("vtlengine.ViralPropagation.sql")
        for label, rule in sample_rules():
            for fname, call in (("vp_group_sql", lambda f, r=rule: f(r, PH[0])),
                                ("vp_group_sql_windowed", lambda f, r=rule: f(r, PH[0], 'PARTITION BY "p"')),
                                ("vp_dataset_wide_sql", lambda f, r=rule: f(r, PH[0])),
                                ("vp_pair_sql", lambda f, r=rule: f(r, PH[0], PH[1])),
                                ("vp_reduce_refs", lambda f, r=rule: f(r, PH[:3]))):
                fn = getattr(vps, fname, None)
                if fn is None:
                    problems.append(f"{fname} not found")
                    continue
                try:
                    add(rel, fname, call(fn), f"{fname}({label})")
                except Exception as e:  # noqa: BLE001
                    problems.append(f"{fname}({label}): {type(e).__name__}: {e}")
        if hasattr(vps, "vp_no_rule_group_sql"):
            add(rel, "vp_no_rule_group_sql", vps.vp_no_rule_group_sql(PH[0]), "vp_no_rule_group_sql(col)")
    except Exception as e:  # noqa: BLE001
        problems.append(f"viral generators not callable: {type(e).__name__}: {e}")
    # de-duplicate identical texts per generator
    seen: Set[Tuple[str, str, str]] = set()
    uniq = []
    for f in out:
        k = (f.rel, f.qualname, f.text)
        if k not in seen:
            seen.add(k)
            uniq.append(f)
    return uniq, problems


def registry_call_arity() -> List[str]:
    """Call sites `registry.sql(<token>, ...)` that pass NO fixed operand (only starred lists): the zero-operand fallback
    `TOKEN()` could only arise there.  Reported in the evidence (assumption: those lists are never empty)."""
    out = []
    for rel in sql_source_files():
        for n in ast.walk(tree_of(rel)):
            if isinstance(n, ast.Call) and isinstance(n.func, ast.Attribute) and n.func.attr == "sql" \
                    and ast.unparse(n.func.value) == "registry":
                fixed = [a for a in n.args[1:] if not isinstance(a, ast.Starred)]
                if not fixed:
                    out.append(f"{rel}:{qualname_of(n)}: {ast.unparse(n)[:60]}")
    return out


def lambda_of_fold(args: str) -> Optional[Tuple[List[str], str, str]]:
    """(parameter names, body, list operand) of `list_reduce(<list>, (p, q) -> body)`; None when not of that shape."""
    parts = _split_top(args)
    if len(parts) < 2:
        return None
    lam = ", ".join(parts[1:])
    m = re.match(r"(?s)\s*\(\s*(\w+)\s*,\s*(\w+)\s*\)\s*->\s*(.*)$", lam) or re.match(r"(?s)\s*(\w+)\s*,\s*(\w+)\s*->\s*(.*)$", lam)
    if not m:
        return None
    return [m.group(1), m.group(2)], m.group(3).strip(), parts[0]


if __name__ == "__main__":          # exploration aid:  python -m vc.sqltemplates
    fr = python_fragments() + sql_file_fragments()
    print(len(fr), "fragments from", len(sql_source_files()), "python files")
    for s in scan(fr):
        print(f"{s.key:95s} L{s.frag.lineno:<5d} win={s.window!r:40.40} | {s.snippet(90)}")
