"""Theory-backed symbolic collections for vc.pyvc (SMT arrays): sets / lists / dicts of UNBOUNDED size.

vc.pyvc executes Python containers concretely (a list of three symbolic names is a Python list of three terms).  That
cannot express "an arbitrary loop state" (a dict with any number of entries).  The classes below stand for Python
containers whose CONTENT is one SMT array term; the real statements of the code under verification (`x in s`,
`s.add(x)`, `d[k] = v`, `d.get(k, dflt)`, `d[k].append(x)`, `for x in lst`) are interpreted as array reads / stores
through the hooks `_pyvc_contains / _pyvc_getitem / _pyvc_setitem / _pyvc_getattr / _pyvc_iter / _pyvc_len /
_pyvc_convert` of vc.pyvc.  This is the trusted container semantics (listed in the evidence of every check using it):

  NameBag   list or set of strings          multiplicity array  (Array String Int);  `in` <=> multiplicity > 0
            list.append(x): +1               set.add(x): := 1
  NameIntMap dict str -> int                 (dom: Array String Bool, val: Array String Int); d[k] raises KeyError outside
            dom; d.get(k, dflt) = ite(dom[k], val[k], dflt); d[k] = v stores (last store wins)
  IntBagMap dict int -> list of strings      (dom: Array Int Bool, bags: Array Int (Array String Int));
            defaultdict(list): d[k] creates the key; plain dict: KeyError outside dom
  IntKeyMap dict int -> value                dom array (+ optional value array) and the LOG of the stores of this step
  EdgeMap   dict int -> (int, int)           dom + multiplicity of pairs; a store under a key that may already be
            present is a call-site obligation (an overwritten entry would lose a pair)
Iteration (`for x in coll`) yields ONE generic element (a fresh constant constrained to be in the collection): the
loop body is executed for one arbitrary iteration; the induction over the sequence is the caller's (stated) business.
Order of lists is not modelled (only multiplicity); code that depends on positions aborts with OutsideSubset.
"""
from __future__ import annotations

import copy
from typing import Any, Dict, List, Optional, Sequence, Tuple

from . import smt
from .smt import BOOL, INT, STR, T, And, Eq, Ite, Not, is_sym

A_S_I = "(Array String Int)"
A_S_B = "(Array String Bool)"
A_I_B = "(Array Int Bool)"
A_I_S = "(Array Int String)"
A_I_ASI = "(Array Int (Array String Int))"
A_I_AII = "(Array Int (Array Int Int))"


def sel(arr: T, idx: Any, sort: str) -> T:
    return smt.app(sort, "select", arr, idx)


def sto(arr: T, idx: Any, val: Any) -> T:
    return smt.app(arr.sort, "store", arr, idx, val)


def _native(fn: Any) -> Any:
    fn._pyvc_native = True
    return fn


def _outside(msg: str) -> Exception:
    from .pyvc import OutsideSubset
    return OutsideSubset(msg)


def _is_str(v: Any) -> bool:
    return isinstance(v, str) or (is_sym(v) and v.sort == STR)


def _is_int(v: Any) -> bool:
    return (isinstance(v, int) and not isinstance(v, bool)) or (is_sym(v) and v.sort == INT)


class SymColl:
    FIELDS: Tuple[Tuple[str, str], ...] = ()

    def __init__(self, eng: Any, name: str) -> None:
        self.eng, self.name = eng, name
        self.t0: Dict[str, T] = {f: eng.decls.const(f"{name}.{f}", s) for f, s in self.FIELDS}
        self.t: Dict[str, T] = dict(self.t0)
        self.log: List[Tuple[Any, Any]] = []
        self.n_iter = 0

    def reset(self) -> None:
        self.t = dict(self.t0)
        self.log = []
        self.n_iter = 0

    def snapshot(self) -> "SymColl":
        c = copy.copy(self)
        c.t, c.log = dict(self.t), list(self.log)
        return c

    def unchanged(self) -> Any:
        """The content is the initial content (term identity or array equality)."""
        return And(*[Eq(self.t[f], self.t0[f]) for f, _ in self.FIELDS])

    def generic(self, eng: Any, sort: str, guard: Any) -> T:
        self.n_iter += 1
        x = eng.decls.const(f"{self.name}.elem{self.n_iter}", sort)
        eng.pc.append(guard(x))
        return x

    def __repr__(self) -> str:
        return f"<{type(self).__name__} {self.name}>"


class NameBag(SymColl):
    """list / set of strings."""
    FIELDS = (("cnt", A_S_I),)

    def __init__(self, eng: Any, name: str, kind: str = "list") -> None:
        super().__init__(eng, name)
        self.kind = kind

    def mult(self, x: Any, initial: bool = False) -> T:
        return sel((self.t0 if initial else self.t)["cnt"], x, INT)

    def has(self, x: Any, initial: bool = False) -> Any:
        return smt.Gt(self.mult(x, initial), 0)

    def _add(self, x: Any) -> None:
        if not _is_str(x):
            raise _outside(f"{self.name}: element that is not a string")
        self.t["cnt"] = sto(self.t["cnt"], x, 1 if self.kind == "set" else smt.Add(self.mult(x), 1))

    def _pyvc_contains(self, eng: Any, item: Any) -> Any:
        if not _is_str(item):
            return False
        return self.has(item)

    def _pyvc_getattr(self, eng: Any, name: str) -> Any:
        me = self
        if (name == "append" and self.kind == "list") or (name == "add" and self.kind == "set"):
            return _native(lambda e, x: me._add(x))
        if name == "copy":
            return _native(lambda e: me.snapshot())
        if name == "discard" and self.kind == "set":
            def discard(e: Any, x: Any) -> None:
                if _is_str(x):
                    me.t["cnt"] = sto(me.t["cnt"], x, 0)
            return _native(discard)
        if name == "remove" and self.kind == "list":
            def remove(e: Any, x: Any) -> None:
                from .pyvc import ObjV, RaiseSignal, builtin_class
                if not _is_str(x):
                    raise _outside(f"{me.name}.remove(non-string)")
                if e.decide(Not(me.has(x))):
                    raise RaiseSignal(ObjV(builtin_class("ValueError"), {}, (x,)))
                me.t["cnt"] = sto(me.t["cnt"], x, smt.Sub(me.mult(x), 1))      # one occurrence less
            return _native(remove)
        raise _outside(f"{type(self).__name__}.{name} (not modelled)")

    def _pyvc_iter(self, eng: Any) -> Sequence[Any]:
        return [self.generic(eng, STR, lambda x: self.has(x))]

    def _pyvc_convert(self, eng: Any, target: str) -> Any:
        if target in ("list", "sorted", "set"):
            c = self.snapshot()
            if target == "set" and self.kind == "list":
                raise _outside("set(list) of a symbolic list")
            return c
        raise _outside(f"{target}() of {self.name}")


class NameIntMap(SymColl):
    """dict str -> int."""
    FIELDS = (("dom", A_S_B), ("val", A_S_I))

    def has(self, k: Any, initial: bool = False) -> Any:
        return sel((self.t0 if initial else self.t)["dom"], k, BOOL)

    def at(self, k: Any, initial: bool = False) -> T:
        return sel((self.t0 if initial else self.t)["val"], k, INT)

    def _pyvc_contains(self, eng: Any, item: Any) -> Any:
        return self.has(item) if _is_str(item) else False

    def _pyvc_getitem(self, eng: Any, key: Any) -> Any:
        from .pyvc import ObjV, RaiseSignal, builtin_class
        if not _is_str(key):
            raise _outside(f"{self.name}[non-string]")
        if eng.decide(Not(self.has(key))):
            raise RaiseSignal(ObjV(builtin_class("KeyError"), {}, (key,)))
        return self.at(key)

    def _pyvc_setitem(self, eng: Any, key: Any, v: Any) -> None:
        if not _is_str(key) or not _is_int(v):
            raise _outside(f"{self.name}[k] = v outside str -> int")
        self.log.append((key, v))
        self.t["dom"] = sto(self.t["dom"], key, True)
        self.t["val"] = sto(self.t["val"], key, v)

    def _pyvc_getattr(self, eng: Any, name: str) -> Any:
        me = self
        if name == "get":
            def get(e: Any, k: Any, default: Any = None) -> Any:
                if not _is_str(k) or not _is_int(default):
                    raise _outside(f"{me.name}.get outside str -> int with an int default")
                return Ite(me.has(k), me.at(k), default)
            return _native(get)
        raise _outside(f"{type(self).__name__}.{name} (not modelled)")


class NameObjMap(SymColl):
    """dict str -> object: only the key set is modelled (dom); values are tokens made by `value(key)`; stores are logged."""
    FIELDS = (("dom", A_S_B),)

    def __init__(self, eng: Any, name: str, value: Any = None) -> None:
        super().__init__(eng, name)
        self.value = value
        self.nonempty = eng.decls.const(f"{name}.nonempty", BOOL)

    def has(self, k: Any, initial: bool = False) -> Any:
        return sel((self.t0 if initial else self.t)["dom"], k, BOOL)

    def _pyvc_contains(self, eng: Any, item: Any) -> Any:
        return self.has(item) if _is_str(item) else False

    def _pyvc_truth(self, eng: Any) -> Any:
        return self.nonempty if not self.log else True

    def _lookup(self, key: Any) -> Any:
        for k, v in reversed(self.log):
            if k is key or (is_sym(k) and is_sym(key) and k.sx == key.sx):
                return v
        from .pyvc import Opaque
        return self.value(key) if self.value is not None else Opaque(f"{self.name}[k]")

    def _pyvc_getitem(self, eng: Any, key: Any) -> Any:
        from .pyvc import ObjV, RaiseSignal, builtin_class
        if not _is_str(key):
            raise _outside(f"{self.name}[non-string]")
        if eng.decide(Not(self.has(key))):
            raise RaiseSignal(ObjV(builtin_class("KeyError"), {}, (key,)))
        if self.log and not any(k is key or (is_sym(k) and is_sym(key) and k.sx == key.sx) for k, _ in self.log):
            raise _outside(f"{self.name}[k] read after a store under another symbolic key")
        return self._lookup(key)

    def _pyvc_setitem(self, eng: Any, key: Any, v: Any) -> None:
        if not _is_str(key):
            raise _outside(f"{self.name}[non-string] = v")
        self.log.append((key, v))
        self.t["dom"] = sto(self.t["dom"], key, True)

    def _pyvc_getattr(self, eng: Any, name: str) -> Any:
        me = self
        if name == "get":
            def get(e: Any, k: Any, default: Any = None) -> Any:
                if not _is_str(k):
                    raise _outside(f"{me.name}.get(non-string)")
                return me._lookup(k) if e.decide(me.has(k)) else default
            return _native(get)
        raise _outside(f"{type(self).__name__}.{name} (not modelled)")


class BagRef:
    """d[k] of an IntBagMap: the list stored under key k (a view: append mutates the map)."""

    def __init__(self, owner: "IntBagMap", key: Any) -> None:
        self.owner, self.key = owner, key

    def _pyvc_contains(self, eng: Any, item: Any) -> Any:
        return smt.Gt(self.owner.mult(self.key, item), 0) if _is_str(item) else False

    def _pyvc_getattr(self, eng: Any, name: str) -> Any:
        me = self
        if name == "append":
            def app(e: Any, x: Any) -> None:
                if not _is_str(x):
                    raise _outside("append of a non-string")
                o = me.owner
                o.log.append((me.key, x))
                inner = sel(o.t["bags"], me.key, A_S_I)
                o.t["bags"] = sto(o.t["bags"], me.key, sto(inner, x, smt.Add(sel(inner, x, INT), 1)))
            return _native(app)
        raise _outside(f"list.{name} on an entry of {self.owner.name} (not modelled)")

    def _pyvc_iter(self, eng: Any) -> Sequence[Any]:
        o, k = self.owner, self.key
        return [o.generic(eng, STR, lambda x: smt.Gt(o.mult(k, x), 0))]


class IntBagMap(SymColl):
    """dict int -> list of strings (defaultdict(list) when default=True)."""
    FIELDS = (("dom", A_I_B), ("bags", A_I_ASI))

    def __init__(self, eng: Any, name: str, default: bool = False) -> None:
        super().__init__(eng, name)
        self.default = default

    def has(self, k: Any, initial: bool = False) -> Any:
        return sel((self.t0 if initial else self.t)["dom"], k, BOOL)

    def mult(self, k: Any, x: Any, initial: bool = False) -> T:
        return sel(sel((self.t0 if initial else self.t)["bags"], k, A_S_I), x, INT)

    def _pyvc_contains(self, eng: Any, item: Any) -> Any:
        return self.has(item) if _is_int(item) else False

    def _pyvc_getitem(self, eng: Any, key: Any) -> Any:
        from .pyvc import ObjV, RaiseSignal, builtin_class
        if not _is_int(key):
            raise _outside(f"{self.name}[non-int]")
        if self.default:
            self.t["dom"] = sto(self.t["dom"], key, True)
        elif eng.decide(Not(self.has(key))):
            raise RaiseSignal(ObjV(builtin_class("KeyError"), {}, (key,)))
        return BagRef(self, key)

    def _pyvc_convert(self, eng: Any, target: str) -> Any:
        if target == "dict":
            c = self.snapshot()
            c.default = False  # type: ignore[attr-defined]
            return c
        raise _outside(f"{target}() of {self.name}")


class IntKeyMap(SymColl):
    """dict int -> value; the value array is kept only for values of sort `val_sort` (None: stores are only logged)."""

    def __init__(self, eng: Any, name: str, val_sort: Optional[str] = None) -> None:
        self.val_sort = val_sort
        self.FIELDS = (("dom", A_I_B),) + ((("val", f"(Array Int {val_sort})"),) if val_sort else ())
        super().__init__(eng, name)

    def has(self, k: Any, initial: bool = False) -> Any:
        return sel((self.t0 if initial else self.t)["dom"], k, BOOL)

    def at(self, k: Any, initial: bool = False) -> T:
        assert self.val_sort
        return sel((self.t0 if initial else self.t)["val"], k, self.val_sort)

    def _pyvc_contains(self, eng: Any, item: Any) -> Any:
        return self.has(item) if _is_int(item) else False

    def _pyvc_setitem(self, eng: Any, key: Any, v: Any) -> None:
        if not _is_int(key):
            raise _outside(f"{self.name}[non-int] = v")
        self.log.append((key, v))
        self.t["dom"] = sto(self.t["dom"], key, True)
        if self.val_sort:
            try:
                ok = smt.sort_of(v) == self.val_sort
            except TypeError:
                ok = False
            if not ok:
                raise _outside(f"{self.name}[k] = value of another sort than {self.val_sort}")
            self.t["val"] = sto(self.t["val"], key, v)

    def _pyvc_getitem(self, eng: Any, key: Any) -> Any:
        from .pyvc import ObjV, Opaque, RaiseSignal, builtin_class
        if not _is_int(key):
            raise _outside(f"{self.name}[non-int]")
        if eng.decide(Not(self.has(key))):
            raise RaiseSignal(ObjV(builtin_class("KeyError"), {}, (key,)))
        return self.at(key) if self.val_sort else Opaque(f"{self.name}[k]")

    def _pyvc_iter(self, eng: Any) -> Sequence[Any]:
        return [self.generic(eng, INT, lambda k: self.has(k))]

    items_value: Any = None      # callable(key) -> the generic value yielded by .items() / .values()

    def _pyvc_getattr(self, eng: Any, name: str) -> Any:
        me = self
        if name in ("items", "values") and self.items_value is not None:
            class _View:
                def _pyvc_iter(self_v, e: Any) -> Sequence[Any]:      # noqa: N805
                    k = me.generic(e, INT, lambda kk: me.has(kk))
                    return [(k, me.items_value(k))] if name == "items" else [me.items_value(k)]
            return _native(lambda e: _View())
        raise _outside(f"{type(self).__name__}.{name} (not modelled)")


class EdgeMap(SymColl):
    """dict int -> (int, int): which pairs are stored, with multiplicity; overwriting a key is a site obligation."""
    FIELDS = (("dom", A_I_B), ("pairs", A_I_AII))

    def has(self, k: Any, initial: bool = False) -> Any:
        return sel((self.t0 if initial else self.t)["dom"], k, BOOL)

    def mult(self, u: Any, v: Any, initial: bool = False) -> T:
        return sel(sel((self.t0 if initial else self.t)["pairs"], u, "(Array Int Int)"), v, INT)

    def _pyvc_contains(self, eng: Any, item: Any) -> Any:
        return self.has(item) if _is_int(item) else False

    def _pyvc_setitem(self, eng: Any, key: Any, v: Any) -> None:
        if not _is_int(key) or not (isinstance(v, tuple) and len(v) == 2 and all(_is_int(x) for x in v)):
            raise _outside(f"{self.name}[k] = v outside int -> (int, int)")
        eng.oblige(Not(self.has(key)), f"{self.name}: store under a key that is not present yet (an overwritten entry "
                                       "would lose a pair)")
        self.log.append((key, v))
        self.t["dom"] = sto(self.t["dom"], key, True)
        self.t["pairs"] = self.plus(self.t["pairs"], v[0], v[1])

    @staticmethod
    def plus(pairs: T, u: Any, v: Any) -> T:
        """The pair multiset `pairs` with one more occurrence of (u, v)."""
        inner = sel(pairs, u, "(Array Int Int)")
        return sto(pairs, u, sto(inner, v, smt.Add(sel(inner, v, INT), 1)))

    def _pyvc_getattr(self, eng: Any, name: str) -> Any:
        me = self
        if name == "values":
            return _native(lambda e: me)
        raise _outside(f"{type(self).__name__}.{name} (not modelled)")

    def _pyvc_convert(self, eng: Any, target: str) -> Any:
        if target == "list":
            return self.snapshot()
        raise _outside(f"{target}() of {self.name}")


class PrefixList:
    """A list with a concrete prefix and an unknown tail (`[o] + [] + statement.unknown_variables`)."""

    def __init__(self, prefix: List[Any], tail_len: Any) -> None:
        self.prefix, self.tail_len = list(prefix), tail_len

    def _pyvc_binop(self, eng: Any, op: str, other: Any, refl: bool) -> Any:
        if op != "Add":
            raise _outside(f"list {op}")
        if isinstance(other, list):
            if refl:                       # other + self
                return PrefixList(list(other) + self.prefix, self.tail_len)
            if self.tail_len is None or (not is_sym(self.tail_len) and self.tail_len == 0):
                return PrefixList(self.prefix + list(other), self.tail_len)
        raise _outside("concatenation after an unknown list tail")

    def _pyvc_len(self, eng: Any) -> Any:
        return smt.Add(len(self.prefix), self.tail_len)

    def _pyvc_truth(self, eng: Any) -> Any:
        return smt.Gt(self._pyvc_len(eng), 0)

    def _pyvc_getitem(self, eng: Any, key: Any) -> Any:
        if isinstance(key, int) and 0 <= key < len(self.prefix):
            return self.prefix[key]
        raise _outside("index into the unknown tail of a list")


def snap(v: Any) -> Any:
    """Frozen copy of a loop-state value at the end of a path (the engine re-runs the function on the same objects)."""
    from .pyvc import ObjV
    if isinstance(v, SymColl):
        return v.snapshot()
    if isinstance(v, list):
        return list(v)
    if isinstance(v, dict):
        return dict(v)
    if isinstance(v, ObjV):
        o = ObjV(v.cls, {k: snap(x) if isinstance(x, (SymColl, list, dict)) else x for k, x in v.attrs.items()}, v.args,
                 dict(v.kwargs))
        o.origin = v  # type: ignore[attr-defined]
        return o
    return v
