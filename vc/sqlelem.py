"""Additive extension of E2 (`vc.sqlvc` / `vc.sqlvc_ext`) for the scalar SQL templates of the element-wise operators
(property C01).  Nothing of the existing engines is changed: `ElemEngine` subclasses `VpEngine`.

What is added (every item is compared with the real DuckDB on a concrete grid by the check on every run):

  * outcomes with GUARDED errors: CASE is evaluated fork-free (one ite-term per expression) but lazily - a branch is
    evaluated under the guard "no earlier WHEN was TRUE and this one is"; `error('..')` reached under guard g adds
    (g, message) to `errors`; a construct outside the model reached under guard g adds (g, reason) to `outs`.  An
    obligation is only discharged when `outs` is unsatisfiable under its precondition (otherwise it is undecided);
  * `CASE <subject> WHEN v ...`, BETWEEN, `//`, `%` (INTEGER: truncated remainder, NULL for a zero divisor; DOUBLE:
    uninterpreted `duck_fmod`), `/` as exact real division (a zero divisor leaves the model: DuckDB yields inf/nan),
    unary minus / ABS / CEIL / FLOOR on exact reals, CAST between BIGINT / DOUBLE / VARCHAR / BOOLEAN of same-kind values;
  * LN, EXP, SQRT, POWER, LOG, ROUND, TRUNC, regexp_full_match as UNINTERPRETED functions: only NULL-strictness and the
    domain errors of DuckDB are modelled (LN/LOG of a non-positive number, LOG base 1, SQRT of a negative number);
  * strings in two readings: `atom` (opaque code; =, <>, IN, IS NULL, COALESCE, CASE) or `cstr` (character vector of a
    concrete length; ||, LENGTH, UPPER/LOWER on ASCII, TRIM/LTRIM/RTRIM of blanks, SUBSTR with symbolic start/length >= 1
    / >= 0, REPLACE with a non-empty pattern, INSTR, the slice s[k:], lexicographic comparison by code point);
  * macros are parsed one by one from the statements the repository's own `_macro_graph()` yields (only those asked for).

Typed operands (`Operand`) give, for one VTL type, the symbolic SV, its constraints, the decoding of a solver model and the
typed SQL literal used when the SAME template text is executed in the real DuckDB.
"""
from __future__ import annotations

import math
from contextlib import contextmanager
from dataclasses import dataclass, field
from decimal import Decimal
from fractions import Fraction
from typing import Any, Dict, Iterator, List, Optional, Sequence, Tuple

import sqlglot
from sqlglot import exp

from . import core, smt
from .smt import BOOL, INT, REAL, T, And, Eq, Ge, Gt, Iff, Ite, Le, Lt, Neg, Not, Or, Sub, is_sym
from .sqlvc import NULL, SV, CStr, Macro, SqlError, SqlOutside, digits_of, sv_int
from .sqlvc_ext import (RAdd, REq, RIte, RLe, RLt, RMul, RSub, VpEngine, ite_sv, rterm, share_sv)


# ----------------------------------------------------------------------------------------------------------------------
# macros: only the named ones, from the statements the repository installs
# ----------------------------------------------------------------------------------------------------------------------
def load_named_macros(names: Sequence[str]) -> Dict[str, Macro]:
    core.boot(full=True)
    import importlib
    sqlmod = importlib.import_module("vtlengine.duckdb_transpiler.sql")
    graph = sqlmod._macro_graph()           # noqa: SLF001 - the repository's own statement splitter
    out: Dict[str, Macro] = {}
    todo = list(names)
    import logging
    import re
    logging.getLogger("sqlglot").setLevel(logging.ERROR)

    def body_of(stmt: str) -> Optional[str]:
        plain = re.sub(r"--[^\n]*", "", stmt)
        m = re.search(r"CREATE\s+(?:OR\s+REPLACE\s+)?MACRO\b", plain, re.IGNORECASE)
        return plain[m.start():].rstrip().rstrip(";") if m else None
    while todo:
        n = todo.pop()
        if n in out:
            continue
        text = graph.statements.get(n)
        if text is None:
            raise SqlOutside(f"macro {n} is not defined by the repository's SQL library")
        plain = body_of(text)
        if plain is None:
            if n in names:
                raise SqlOutside(f"{n}: not a macro definition")
            continue                          # a type the macro mentions
        st = sqlglot.parse_one(plain, read="duckdb")
        if not (isinstance(st, exp.Create) and isinstance(st.this, exp.UserDefinedFunction)) or st.expression is None:
            raise SqlOutside(f"{n}: not a macro definition")
        udf = st.this
        out[n] = Macro(n, [p.name for p in udf.expressions], st.expression, "sql library")
        for d in graph.deps.get(n, ()):  # macros it calls
            if d in graph.statements and d not in out:
                todo.append(d)
    return out


# ----------------------------------------------------------------------------------------------------------------------
# outcomes
# ----------------------------------------------------------------------------------------------------------------------
@dataclass
class Outcome:
    pc: List[Any]
    value: SV
    errors: List[Tuple[Any, str]] = field(default_factory=list)
    outs: List[Tuple[Any, str]] = field(default_factory=list)

    def err(self) -> Any:
        return Or(*[c for c, _ in self.errors])

    def out(self) -> Any:
        return Or(*[c for c, _ in self.outs])

    def err_text(self) -> str:
        return "; ".join(sorted({m for _c, m in self.errors}))[:200]


def null_of(v: SV) -> Any:
    return True if v.sort == "null" else v.null


def same(x: SV, y: SV, tol: bool = False) -> Any:
    """Both NULL, or both not NULL and equal.  `tol`: concrete numbers are compared with a relative tolerance (used only
    when a counter-model is replayed against DuckDB's floating point result)."""
    nx, ny = null_of(x), null_of(y)
    if x.sort == "null" or y.sort == "null":
        return And(nx, ny)
    if x.sort == "str" and y.sort == "str":
        return And(Iff(nx, ny), Or(nx, x.v.eq(y.v)))
    sx, sy = x.sort, y.sort
    if {sx, sy} <= {"int", "num"}:
        if sx == sy == "int":
            eq = Eq(x.v, y.v)
        elif not is_sym(x.v) and not is_sym(y.v):
            a, b = Fraction(x.v), Fraction(y.v)
            eq = (abs(a - b) <= Fraction(1, 10 ** 9) * max(1, abs(a), abs(b))) if tol else a == b
        else:
            eq = REq(x.v, y.v)
        return And(Iff(nx, ny), Or(nx, eq))
    if sx != sy:
        return And(nx, ny)       # values of different kinds are only "the same" when both are NULL
    if sx == "bool":
        return And(Iff(nx, ny), Or(nx, Iff(x.v, y.v)))
    if sx == "atom":
        return And(Iff(nx, ny), Or(nx, Eq(x.v, y.v)))
    raise SqlOutside(f"comparison of results of sort {sx}")


def and3(a: SV, b: SV) -> SV:
    f = Or(And(Not(a.null), Not(a.v)), And(Not(b.null), Not(b.v)))
    t = And(Not(a.null), a.v, Not(b.null), b.v)
    return SV("bool", t, And(Not(f), Not(t)))


def _round_half_away(x: Fraction, d: int) -> Fraction:
    s = Fraction(10) ** d
    y = x * s
    q = math.floor(abs(y) + Fraction(1, 2))
    return (q if y >= 0 else -q) / s


def _trunc_to(x: Fraction, d: int) -> Fraction:
    s = Fraction(10) ** d
    return Fraction(math.trunc(x * s)) / s


class ElemEngine(VpEngine):
    def __init__(self, decls: Optional[smt.Decls] = None, macro_names: Sequence[str] = ()) -> None:
        super().__init__(decls)
        self.macros = load_named_macros(macro_names) if macro_names else {}
        self.str_mode = "atom"
        self.guards: List[Any] = []
        self.errors: List[Tuple[Any, str]] = []
        self.outs: List[Tuple[Any, str]] = []
        self.max_paths = 4000

    # -- guarded (lazy) evaluation -----------------------------------------------------------------------------------
    @contextmanager
    def under(self, *conds: Any) -> Iterator[None]:
        n = len(self.guards)
        self.guards.extend(conds)
        try:
            yield
        finally:
            del self.guards[n:]

    def guard(self) -> Any:
        return And(*self.guards)

    def lazy(self, e: Any, env: Dict[str, SV], *conds: Any) -> SV:
        g = And(*self.guards, *conds)
        if not is_sym(g) and not g:
            return NULL                      # never evaluated by DuckDB
        with self.under(*conds):
            try:
                return self.eval(e, env)
            except SqlOutside as x:
                self.outs.append((self.guard(), str(x)))
                return NULL
            except SqlError as x:
                self.errors.append((self.guard(), str(x.msg)))
                return NULL

    def run(self, sql: str, env: Dict[str, SV], tree: Any = None) -> List[Outcome]:
        """All paths of one scalar expression: `sql` text, or `tree` = a sub-tree of an already parsed real query."""
        if tree is None:
            tree = self._parsed.get(sql)
        if tree is None:
            tree = self._parsed[sql] = sqlglot.parse_one(sql, read="duckdb")
        env = {k.lower(): v for k, v in env.items()}
        res: List[Outcome] = []

        def fn() -> Any:
            self.guards, self.errors, self.outs = [], [], []
            v = self.eval(tree, env)
            return Outcome([], v, list(self.errors), list(self.outs))
        for p in self.explore(fn):
            if p.kind == "value":
                o = p.value
                o.pc = list(p.pc)
                res.append(o)
            elif p.kind == "error":
                res.append(Outcome(list(p.pc), NULL, list(self.errors) + [(True, str(p.value))], []))
            else:
                res.append(Outcome(list(p.pc), NULL, [], [(True, str(p.value))]))
        return res

    # -- leaves ------------------------------------------------------------------------------------------------------
    def ev_Literal(self, e: exp.Literal, env: Dict[str, SV]) -> SV:
        if e.is_string and self.str_mode == "cstr":
            return SV("str", CStr.lit(e.this), False)
        return super().ev_Literal(e, env)

    def ev_Column(self, e: exp.Column, env: Dict[str, SV]) -> SV:
        k = self.col_key(e)
        if k in env:
            return env[k]
        tbl = e.table.lower() if e.table else None
        if tbl is not None and tbl in env:
            return self.field(env[tbl], e.name.lower())
        raise SqlOutside(f"unbound column {e.sql()}")

    def field(self, base: SV, name: str) -> SV:
        if base.sort == "null":
            return NULL
        return super().field(base, name)

    # -- CASE --------------------------------------------------------------------------------------------------------
    def ev_Case(self, e: exp.Case, env: Dict[str, SV]) -> SV:
        self.constructs.add("CASE")
        subject = self.eval(e.this, env) if e.this is not None else None
        conds: List[Any] = []
        vals: List[SV] = []
        prev: List[Any] = []
        for br in e.args.get("ifs", []):
            g = And(*self.guards, *prev)
            if not is_sym(g) and not g:
                break
            with self.under(*prev):
                if subject is not None:
                    c = self.compare(subject, self.lazy(br.this, env), "=")
                else:
                    c = self.as_bool(self.lazy(br.this, env))
                t = self.truth(c)
            vals.append(self.lazy(br.args["true"], env, *prev, t))
            conds.append(t)
            prev.append(Not(t))
        res: SV = self.lazy(e.args["default"], env, *prev) if e.args.get("default") is not None else NULL
        for t, v in reversed(list(zip(conds, vals))):
            res = ite_sv(t, v, res)
        return share_sv(res) if res.sort in ("atom", "int", "num", "bool") else res

    def ev_Between(self, e: exp.Between, env: Dict[str, SV]) -> SV:
        x, lo, hi = self.eval(e.this, env), self.eval(e.args["low"], env), self.eval(e.args["high"], env)
        return and3(self.as_bool(self.compare(x, lo, ">=")), self.as_bool(self.compare(x, hi, "<=")))

    def ev_Anonymous(self, e: exp.Anonymous, env: Dict[str, SV]) -> SV:
        name = e.name.lower()
        if name == "error":
            lit = e.find(exp.Literal)
            self.errors.append((self.guard(), lit.this if lit is not None else "error()"))
            return NULL
        return super().ev_Anonymous(e, env)

    # -- numbers -----------------------------------------------------------------------------------------------------
    @staticmethod
    def _num(x: SV) -> Any:
        return x.v

    def arith(self, e: Any, env: Dict[str, SV], op: str) -> SV:  # noqa: C901
        a, b = self.eval(e.this, env), self.eval(e.expression, env)
        if not {a.sort, b.sort} <= {"int", "num", "null"}:
            return super().arith(e, env, op)
        self.constructs.add(f"arith {op}")
        if a.sort == "null" or b.sort == "null":
            return SV("num" if "num" in (a.sort, b.sort) or op == "/" else "int", 0, True)
        null = Or(a.null, b.null)
        ints = a.sort == "int" and b.sort == "int"
        if op in ("+", "-", "*"):
            if ints:
                f = {"+": smt.Add, "-": smt.Sub, "*": smt.Mul}[op]
                return SV("int", f(a.v, b.v), null)
            f = {"+": RAdd, "-": RSub, "*": RMul}[op]
            return SV("num", f(a.v, b.v), null)
        zero = Eq(b.v, 0) if b.sort == "int" else REq(b.v, 0)
        if op == "/":
            bad = And(self.guard(), Not(null), zero)
            if is_sym(bad) or bad:
                self.outs.append((bad, "x / 0 (DuckDB yields inf / nan: outside the real-number model)"))
            if not is_sym(a.v) and not is_sym(b.v):
                return SV("num", Fraction(a.v) / Fraction(b.v) if Fraction(b.v) != 0 else Fraction(0), null)
            return SV("num", T(REAL, f"(/ {rterm(a.v).sx} {rterm(b.v).sx})"), null)
        if op in ("%", "//"):
            if ints:
                if not is_sym(b.v):
                    if b.v == 0:
                        return SV("int", 0, True)
                    v = smt.TRem(a.v, b.v) if op == "%" else smt.TDiv(a.v, b.v)
                    return SV("int", v, null)
                safe_b = Ite(zero, 1, b.v)
                v = smt.TRem(a.v, safe_b) if op == "%" else smt.TDiv(a.v, safe_b)
                return SV("int", v, Or(null, zero))
            if op == "//":
                raise SqlOutside("// on DOUBLE")
            if not is_sym(a.v) and not is_sym(b.v):
                fa, fb = Fraction(a.v), Fraction(b.v)
                if fb == 0:
                    bad = And(self.guard(), Not(null))
                    if is_sym(bad) or bad:
                        self.outs.append((bad, "DOUBLE % 0 = nan"))
                    return SV("num", Fraction(0), null)
                return SV("num", fa - fb * math.trunc(fa / fb), null)
            self.decls.fun("duck_fmod", (REAL, REAL), REAL)
            return SV("num", T(REAL, f"(duck_fmod {rterm(a.v).sx} {rterm(b.v).sx})"), null)
        raise SqlOutside(f"arithmetic operator {op}")

    def ev_Neg(self, e: exp.Neg, env: Dict[str, SV]) -> SV:
        a = self.eval(e.this, env)
        if a.sort == "null":
            return NULL
        if a.sort == "int":
            return SV("int", Neg(a.v), a.null)
        if a.sort == "num":
            return SV("num", RSub(0, a.v), a.null)
        raise SqlOutside(f"unary minus on {a.sort}")

    def ev_Abs(self, e: exp.Abs, env: Dict[str, SV]) -> SV:
        a = self.eval(e.this, env)
        if a.sort == "null":
            return NULL
        if a.sort == "int":
            return SV("int", Ite(Ge(a.v, 0), a.v, Neg(a.v)), a.null)
        if a.sort == "num":
            return SV("num", RIte(RLt(a.v, 0), RSub(0, a.v), a.v), a.null)
        raise SqlOutside(f"ABS of {a.sort}")

    @staticmethod
    def _floor(v: Any) -> Any:
        if not is_sym(v):
            return math.floor(Fraction(v))
        return T(INT, f"(to_int {rterm(v).sx})")

    def _floor_ceil(self, e: Any, env: Dict[str, SV], ceil: bool) -> SV:
        a = self.eval(e.this, env)
        if a.sort == "null":
            return NULL
        if a.sort == "int":
            return a
        if a.sort != "num":
            raise SqlOutside(f"CEIL/FLOOR of {a.sort}")
        if ceil:
            return SV("int", Neg(self._floor(RSub(0, a.v))), a.null)
        return SV("int", self._floor(a.v), a.null)

    def ev_Ceil(self, e: exp.Ceil, env: Dict[str, SV]) -> SV:
        return self._floor_ceil(e, env, True)

    def ev_Floor(self, e: exp.Floor, env: Dict[str, SV]) -> SV:
        return self._floor_ceil(e, env, False)

    # uninterpreted numeric functions: NULL-strictness and domain errors only -------------------------------------------
    def _ufun(self, name: str, args: Sequence[Any], py: Any) -> Any:
        if all(not is_sym(x) for x in args):
            try:
                r = py(*[float(Fraction(x)) for x in args])
                if isinstance(r, complex) or math.isnan(r) or math.isinf(r):
                    raise OverflowError
                return Fraction(r)
            except (OverflowError, ValueError, ZeroDivisionError):
                self.outs.append((self.guard(), f"{name}: inf / nan result"))
                return Fraction(0)
        self.decls.fun(name, tuple(REAL for _ in args), REAL)
        return T(REAL, f"({name} {' '.join(rterm(x).sx for x in args)})")

    def _domain_error(self, cond: Any, null: Any, msg: str) -> None:
        c = And(self.guard(), Not(null), cond)
        if is_sym(c) or c:
            self.errors.append((c, msg))

    def _numeric(self, a: SV, what: str) -> SV:
        if a.sort not in ("int", "num", "null"):
            raise SqlOutside(f"{what} of {a.sort}")
        return a

    def ev_Ln(self, e: exp.Ln, env: Dict[str, SV]) -> SV:
        a = self._numeric(self.eval(e.this, env), "LN")
        if a.sort == "null":
            return NULL
        self._domain_error(RLe(a.v, 0), a.null, "Out of Range Error: cannot take logarithm of zero / a negative number")
        safe = a.v if is_sym(a.v) or Fraction(a.v) > 0 else Fraction(1)
        return SV("num", self._ufun("duck_ln", [safe], math.log), a.null)

    def ev_Exp(self, e: exp.Exp, env: Dict[str, SV]) -> SV:
        a = self._numeric(self.eval(e.this, env), "EXP")
        if a.sort == "null":
            return NULL
        return SV("num", self._ufun("duck_exp", [a.v], math.exp), a.null)

    def ev_Sqrt(self, e: exp.Sqrt, env: Dict[str, SV]) -> SV:
        a = self._numeric(self.eval(e.this, env), "SQRT")
        if a.sort == "null":
            return NULL
        self._domain_error(RLt(a.v, 0), a.null, "Out of Range Error: cannot take square root of a negative number")
        safe = a.v if is_sym(a.v) or Fraction(a.v) >= 0 else Fraction(0)
        return SV("num", self._ufun("duck_sqrt", [safe], math.sqrt), a.null)

    def ev_Pow(self, e: exp.Pow, env: Dict[str, SV]) -> SV:
        a, b = self._numeric(self.eval(e.this, env), "POWER"), self._numeric(self.eval(e.expression, env), "POWER")
        if a.sort == "null" or b.sort == "null":
            return NULL
        return SV("num", self._ufun("duck_pow", [a.v, b.v], lambda x, y: x ** y), Or(a.null, b.null))

    def ev_Log(self, e: exp.Log, env: Dict[str, SV]) -> SV:
        if e.expression is None:
            raise SqlOutside("LOG with one argument")
        b, x = self._numeric(self.eval(e.this, env), "LOG"), self._numeric(self.eval(e.expression, env), "LOG")
        if b.sort == "null" or x.sort == "null":
            return NULL
        null = Or(b.null, x.null)
        self._domain_error(Or(RLe(b.v, 0), RLe(x.v, 0)), null,
                           "Out of Range Error: cannot take logarithm of zero / a negative number")
        self._domain_error(REq(b.v, 1), null, "Out of Range Error: divison by zero in based logarithm")
        conc = not is_sym(b.v) and not is_sym(x.v)
        if conc and (Fraction(b.v) <= 0 or Fraction(x.v) <= 0 or Fraction(b.v) == 1):
            return SV("num", Fraction(0), null)
        return SV("num", self._ufun("duck_log", [b.v, x.v], lambda bb, xx: math.log(xx) / math.log(bb)), null)

    def _round_trunc(self, e: Any, env: Dict[str, SV], name: str) -> SV:
        a = self._numeric(self.eval(e.this, env), name)
        d = self.eval(e.args["decimals"], env) if e.args.get("decimals") is not None else sv_int(0)
        if a.sort == "null" or d.sort == "null":
            return NULL
        if d.sort != "int":
            raise SqlOutside(f"{name} with a precision of sort {d.sort}")
        null = Or(a.null, d.null)
        if not is_sym(a.v) and not is_sym(d.v):
            f = _round_half_away if name == "ROUND" else _trunc_to
            return SV("num", f(Fraction(a.v), int(d.v)), null)
        self.decls.fun(f"duck_{name.lower()}", (REAL, INT), REAL)
        return SV("num", T(REAL, f"(duck_{name.lower()} {rterm(a.v).sx} {smt.lit(d.v)})"), null)

    def ev_Round(self, e: exp.Round, env: Dict[str, SV]) -> SV:
        return self._round_trunc(e, env, "ROUND")

    def ev_Trunc(self, e: Any, env: Dict[str, SV]) -> SV:
        return self._round_trunc(e, env, "TRUNC")

    def cast(self, a: SV, to: exp.DataType, try_cast: bool, env: Dict[str, SV]) -> SV:
        t = to.sql(dialect="duckdb").upper()
        if a.sort == "null":
            return NULL
        if t in ("DOUBLE", "FLOAT", "REAL") and a.sort in ("int", "num"):
            return SV("num", a.v, a.null)
        if t in ("INT", "INTEGER", "BIGINT") and a.sort == "int":
            return a
        if t in ("INT", "INTEGER", "BIGINT") and a.sort == "num":
            from .sqlcast import r_round_int
            return SV("int", r_round_int(rterm(a.v) if is_sym(a.v) else Fraction(a.v)), a.null)
        if t in ("TEXT", "VARCHAR") and a.sort in ("atom", "str"):
            return a
        if t == "BOOLEAN" and a.sort == "bool":
            return a
        if a.sort in ("atom", "num", "bool"):
            raise SqlOutside(f"CAST({a.sort} AS {t})")
        return super().cast(a, to, try_cast, env)

    def ev_RegexpFullMatch(self, e: Any, env: Dict[str, SV]) -> SV:
        a, b = self.eval(e.this, env), self.eval(e.expression, env)
        if a.sort == "null" or b.sort == "null":
            return SV("bool", False, True)
        if a.sort != "atom" or b.sort != "atom":
            raise SqlOutside("regexp_full_match outside the opaque-string reading")
        if not is_sym(a.v) and not is_sym(b.v) and not is_sym(a.null) and not is_sym(b.null) and not a.null and not b.null:
            raise SqlOutside("regexp_full_match on concrete strings (regular expressions are not modelled)")
        self.decls.fun("duck_rematch", (INT, INT), BOOL)
        return SV("bool", T(BOOL, f"(duck_rematch {smt.lit(a.v)} {smt.lit(b.v)})"), Or(a.null, b.null))

    # -- strings as character vectors ------------------------------------------------------------------------------------
    def _cstr(self, a: SV, what: str) -> SV:
        if a.sort == "null":
            return a
        if a.sort != "str":
            raise SqlOutside(f"{what} on a value of sort {a.sort} (needs the character-vector reading)")
        return a

    def ev_Length(self, e: exp.Length, env: Dict[str, SV]) -> SV:
        a = self._cstr(self.eval(e.this, env), "LENGTH")
        if a.sort == "null":
            return SV("int", 0, True)
        return SV("int", len(a.v), a.null)

    def ev_Upper(self, e: exp.Upper, env: Dict[str, SV]) -> SV:
        a = self._cstr(self.eval(e.this, env), "UPPER")
        if a.sort == "null":
            return a
        out = []
        for c in a.v.chars:
            if isinstance(c, int):
                if c >= 128:
                    raise SqlOutside("UPPER of a non-ASCII character")
                out.append(ord(chr(c).upper()))
            else:
                out.append(Ite(And(Ge(c, 97), Le(c, 122)), Sub(c, 32), c))
        return SV("str", CStr(out), a.null)

    def ev_Lower(self, e: exp.Lower, env: Dict[str, SV]) -> SV:
        a = self._cstr(self.eval(e.this, env), "LOWER")
        if a.sort == "null":
            return a
        out = []
        for c in a.v.chars:
            if isinstance(c, int):
                if c >= 128:
                    raise SqlOutside("LOWER of a non-ASCII character")
                out.append(ord(chr(c).lower()))
            else:
                out.append(Ite(And(Ge(c, 65), Le(c, 90)), smt.Add(c, 32), c))
        return SV("str", CStr(out), a.null)

    def ev_Trim(self, e: exp.Trim, env: Dict[str, SV]) -> SV:
        if e.args.get("expression") is not None:
            raise SqlOutside("TRIM with a character set")
        a = self._cstr(self.eval(e.this, env), "TRIM")
        if a.sort == "null":
            return a
        pos = str(e.args.get("position") or "BOTH").upper()
        chars = list(a.v.chars)
        if pos in ("BOTH", "LEADING"):
            while chars and self.decide(Eq(chars[0], 32)):
                chars.pop(0)
        if pos in ("BOTH", "TRAILING"):
            while chars and self.decide(Eq(chars[-1], 32)):
                chars.pop()
        return SV("str", CStr(chars), a.null)

    def _pick_int(self, v: Any, lo: int, hi: int, what: str) -> int:
        """Concrete value of an integer in lo..hi (fork), `hi` standing for every value >= hi; below lo leaves the model."""
        if not is_sym(v):
            if v < lo:
                raise SqlOutside(f"{what} < {lo}")
            return min(v, hi)
        conds = [Eq(v, k) for k in range(lo, hi)] + [Ge(v, hi), Lt(v, lo)]
        i = self.choose(conds)
        if i == len(conds) - 1:
            raise SqlOutside(f"{what} < {lo}")
        return lo + i

    def ev_Substring(self, e: exp.Substring, env: Dict[str, SV]) -> SV:
        a = self._cstr(self.eval(e.this, env), "SUBSTR")
        st = self.eval(e.args["start"], env)
        ln = self.eval(e.args["length"], env) if e.args.get("length") is not None else None
        if a.sort == "null" or st.sort == "null" or (ln is not None and ln.sort == "null"):
            return SV("str", CStr([]), True)
        if st.sort != "int" or (ln is not None and ln.sort != "int"):
            raise SqlOutside("SUBSTR position of a non-integer sort")
        n = len(a.v)
        null = Or(a.null, st.null, ln.null if ln is not None else False)
        if not is_sym(null) and null:
            return SV("str", CStr([]), True)
        s = self._pick_int(st.v, 1, n + 1, "SUBSTR start")
        k = n if ln is None else self._pick_int(ln.v, 0, n, "SUBSTR length")
        return SV("str", CStr(a.v.chars[s - 1: s - 1 + k]), null)

    def ev_Bracket(self, e: exp.Bracket, env: Dict[str, SV]) -> SV:
        a = self._cstr(self.eval(e.this, env), "slice")
        if len(e.expressions) != 1 or not isinstance(e.expressions[0], exp.Slice) or e.expressions[0].expression is not None:
            raise SqlOutside("subscript other than s[k:]")
        st = self.eval(e.expressions[0].this, env)
        if a.sort == "null" or st.sort == "null":
            return SV("str", CStr([]), True)
        s = self._pick_int(st.v, 1, len(a.v) + 1, "slice start")
        return SV("str", CStr(a.v.chars[s - 1:]), Or(a.null, st.null))

    def _match_at(self, s: List[Any], i: int, p: List[Any]) -> Any:
        return And(*[Eq(s[i + j], p[j]) for j in range(len(p))])

    def ev_StrPosition(self, e: exp.StrPosition, env: Dict[str, SV]) -> SV:
        a, p = self._cstr(self.eval(e.this, env), "INSTR"), self._cstr(self.eval(e.args["substr"], env), "INSTR")
        if a.sort == "null" or p.sort == "null":
            return SV("int", 0, True)
        s, pt = a.v.chars, p.v.chars
        null = Or(a.null, p.null)
        if not pt:
            return SV("int", 1, null)
        for i in range(0, len(s) - len(pt) + 1):
            if self.decide(self._match_at(s, i, pt)):
                return SV("int", i + 1, null)
        return SV("int", 0, null)

    def ev_Replace(self, e: Any, env: Dict[str, SV]) -> SV:
        a = self._cstr(self.eval(e.this, env), "REPLACE")
        p = self._cstr(self.eval(e.expression, env), "REPLACE")
        r = self._cstr(self.eval(e.args["replacement"], env), "REPLACE")
        if "null" in (a.sort, p.sort, r.sort):
            return SV("str", CStr([]), True)
        null = Or(a.null, p.null, r.null)
        s, pt = a.v.chars, p.v.chars
        if not pt:
            return SV("str", CStr(s), null)
        out: List[Any] = []
        i = 0
        while i <= len(s) - len(pt):
            if self.decide(self._match_at(s, i, pt)):
                out.extend(r.v.chars)
                i += len(pt)
            else:
                out.append(s[i])
                i += 1
        out.extend(s[i:])
        return SV("str", CStr(out), null)


# ----------------------------------------------------------------------------------------------------------------------
# typed operands
# ----------------------------------------------------------------------------------------------------------------------
PERIOD_WIDTH = {"A": 0, "S": 1, "Q": 1, "M": 2, "W": 2, "D": 3}
PERIOD_MAX = {"A": 1, "S": 2, "Q": 4, "M": 12, "W": 53, "D": 366}
DURATIONS = ("D", "W", "M", "Q", "S", "A")            # shortest to longest
DATE_LO, DATE_HI = -62_000_000_000_000_000, 250_000_000_000_000_000     # microseconds since 1970 (years ~5 .. ~9892)
DUCK_TYPE = {"Integer": "BIGINT", "Number": "DOUBLE", "Boolean": "BOOLEAN", "String": "VARCHAR", "Time_Period": "VARCHAR",
             "Duration": "VARCHAR", "Date": "TIMESTAMP"}


def period_text(y: int, ind: str, n: int) -> str:
    return f"{y:04d}A" if ind == "A" else f"{y:04d}-{ind}{n:0{PERIOD_WIDTH[ind]}d}"


@dataclass
class Operand:
    """One nullable operand of a VTL type.  kind: Integer | Number | Boolean | String (reading atom, or cstr of length
    `length`) | Time_Period (indicator `ind`) | Duration | Date.  `null`: None = symbolic flag, True / False = fixed."""
    name: str
    kind: str
    eng: ElemEngine
    reading: str = ""            # String: 'atom' | 'cstr'
    length: int = 0
    ind: str = ""
    null: Optional[bool] = None
    ascii_only: bool = False
    sv: SV = field(init=False)
    pre: List[Any] = field(init=False)
    vars: List[str] = field(init=False)

    def __post_init__(self) -> None:  # noqa: C901
        d, n = self.eng.decls, self.name
        self.pre, self.vars = [], []

        def const(suffix: str, sort: str) -> T:
            nm = f"{n}_{suffix}"
            self.vars.append(nm)
            return d.const(nm, sort)
        nl: Any = self.null if self.null is not None else const("n", BOOL)
        if self.null is True:
            self.sv = NULL
            return
        k = self.kind
        if k == "Integer":
            self.sv = SV("int", const("i", INT), nl)
        elif k == "Number":
            self.sv = SV("num", const("r", REAL), nl)
        elif k == "Boolean":
            self.sv = SV("bool", const("b", BOOL), nl)
        elif k == "Date":
            v = const("t", INT)
            self.pre += [Ge(v, DATE_LO), Le(v, DATE_HI)]
            self.sv = SV("int", v, nl)
        elif k == "Duration":
            v = const("s", INT)
            self.pre.append(Or(*[Eq(v, self.eng.code(x)) for x in DURATIONS]))
            self.sv = SV("atom", v, nl)
        elif k == "String" and self.reading == "atom":
            v = const("s", INT)
            self.pre.append(Ge(v, 0))
            self.sv = SV("atom", v, nl)
        elif k == "String":
            cs = [const(f"c{j}", INT) for j in range(self.length)]
            hi = 126 if self.ascii_only else 0xD7FF
            lo = 32 if self.ascii_only else 1
            for c in cs:
                self.pre += [Ge(c, lo), Le(c, hi)]
            self.sv = SV("str", CStr(cs), nl)
        elif k == "Time_Period":
            y = const("y", INT)
            self.pre += [Ge(y, 1000), Le(y, 9999)]
            if self.ind == "A":
                chars = digits_of(y, 4) + [ord("A")]
            else:
                p = const("p", INT)
                w = PERIOD_WIDTH[self.ind]
                self.pre += [Ge(p, 1), Le(p, PERIOD_MAX[self.ind])]
                chars = digits_of(y, 4) + [ord("-"), ord(self.ind)] + digits_of(p, w)
            self.sv = SV("str", CStr(chars), nl)
        else:
            raise ValueError(k)

    # -- python value <-> SV / SQL -----------------------------------------------------------------------------------------
    def decode(self, model: Dict[str, str]) -> Any:
        """Python value of this operand in a solver model (None = NULL)."""
        from .sqlcast import smt_real
        n = self.name
        if self.null is True:
            return None
        if self.null is None and core.smt_bool(model[f"{n}_n"]):
            return None
        k = self.kind
        if k == "Integer":
            return core.smt_int(model[f"{n}_i"])
        if k == "Number":
            return smt_real(model[f"{n}_r"])
        if k == "Boolean":
            return core.smt_bool(model[f"{n}_b"])
        if k == "Date":
            return core.smt_int(model[f"{n}_t"])
        if k == "Duration":
            return self.eng.text_of(core.smt_int(model[f"{n}_s"]))
        if k == "String" and self.reading == "atom":
            c = core.smt_int(model[f"{n}_s"])
            t = self.eng.text_of(c)
            return t if t is not None else f"s{c}"
        if k == "String":
            return "".join(chr(core.smt_int(model[f"{n}_c{j}"])) for j in range(self.length))
        y = core.smt_int(model[f"{n}_y"])
        p = 1 if self.ind == "A" else core.smt_int(model[f"{n}_p"])
        return period_text(y, self.ind, p)

    def concrete(self, value: Any) -> SV:
        """SV of a concrete python value of this operand's type (for evaluating model and specification on constants)."""
        if value is None:
            return NULL
        k = self.kind
        if k == "Integer" or k == "Date":
            return SV("int", int(value), False)
        if k == "Number":
            return SV("num", Fraction(value), False)
        if k == "Boolean":
            return SV("bool", bool(value), False)
        if k == "Duration" or (k == "String" and self.reading == "atom"):
            return SV("atom", self.eng.code(value), False)
        return SV("str", CStr.lit(value), False)

    def sql_literal(self, value: Any) -> str:
        ty = DUCK_TYPE[self.kind]
        if value is None:
            return f"CAST(NULL AS {ty})"
        k = self.kind
        if k == "Integer":
            return f"CAST({int(value)} AS BIGINT)"
        if k == "Number":
            fr = Fraction(value)
            if fr.denominator == 1:
                return f"CAST({fr.numerator} AS DOUBLE)"
            return f"(CAST({fr.numerator} AS DOUBLE) / CAST({fr.denominator} AS DOUBLE))"
        if k == "Boolean":
            return "TRUE" if value else "FALSE"
        if k == "Date":
            return f"make_timestamp(CAST({int(value)} AS BIGINT))"
        body = "".join(c if 32 <= ord(c) < 127 and c != "'" else f"' || chr({ord(c)}) || '" for c in str(value))
        return f"CAST(('{body}') AS VARCHAR)"


def native(sql: str, operands: Sequence[Operand], values: Sequence[Any]) -> Tuple[str, Any]:
    """The SAME template text executed by the real DuckDB on one row holding the concrete operands."""
    from . import sqlconf
    con = sqlconf.conn()
    cols = ", ".join(f'{o.sql_literal(v)} AS "{o.name}"' for o, v in zip(operands, values))
    try:
        r = con.execute(f"SELECT {sql} AS r FROM (SELECT {cols}) AS t").fetchone()[0]
        return ("value", r)
    except Exception as e:  # noqa: BLE001
        return ("error", str(e).split("\n")[0])


def native_sv(res: Tuple[str, Any], eng: ElemEngine, want_atom: bool) -> Outcome:
    """DuckDB's answer as an Outcome over concrete values."""
    kind, r = res
    if kind == "error":
        return Outcome([], NULL, [(True, str(r))], [])
    if r is None:
        return Outcome([], NULL)
    if isinstance(r, bool):
        return Outcome([], SV("bool", r, False))
    if isinstance(r, int):
        return Outcome([], SV("int", r, False))
    if isinstance(r, (float, Decimal)):
        f = float(r)
        if math.isnan(f) or math.isinf(f):
            return Outcome([], SV("nan", str(f), False))
        return Outcome([], SV("num", Fraction(r), False))
    if isinstance(r, str):
        return Outcome([], SV("atom", eng.code(r), False) if want_atom else SV("str", CStr.lit(r), False))
    import datetime
    if isinstance(r, datetime.datetime):          # Date operands are microseconds since 1970-01-01
        d = r - datetime.datetime(1970, 1, 1)
        return Outcome([], SV("int", (d.days * 86400 + d.seconds) * 1_000_000 + d.microseconds, False))
    return Outcome([], SV("other", repr(r), False))
