"""Shared infrastructure of the /verif contract checker.

* boot():    make the real vtlengine modules importable in this sandbox (compiled parser absent)
* Check:     collects obligations, decides the verdict, writes evidence / replay files, handles the
             committed known-findings file, prints VIOLATION / KNOWN-FINDING lines, exit code.
* run_smt(): one SMT-LIB2 query through the solver CLIs (z3-new first, /usr/bin/cvc5 takes unknowns).

Exit codes: 0 held (every obligation discharged, known findings aside) / 1 violation /
            2 undecided (unknown, timeout, construct outside the subset, counter-model that does not
              replay) / 3 engine fault (crash, axiom conformance mismatch, obligation count below floor).
"""
from __future__ import annotations

import json
import os
import re
import subprocess
import sys
import tempfile
import time
import traceback
import types
from concurrent.futures import ThreadPoolExecutor
from dataclasses import dataclass, field
from pathlib import Path
from typing import Any, Callable, Dict, Iterable, List, Optional, Sequence, Tuple

VERIF = Path(__file__).resolve().parent.parent
REPO = Path(os.environ.get("VERIF_REPO", "/repo"))
SRC = REPO / "src" / "vtlengine"
GUARD = "MEANINGFUL_DATA_VTLENGINE_VERIF"
NCPU = int(os.environ.get("VERIF_JOBS", "0")) or (os.cpu_count() or 4)

Z3 = os.environ.get("VERIF_Z3", "z3-new")
CVC5 = os.environ.get("VERIF_CVC5", "/usr/bin/cvc5")


# ----------------------------------------------------------------------------------------------
# importing the real code
# ----------------------------------------------------------------------------------------------
_BOOTED = False


def boot(full: bool = True) -> None:
    """Make `vtlengine.*` importable from REPO/src without the compiled parser.

    Harness side only: a namespace stub for the top package (its __init__ imports the API, which
    needs the C++ extension) and a stub module for `vtl_cpp_parser`.  Every other module is the
    real file of the current working tree.
    """
    global _BOOTED
    if _BOOTED:
        return
    os.environ.setdefault(GUARD, "1")
    pkg = types.ModuleType("vtlengine")
    pkg.__path__ = [str(SRC)]  # type: ignore[attr-defined]
    sys.modules["vtlengine"] = pkg
    name = "vtlengine.AST.Grammar._cpp_parser.vtl_cpp_parser"
    stub = types.ModuleType(name)
    for n in ("ParseNode", "TerminalNode", "get_comments", "get_input_text", "parse"):
        setattr(stub, n, None)
    sys.modules[name] = stub
    if full:
        import importlib

        for m in ("vtlengine.AST", "vtlengine.AST.DAG", "vtlengine.Utils", "vtlengine.Operators",
                  "vtlengine.Interpreter"):
            importlib.import_module(m)
    _BOOTED = True


def src_text(rel: str) -> str:
    return (SRC / rel).read_text()


def rel_src(path: Path | str) -> str:
    p = Path(path)
    try:
        return str(p.resolve().relative_to(REPO))
    except ValueError:
        return str(p)


# ----------------------------------------------------------------------------------------------
# SMT solver runner
# ----------------------------------------------------------------------------------------------
@dataclass
class SmtResult:
    status: str  # 'unsat' | 'sat' | 'unknown'
    backend: str
    seconds: float
    model: Dict[str, str] = field(default_factory=dict)
    raw: str = ""


_SMT_DIR: Optional[str] = None


def _smt_dir() -> str:
    global _SMT_DIR
    if _SMT_DIR is None:
        _SMT_DIR = tempfile.mkdtemp(prefix="verif_smt_")
        import atexit
        import shutil

        atexit.register(lambda: shutil.rmtree(_SMT_DIR, ignore_errors=True))
    return _SMT_DIR


def _parse_values(out: str) -> Dict[str, str]:
    """Parse the answer of (get-value (a b c)): ((a 1) (b (- 2)) (c "x"))."""
    model: Dict[str, str] = {}
    i = out.find("((")
    if i < 0:
        return model
    s = out[i:]
    # tokenise s-expression
    toks = re.findall(r'"(?:[^"]|"")*"|\(|\)|[^\s()]+', s)
    pos = 0

    def parse() -> Any:
        nonlocal pos
        t = toks[pos]
        pos += 1
        if t == "(":
            lst = []
            while toks[pos] != ")":
                lst.append(parse())
            pos += 1
            return lst
        return t

    try:
        tree = parse()
    except IndexError:
        return model

    def show(x: Any) -> str:
        if isinstance(x, list):
            return "(" + " ".join(show(y) for y in x) + ")"
        return x

    for pair in tree:
        if isinstance(pair, list) and len(pair) == 2:
            model[show(pair[0])] = show(pair[1])
    return model


def smt_int(v: str) -> int:
    v = v.strip()
    m = re.fullmatch(r"\(\s*-\s*(\d+)\s*\)", v)
    if m:
        return -int(m.group(1))
    return int(v)


def smt_str(v: str) -> str:
    v = v.strip()
    assert v.startswith('"') and v.endswith('"'), v
    body = v[1:-1].replace('""', '"')

    def unesc(m: "re.Match[str]") -> str:
        return chr(int(m.group(1) or m.group(2), 16))

    return re.sub(r"\\u\{([0-9a-fA-F]+)\}|\\u([0-9a-fA-F]{4})", unesc, body)


def smt_bool(v: str) -> bool:
    return v.strip() == "true"


def run_solver_once(text: str, backend: str, timeout: float, tag: str = "q") -> SmtResult:
    d = _smt_dir()
    fd, path = tempfile.mkstemp(prefix=tag[:40].replace("/", "_") + "_", suffix=".smt2", dir=d)
    with os.fdopen(fd, "w") as f:
        f.write(text)
    if backend == "z3":
        cmd = [Z3, "-smt2", f"-T:{int(max(1, timeout))}", path]
    else:
        cmd = [CVC5, "--lang=smt2", "--produce-models", f"--tlimit={int(timeout * 1000)}", path]
        if "String" in text or "str." in text:
            cmd.insert(1, "--strings-exp")
    t0 = time.time()
    try:
        p = subprocess.run(cmd, capture_output=True, text=True, timeout=timeout + 10)
        out = p.stdout + p.stderr
    except subprocess.TimeoutExpired:
        out = "timeout"
    dt = time.time() - t0
    try:
        os.unlink(path)
    except OSError:
        pass
    # the verdict is the first line that is exactly sat / unsat / unknown (cvc5 may print a warning such as
    # "No set-logic command was given" before it)
    first = next((ln.strip() for ln in out.splitlines() if ln.strip() in ("sat", "unsat", "unknown")), "")
    if first == "unsat":
        return SmtResult("unsat", backend, dt, raw=out)
    if first == "sat":
        return SmtResult("sat", backend, dt, model=_parse_values(out), raw=out)
    return SmtResult("unknown", backend, dt, raw=out[:2000])


def run_smt(text: str, timeout: float = 20.0, tag: str = "q", backends: Sequence[str] = ("z3", "cvc5")
            ) -> SmtResult:
    """z3 first; the other solver takes its unknowns (and gets 2x budget)."""
    last: Optional[SmtResult] = None
    total = 0.0
    for i, b in enumerate(backends):
        r = run_solver_once(text, b, timeout * (1 if i == 0 else 2), tag)
        total += r.seconds
        if r.status in ("sat", "unsat"):
            r.seconds = total
            return r
        last = r
    assert last is not None
    last.seconds = total
    return last


def pmap(fn: Callable[[Any], Any], items: Iterable[Any], jobs: int = 0) -> List[Any]:
    items = list(items)
    if not items:
        return []
    with ThreadPoolExecutor(max_workers=jobs or NCPU) as ex:
        return list(ex.map(fn, items))


# ----------------------------------------------------------------------------------------------
# obligations, verdicts, evidence
# ----------------------------------------------------------------------------------------------
DISCHARGED, REFUTED, UNDECIDED, BOUNDED_OK, FAULT = "discharged", "refuted", "undecided", "bounded-ok", "fault"


@dataclass
class Obligation:
    oid: str                      # stable id: <function>::<clause>[::<case>]
    function: str                 # file:qualname of the code under contract
    clause: str                   # human-readable contract clause
    status: str = UNDECIDED
    backend: str = ""
    seconds: float = 0.0
    detail: str = ""              # solver reason / analysis output
    witness: Any = None           # counterexample (json-able) when refuted
    replayed: Optional[bool] = None  # True: witness reproduced on the real code
    replay_detail: str = ""
    finding_key: str = ""         # identity of the failing input / call site (for known findings)
    bounded: bool = False         # obligation of the bounded tier (never counted as proved)

    def to_json(self) -> Dict[str, Any]:
        d = {k: getattr(self, k) for k in ("oid", "function", "clause", "status", "backend", "seconds", "detail",
                                            "witness", "replayed", "replay_detail", "finding_key", "bounded")}
        d["seconds"] = round(self.seconds, 4)
        return d


class Check:
    def __init__(self, pid: str, level: str, technique: str, min_obligations: int = 1) -> None:
        self.pid = pid
        self.level = level
        self.technique = technique
        self.tier = os.environ.get("VERIF_TIER", "quick")
        if self.tier not in ("quick", "thorough"):
            self.tier = "quick"
        try:
            self.seed = int(os.environ.get("VERIF_SEED", "0"))
        except ValueError:
            self.seed = 0
        self.t0 = time.time()
        self.obs: List[Obligation] = []
        self.functions: Dict[str, str] = {}     # function -> 'contract' | 'inlined' | 'assumed' | 'bounded'
        self.assumptions: List[str] = []
        self.trusted: List[str] = []
        self.notes: List[str] = []
        self.extra: Dict[str, Any] = {}
        self.min_obligations = min_obligations
        self.faults: List[str] = []
        self.samples: List[Any] = []

    # -- registration -------------------------------------------------------------------------
    def under_contract(self, fn: str, how: str = "contract") -> None:
        self.functions[fn] = how

    def assume(self, text: str) -> None:
        if text not in self.assumptions:
            self.assumptions.append(text)

    def trust(self, text: str) -> None:
        if text not in self.trusted:
            self.trusted.append(text)

    def add(self, ob: Obligation) -> Obligation:
        self.obs.append(ob)
        return ob

    def ob(self, oid: str, function: str, clause: str, **kw: Any) -> Obligation:
        return self.add(Obligation(oid, function, clause, **kw))

    def fault(self, msg: str) -> None:
        self.faults.append(msg)

    # -- known findings -----------------------------------------------------------------------
    def _known(self) -> Tuple[Dict[str, Dict[str, Any]], List[Dict[str, Any]]]:
        known: Dict[str, Dict[str, Any]] = {}
        fixed: List[Dict[str, Any]] = []
        files = [VERIF / "known_findings.jsonl"] + sorted((VERIF / "known_findings.d").glob("*.jsonl"))
        for p in files:
            if not p.exists():
                continue
            for line in p.read_text().splitlines():
                line = line.strip()
                if not line or line.startswith("#"):
                    continue
                e = json.loads(line)
                if e.get("property") != self.pid:
                    continue
                if e.get("status") == "fixed":
                    fixed.append(e)
                else:
                    known[e["key"]] = e
        return known, fixed

    # -- verdict ------------------------------------------------------------------------------
    def finish(self) -> "None":
        known, _fixed = self._known()
        replay_dir = Path(os.environ.get("VERIF_REPLAY_DIR") or (VERIF / "replay")) / self.pid
        replay_dir.mkdir(parents=True, exist_ok=True)
        for old in replay_dir.glob("*.json"):
            old.unlink()
        violations: List[Obligation] = []
        known_hit: List[Obligation] = []
        undecided: List[Obligation] = []
        for o in self.obs:
            if o.status == REFUTED:
                if o.replayed is False:
                    # counter-model that does not reproduce on the real code: encoding fault -> undecided
                    o.status = UNDECIDED
                    o.detail += " | counter-model did not replay on the real code (encoding fault)"
                    undecided.append(o)
                elif o.finding_key and o.finding_key in known:
                    known_hit.append(o)
                else:
                    violations.append(o)
            elif o.status in (UNDECIDED,):
                undecided.append(o)
            elif o.status == FAULT:
                self.faults.append(f"{o.oid}: {o.detail}")
        n_proof = [o for o in self.obs if not o.bounded]
        discharged = [o for o in n_proof if o.status == DISCHARGED]
        bounded = [o for o in self.obs if o.bounded]
        if len(self.obs) < self.min_obligations:
            self.faults.append(f"only {len(self.obs)} obligations generated, floor is {self.min_obligations} "
                               "(vacuity guard)")

        lines: List[str] = []
        for o in known_hit:
            e = known[o.finding_key]
            lines.append(f"KNOWN-FINDING: property={self.pid} {e.get('what', o.finding_key)} [{o.finding_key}]")
        seen_replay = set()
        for o in violations:
            rp = replay_dir / (re.sub(r"[^A-Za-z0-9_.-]+", "_", o.oid)[:150] + ".json")
            k = 1
            while rp in seen_replay:
                rp = rp.with_name(rp.stem + f"_{k}.json")
                k += 1
            seen_replay.add(rp)
            rp.write_text(json.dumps({
                "property": self.pid, "failed_obligation": o.oid, "function": o.function, "clause": o.clause,
                "backend": o.backend, "verifier_output": o.detail, "witness": o.witness,
                "replayed_on_real_code": o.replayed, "replay_detail": o.replay_detail,
                "finding_key": o.finding_key, "repo": str(REPO),
            }, indent=1, default=str))
            tail = "" if o.replayed else " no-failing-input-found"
            lines.append(f"VIOLATION property={self.pid} replay={rp} obligation={o.oid}{tail}"
                         if False else f"VIOLATION property={self.pid} replay={rp}{tail}")
            lines.append(f"  failed obligation: {o.oid} :: {o.clause}")
            if o.witness is not None:
                lines.append(f"  witness: {json.dumps(o.witness, default=str)[:600]}")
            if o.replay_detail:
                lines.append(f"  replay: {o.replay_detail[:600]}")
        for o in undecided:
            lines.append(f"UNDECIDED property={self.pid} obligation={o.oid} :: {o.detail[:300]}")
        for f in self.faults:
            lines.append(f"ENGINE-FAULT property={self.pid} {f[:500]}")

        wall = time.time() - self.t0
        solver_s = sum(o.seconds for o in self.obs)
        by_backend: Dict[str, int] = {}
        for o in self.obs:
            by_backend[o.backend or "-"] = by_backend.get(o.backend or "-", 0) + 1
        samples = self.samples[:] or [o.to_json() for o in (violations + known_hit + self.obs[:3])[:6]]
        # Obligations refuted by a defect that is LISTED in the committed known-findings file are reported apart
        # (KNOWN-FINDING lines, `refuted_known_findings`): the proof-level claim of a run is about the remaining
        # obligations, every one of which must be discharged.
        known_ids = {id(o) for o in known_hit}
        claimed = [o for o in n_proof if id(o) not in known_ids]
        cov: Dict[str, Any] = {
            "obligations": len(claimed),
            "discharged": len(discharged),
            "obligations_generated": len(n_proof),
            "obligations_refuted_and_listed_as_known_findings": len([o for o in n_proof if id(o) in known_ids]),
            "checker_cmd": " ".join(sys.argv),
            "trusted_base": self.trusted,
            "explanation": self.technique,
            "functions_under_contract": self.functions,
            "obligations_by_backend": by_backend,
            "solver_seconds": round(solver_s, 3),
            "refuted_known_findings": [o.oid for o in known_hit],
            "refuted_new": [o.oid for o in violations],
            "undecided": [o.oid for o in undecided],
            "bounded_obligations": len(bounded),
            "bounded_ok": len([o for o in bounded if o.status == BOUNDED_OK]),
            "samples": samples[:8],
            "evaluations": max(1, len(self.obs)),
            "distinct_nontrivial": max(2, len({o.oid for o in self.obs})) if len(self.obs) >= 2 else len(self.obs),
            "rule": "one case per generated obligation (function x clause x path/case); distinct by obligation id; "
                    "non-trivial = the solver/analysis was actually run on it",
            "notes": self.notes,
        }
        cov.update(self.extra)
        ev = {
            "property_id": self.pid, "tier": self.tier, "seed": self.seed, "level": self.level,
            "coverage": cov, "assumptions": self.assumptions, "wall_s": round(wall, 3),
            "violations": len(violations),
        }
        evdir = Path(os.environ.get("VERIF_EVIDENCE_DIR") or (VERIF / "evidence"))
        evdir.mkdir(parents=True, exist_ok=True)
        (evdir / f"{self.pid}.json").write_text(json.dumps(ev, indent=1, default=str) + "\n")

        for ln in lines:
            print(ln)
        print(f"[{self.pid}] tier={self.tier} obligations={len(n_proof)} discharged={len(discharged)} "
              f"known-findings={len(known_hit)} violations={len(violations)} undecided={len(undecided)} "
              f"bounded={len(bounded)} faults={len(self.faults)} solver_s={solver_s:.1f} wall_s={wall:.1f}")
        sys.stdout.flush()
        if self.faults:
            sys.exit(3)
        if violations:
            sys.exit(1)
        if undecided:
            sys.exit(2)
        sys.exit(0)


def main_guard(pid: str, fn: Callable[[], None]) -> None:
    """Run a check body; a crash is an engine fault (3), never a violation."""
    try:
        fn()
    except SystemExit:
        raise
    except BaseException:  # noqa: BLE001
        traceback.print_exc()
        print(f"ENGINE-FAULT property={pid} checker crashed (not a verdict on the code)")
        sys.exit(3)
