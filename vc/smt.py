"""Term layer shared by the VC generators.

A value is either a concrete Python value (int, bool, str, None, ...) or a `T` (SMT term with a sort).
Every constructor folds constants, so the same contract text evaluates to a Python bool on concrete values
(replay / run-time monitoring) and to an SMT term on symbolic ones (proof).
"""
from __future__ import annotations

import itertools
from dataclasses import dataclass
from typing import Any, Dict, Iterable, List, Optional, Sequence, Tuple

INT, BOOL, STR, REAL = "Int", "Bool", "String", "Real"


@dataclass(frozen=True)
class T:
    sort: str
    sx: str

    def __repr__(self) -> str:
        return f"T<{self.sort}:{self.sx[:80]}>"

    def __bool__(self) -> bool:  # guard against accidental use in python conditions
        raise TypeError(f"symbolic term used as a python bool: {self.sx[:80]}")


class Decls:
    """Declarations needed by a query (consts, functions, datatypes, axioms)."""

    def __init__(self) -> None:
        self.consts: Dict[str, str] = {}
        self.funs: Dict[str, Tuple[Tuple[str, ...], str]] = {}
        self.defs: Dict[str, str] = {}       # define-fun text by name (ordered)
        self.axioms: List[str] = []
        self.counter = itertools.count()

    def const(self, name: str, sort: str) -> T:
        prev = self.consts.get(name)
        assert prev in (None, sort), (name, prev, sort)
        self.consts[name] = sort
        return T(sort, q(name))

    def fresh(self, base: str, sort: str) -> T:
        return self.const(f"{base}!{next(self.counter)}", sort)

    def fun(self, name: str, args: Sequence[str], ret: str) -> None:
        self.funs.setdefault(name, (tuple(args), ret))

    def define(self, name: str, text: str) -> None:
        self.defs.setdefault(name, text)

    def axiom(self, sx: str) -> None:
        if sx not in self.axioms:
            self.axioms.append(sx)

    def header(self, logic: Optional[str] = None) -> str:
        out = []
        if logic:
            out.append(f"(set-logic {logic})")
        for n, (a, r) in self.funs.items():
            out.append(f"(declare-fun {q(n)} ({' '.join(a)}) {r})")
        for n, txt in self.defs.items():
            out.append(txt)
        for n, s in self.consts.items():
            out.append(f"(declare-const {q(n)} {s})")
        for a in self.axioms:
            out.append(f"(assert {a})")
        return "\n".join(out)


def q(name: str) -> str:
    if all(c.isalnum() or c in "_.!$" for c in name) and not name[0].isdigit():
        return name
    return "|" + name + "|"


def is_sym(v: Any) -> bool:
    return isinstance(v, T)


def lit(v: Any) -> str:
    """SMT literal of a concrete python value."""
    if isinstance(v, T):
        return v.sx
    if isinstance(v, bool):
        return "true" if v else "false"
    if isinstance(v, int):
        return str(v) if v >= 0 else f"(- {-v})"
    if isinstance(v, str):
        out = []
        for ch in v:
            o = ord(ch)
            if ch == '"':
                out.append('""')
            elif 32 <= o < 127 and ch != "\\":
                out.append(ch)
            else:
                out.append("\\u{%x}" % o)
        return '"' + "".join(out) + '"'
    raise TypeError(f"no SMT literal for {v!r}")


def sort_of(v: Any) -> str:
    if isinstance(v, T):
        return v.sort
    if isinstance(v, bool):
        return BOOL
    if isinstance(v, int):
        return INT
    if isinstance(v, str):
        return STR
    raise TypeError(f"no SMT sort for {v!r}")


def app(sort: str, op: str, *args: Any) -> T:
    return T(sort, "(" + op + " " + " ".join(lit(a) for a in args) + ")")


# -- booleans -----------------------------------------------------------------------------------
def Not(a: Any) -> Any:
    if not is_sym(a):
        return not a
    if a.sx.startswith("(not ") and a.sx.endswith(")"):
        return T(BOOL, a.sx[5:-1])
    return app(BOOL, "not", a)


def And(*xs: Any) -> Any:
    flat: List[Any] = []
    for x in xs:
        if isinstance(x, (list, tuple)):
            flat.extend(x)
        else:
            flat.append(x)
    out = []
    for x in flat:
        if not is_sym(x):
            if not x:
                return False
            continue
        if x not in out:
            out.append(x)
    if not out:
        return True
    if len(out) == 1:
        return out[0]
    return app(BOOL, "and", *out)


def Or(*xs: Any) -> Any:
    flat: List[Any] = []
    for x in xs:
        if isinstance(x, (list, tuple)):
            flat.extend(x)
        else:
            flat.append(x)
    out = []
    for x in flat:
        if not is_sym(x):
            if x:
                return True
            continue
        if x not in out:
            out.append(x)
    if not out:
        return False
    if len(out) == 1:
        return out[0]
    return app(BOOL, "or", *out)


def Implies(a: Any, b: Any) -> Any:
    return Or(Not(a), b)


def Iff(a: Any, b: Any) -> Any:
    if not is_sym(a) and not is_sym(b):
        return bool(a) == bool(b)
    if not is_sym(a):
        return b if a else Not(b)
    if not is_sym(b):
        return a if b else Not(a)
    return app(BOOL, "=", a, b)


def Ite(c: Any, a: Any, b: Any) -> Any:
    if not is_sym(c):
        return a if c else b
    if not is_sym(a) and not is_sym(b) and type(a) is type(b) and a == b:
        return a
    s = sort_of(a)
    assert s == sort_of(b), (a, b)
    if s == BOOL:
        return Or(And(c, a), And(Not(c), b))
    return app(s, "ite", c, a, b)


def Eq(a: Any, b: Any) -> Any:
    if not is_sym(a) and not is_sym(b):
        return type(a) is type(b) and a == b if isinstance(a, bool) or isinstance(b, bool) else a == b
    sa, sb = sort_of(a), sort_of(b)
    if sa != sb:
        return False
    if sa == BOOL:
        return Iff(a, b)
    if is_sym(a) and is_sym(b) and a.sx == b.sx:
        return True
    return app(BOOL, "=", a, b)


def Ne(a: Any, b: Any) -> Any:
    return Not(Eq(a, b))


def Distinct(xs: Sequence[Any]) -> Any:
    return And(*[Ne(a, b) for i, a in enumerate(xs) for b in xs[i + 1:]])


# -- integers -----------------------------------------------------------------------------------
def _cmp(op: str, py: Any, a: Any, b: Any) -> Any:
    if not is_sym(a) and not is_sym(b):
        return py(a, b)
    return app(BOOL, op, a, b)


def Lt(a: Any, b: Any) -> Any:
    return _cmp("<", lambda x, y: x < y, a, b)


def Le(a: Any, b: Any) -> Any:
    return _cmp("<=", lambda x, y: x <= y, a, b)


def Gt(a: Any, b: Any) -> Any:
    return _cmp(">", lambda x, y: x > y, a, b)


def Ge(a: Any, b: Any) -> Any:
    return _cmp(">=", lambda x, y: x >= y, a, b)


def Add(a: Any, b: Any) -> Any:
    if not is_sym(a) and not is_sym(b):
        return a + b
    if not is_sym(b) and b == 0:
        return a
    if not is_sym(a) and a == 0:
        return b
    return app(sort_of(a) if is_sym(a) else sort_of(b), "+", a, b)


def Sub(a: Any, b: Any) -> Any:
    if not is_sym(a) and not is_sym(b):
        return a - b
    if not is_sym(b) and b == 0:
        return a
    return app(sort_of(a) if is_sym(a) else sort_of(b), "-", a, b)


def Neg(a: Any) -> Any:
    if not is_sym(a):
        return -a
    return app(a.sort, "-", a)


def Mul(a: Any, b: Any) -> Any:
    if not is_sym(a) and not is_sym(b):
        return a * b
    return app(sort_of(a) if is_sym(a) else sort_of(b), "*", a, b)


def FloorDiv(a: Any, b: Any) -> Any:
    """Python // on ints (floor).  SMT-LIB div rounds towards -inf only for positive divisors."""
    if not is_sym(a) and not is_sym(b):
        return a // b
    if not is_sym(b):
        if b > 0:
            return app(INT, "div", a, b)
        return app(INT, "div", Neg(a), -b)
    return Ite(Gt(b, 0), app(INT, "div", a, b), app(INT, "div", Neg(a), Neg(b)))


def Mod(a: Any, b: Any) -> Any:
    """Python % on ints (sign of the divisor)."""
    if not is_sym(a) and not is_sym(b):
        return a % b
    if not is_sym(b) and b > 0:
        return app(INT, "mod", a, b)
    return Sub(a, Mul(b, FloorDiv(a, b)))


def TDiv(a: Any, b: Any) -> Any:
    """Truncating integer division (C / SQL `//` in DuckDB)."""
    if not is_sym(a) and not is_sym(b):
        qv = abs(a) // abs(b)
        return qv if (a >= 0) == (b >= 0) else -qv
    if not is_sym(b) and b > 0:
        return Ite(Ge(a, 0), app(INT, "div", a, b), Neg(app(INT, "div", Neg(a), b)))
    absb = Ite(Ge(b, 0), b, Neg(b))
    qq = app(INT, "div", Ite(Ge(a, 0), a, Neg(a)), absb)
    return Ite(Iff(Ge(a, 0), Ge(b, 0)), qq, Neg(qq))


def TRem(a: Any, b: Any) -> Any:
    """Truncated remainder (sign of the dividend): a - b * tdiv(a, b)."""
    if not is_sym(a) and not is_sym(b):
        return a - b * TDiv(a, b)
    return Sub(a, Mul(b, TDiv(a, b)))


def Min(a: Any, b: Any) -> Any:
    return Ite(Le(a, b), a, b)


def Max(a: Any, b: Any) -> Any:
    return Ite(Ge(a, b), a, b)


# -- strings ------------------------------------------------------------------------------------
def Concat(*xs: Any) -> Any:
    parts: List[Any] = []
    for x in xs:
        if not is_sym(x) and parts and not is_sym(parts[-1]):
            parts[-1] = parts[-1] + x
        else:
            parts.append(x)
    parts = [p for p in parts if is_sym(p) or p != ""]
    if not parts:
        return ""
    if len(parts) == 1:
        return parts[0]
    return app(STR, "str.++", *parts)


def Len(a: Any) -> Any:
    if not is_sym(a):
        return len(a)
    return app(INT, "str.len", a)


def Substr(a: Any, start: Any, length: Any) -> Any:
    """SMT str.substr semantics (start >= 0)."""
    if not is_sym(a) and not is_sym(start) and not is_sym(length):
        if start < 0 or length <= 0 or start >= len(a):
            return ""
        return a[start:start + length]
    return app(STR, "str.substr", a, start, length)


def IntToStr(a: Any) -> Any:
    """Python str(int) (handles negatives; SMT str.from_int maps negatives to \"\")."""
    if not is_sym(a):
        return str(a)
    return Ite(Ge(a, 0), app(STR, "str.from_int", a), Concat("-", app(STR, "str.from_int", Neg(a))))


def InRe(a: Any, re_sx: str) -> Any:
    assert is_sym(a)
    return T(BOOL, f"(str.in_re {a.sx} {re_sx})")


_SHARE: Dict[str, T] = {}
_SHARE_DEFS: List[Tuple[str, str, str]] = []


def share(t: Any) -> Any:
    """Hash-consed let-binding: a large term is replaced by a defined name (emitted as define-fun by `query`), so that
    nested closed forms (calendar arithmetic) stay linear in size instead of duplicating sub-terms textually."""
    if not is_sym(t) or len(t.sx) < 48:
        return t
    hit = _SHARE.get(t.sx)
    if hit is not None:
        return hit
    name = f"$s{len(_SHARE_DEFS)}"
    _SHARE_DEFS.append((name, t.sort, t.sx))
    nt = T(t.sort, name)
    _SHARE[t.sx] = nt
    return nt


def _shared_defs(text: str) -> List[str]:
    import re
    need: set = set()
    todo = [int(m) for m in re.findall(r"\$s(\d+)", text)]
    while todo:
        i = todo.pop()
        if i in need:
            continue
        need.add(i)
        todo.extend(int(m) for m in re.findall(r"\$s(\d+)", _SHARE_DEFS[i][2]))
    return [f"(define-fun {_SHARE_DEFS[i][0]} () {_SHARE_DEFS[i][1]} {_SHARE_DEFS[i][2]})" for i in sorted(need)]


def query(decls: Decls, asserts: Iterable[Any], get: Sequence[str] = (), logic: Optional[str] = None) -> str:
    body = [decls.header(logic)]
    alist = list(asserts)
    body.extend(_shared_defs(" ".join(a.sx for a in alist if is_sym(a)) + " " + " ".join(decls.axioms)))
    for a in alist:
        if not is_sym(a):
            body.append(f"(assert {lit(bool(a))})")
        else:
            body.append(f"(assert {a.sx})")
    body.append("(check-sat)")
    if get:
        body.append("(get-value (" + " ".join(q(g) if not g.startswith("(") else g for g in get) + "))")
    return "\n".join(body) + "\n"
