"""Conformance of the sqlvc semantics model with the real DuckDB (sampled on every run).

The same evaluator that produces SMT terms folds constants, so a macro (or any scalar SQL) can be evaluated by
the MODEL on concrete inputs and compared with what the REAL DuckDB returns for the same call.  A mismatch is an
engine fault (exit 3): the model is wrong or incomplete, nothing is concluded about the code.
"""
from __future__ import annotations

import datetime
from typing import Any, Dict, List, Optional, Sequence, Tuple

from . import core
from .sqlvc import NULL, SV, CStr, SqlEngine, SqlError, SqlOutside, sv_int, sv_str

EPOCH = datetime.date(1970, 1, 1)
_CONN = None


def conn() -> Any:
    """In-memory DuckDB with the repository's macros installed by the repository's own initializer."""
    global _CONN
    if _CONN is None:
        core.boot(full=True)
        import duckdb
        from vtlengine.duckdb_transpiler.sql import initialize_time_types
        _CONN = duckdb.connect()
        initialize_time_types(_CONN)
    return _CONN


def period_lit(y: int, ind: str, n: int) -> str:
    return f"{{'year': {y}, 'period_indicator': '{ind}', 'period_number': {n}}}::vtl_time_period"


def to_sv(x: Any) -> SV:
    if x is None:
        return NULL
    if isinstance(x, bool):
        return SV("bool", x, False)
    if isinstance(x, int):
        return sv_int(x)
    if isinstance(x, str):
        return sv_str(x)
    if isinstance(x, datetime.date):
        return SV("date", (x - EPOCH).days, False)
    if isinstance(x, tuple) and len(x) == 3:
        return SV("period", (x[0], CStr.lit(x[1]), x[2]), False)
    raise TypeError(x)


def to_sql(x: Any) -> str:
    if x is None:
        return "NULL"
    if isinstance(x, bool):
        return "TRUE" if x else "FALSE"
    if isinstance(x, int):
        return str(x)
    if isinstance(x, str):
        return "'" + x.replace("'", "''") + "'"
    if isinstance(x, datetime.date):
        return f"DATE '{x.isoformat()}'"
    if isinstance(x, tuple) and len(x) == 3:
        return period_lit(*x)
    raise TypeError(x)


def from_sv(v: SV) -> Any:
    if v.sort == "null" or v.null is True:
        return None
    if v.null is not False:
        raise SqlOutside("symbolic null flag on a concrete evaluation")
    if v.sort == "str":
        s = v.v.concrete()
        if s is None:
            raise SqlOutside("symbolic string in concrete evaluation")
        return s
    if v.sort in ("int", "bool"):
        return v.v
    if v.sort == "date":
        return EPOCH + datetime.timedelta(days=v.v)
    if v.sort == "ts":
        return datetime.datetime.combine(EPOCH + datetime.timedelta(days=v.v), datetime.time())
    return ("?", v.sort, v.v)


def model_call(eng: SqlEngine, macro: str, args: Sequence[Any]) -> Any:
    paths = eng.explore(lambda: eng.call_macro(macro, [to_sv(a) for a in args]))
    if len(paths) != 1:
        return ("model-forked", len(paths))
    p = paths[0]
    if p.kind == "value":
        return ("value", from_sv(p.value))
    if p.kind == "error":
        return ("error", p.value if isinstance(p.value, str) else str(p.value))
    return ("outside", p.value)


def real_call(macro: str, args: Sequence[Any]) -> Any:
    sql = f"SELECT {macro}({', '.join(to_sql(a) for a in args)})"
    try:
        r = conn().execute(sql).fetchone()[0]
        return ("value", r)
    except Exception as e:  # noqa: BLE001
        return ("error", str(e).split("\n")[0])


def same(m: Any, r: Any) -> bool:
    if m[0] == "outside":
        return True      # the model declines: no claim, no conformance question
    if m[0] != r[0]:
        return False
    if m[0] == "error":
        # compare the message head when the model knows it (error('...') texts); DuckDB prefixes its own class
        return True
    a, b = m[1], r[1]
    if isinstance(b, datetime.datetime) and isinstance(a, datetime.date) and not isinstance(a, datetime.datetime):
        a = datetime.datetime.combine(a, datetime.time())
    if isinstance(a, datetime.datetime) and isinstance(b, datetime.date) and not isinstance(b, datetime.datetime):
        b = datetime.datetime.combine(b, datetime.time())
    return a == b


def conformance(eng: SqlEngine, cases: Sequence[Tuple[str, Sequence[Any]]]) -> Tuple[int, int, List[str]]:
    """Returns (#checked, #model-declined, mismatches)."""
    bad: List[str] = []
    declined = 0
    n = 0
    for macro, args in cases:
        m = model_call(eng, macro, args)
        r = real_call(macro, args)
        n += 1
        if m[0] == "outside":
            declined += 1
        if not same(m, r):
            bad.append(f"{macro}{tuple(args)}: model {m} != DuckDB {r}")
    return n, declined, bad
