"""Builtins / externals of the symbolic Python interpreter, each an *assumed contract* (listed in evidence).

Handlers take (engine, *args, **kwargs).  `method:<name>` handlers take the receiver first.
"""
from __future__ import annotations

import string
from typing import Any, Dict, List

from . import smt
from .smt import BOOL, INT, STR, T, And, Eq, Ite, Not, Or, is_sym


def install(eng: Any) -> None:  # noqa: C901
    from .pyvc import (BoundV, BuiltinClass, ClassV, DictItems, EnumSort, ExternalV, FuncV, ObjV, Opaque,
                       OutsideSubset, RaiseSignal, SymEnum, SymSet, builtin_class)
    X = eng.externals

    def raise_(name: str, *args: Any) -> None:
        raise RaiseSignal(ObjV(builtin_class(name), {}, tuple(args)))

    # ------------------------------------------------------------------ conversions
    def py_int(e: Any, v: Any = 0, *rest: Any) -> Any:
        if rest:
            raise OutsideSubset("int() with base")
        if isinstance(v, bool):
            return int(v)
        if isinstance(v, int):
            return v
        if isinstance(v, str):
            try:
                return int(v)
            except ValueError:
                raise_("ValueError", v)
        if is_sym(v):
            if v.sort == INT:
                return v
            if v.sort == BOOL:
                return Ite(v, 1, 0)
            if v.sort == STR:
                # assumed contract of int(str): partial function; py.int_ok(s) <=> s parses, value py.int_val(s)
                e.decls.fun("py.int_ok", (STR,), BOOL)
                e.decls.fun("py.int_val", (STR,), INT)
                ok = T(BOOL, f"(py.int_ok {v.sx})")
                if not e.decide(ok):
                    raise_("ValueError", v)
                return T(INT, f"(py.int_val {v.sx})")
        if v is None:
            raise_("TypeError")
        if getattr(e, "strict_partial_ops", False):
            # (additive, vc.pystrops) totality clauses: the ValueError / TypeError outcome would be lost
            raise OutsideSubset("int() of unmodelled value may raise")
        return Opaque("int() of unmodelled value")

    def py_str(e: Any, v: Any = "") -> Any:
        from .pyvc import Frame
        return Frame(e, "", {}, None).to_str(v)

    def py_bool(e: Any, v: Any = False) -> Any:
        from .pyvc import Frame
        return Frame(e, "", {}, None).truth(v)

    def py_len(e: Any, v: Any) -> Any:
        if isinstance(v, (list, tuple, dict, set, frozenset, str)):
            return len(v)
        if is_sym(v) and v.sort == STR:
            return smt.Len(v)
        if isinstance(v, SymSet):
            total: Any = 0
            for b in v.mem.values():
                total = smt.Add(total, Ite(b, 1, 0))
            return total
        if isinstance(v, Opaque):
            return Opaque("len of unmodelled value")
        hook = getattr(v, "_pyvc_len", None)                # (additive) theory-backed collections, vc.pycoll
        if hook is not None:
            return hook(e)
        raise OutsideSubset(f"len of {type(v).__name__}")

    def py_isinstance(e: Any, v: Any, cls: Any) -> Any:
        classes = cls if isinstance(cls, tuple) else (cls,)
        res: Any = False
        for c in classes:
            res = Or(res, _isinstance1(e, v, c))
            if isinstance(res, Opaque):
                return res
        return res

    def _isinstance1(e: Any, v: Any, c: Any) -> Any:
        name = c.name if isinstance(c, (ExternalV, BuiltinClass)) else None
        if isinstance(v, Opaque):
            return v
        if isinstance(c, ClassV):
            if isinstance(v, ObjV):
                return isinstance(v.cls, ClassV) and v.cls.is_subclass_of(c)
            return False
        if name in ("str",):
            return isinstance(v, str) or (is_sym(v) and v.sort == STR)
        if name in ("int",):
            return isinstance(v, int) or (is_sym(v) and v.sort in (INT, BOOL))
        if name in ("bool",):
            return isinstance(v, bool) or (is_sym(v) and v.sort == BOOL)
        if name in ("dict", "list", "tuple", "set"):
            return isinstance(v, {"dict": dict, "list": list, "tuple": tuple, "set": (set, SymSet)}[name])
        if name in ("float",):
            return False if isinstance(v, (int, str, bool, type(None), T, ObjV)) else Opaque("isinstance float")
        if isinstance(v, ObjV) and isinstance(c, BuiltinClass):
            cls_ = v.cls
            return cls_.is_subclass_of(c) if isinstance(cls_, (ClassV, BuiltinClass)) else False
        if isinstance(v, ObjV) and isinstance(c, ExternalV):
            tag = getattr(v.cls, "name", None)
            return tag == c.name.split(".")[-1] if isinstance(v.cls, BuiltinClass) or isinstance(tag, str) else False
        return Opaque(f"isinstance against {c!r}")

    def py_issubclass(e: Any, a: Any, b: Any) -> Any:
        bs = b if isinstance(b, tuple) else (b,)
        if isinstance(a, ClassV):
            res: Any = False
            for c in bs:
                if isinstance(c, SymEnum):
                    res = Or(res, Or(*[And(c.eq_member(m), a.is_subclass_of(m)) for m in c.sort.members]))
                else:
                    res = Or(res, a.is_subclass_of(c))
            return res
        if isinstance(a, SymEnum):
            res = False
            for c in bs:
                if isinstance(c, SymEnum):
                    res = Or(res, Or(*[And(a.eq_member(m), c.eq_member(n)) for m in a.sort.members
                                       for n in c.sort.members
                                       if isinstance(m, ClassV) and m.is_subclass_of(n)]))
                else:
                    res = Or(res, Or(*[a.eq_member(m) for m in a.sort.members
                                       if isinstance(m, ClassV) and m.is_subclass_of(c)]))
            return res
        return Opaque("issubclass")

    def py_min(e: Any, *args: Any, **kw: Any) -> Any:
        xs = list(args[0]) if len(args) == 1 else list(args)
        out = xs[0]
        for x in xs[1:]:
            out = smt.Min(out, x)
        return out

    def py_max(e: Any, *args: Any, **kw: Any) -> Any:
        xs = list(args[0]) if len(args) == 1 else list(args)
        out = xs[0]
        for x in xs[1:]:
            out = smt.Max(out, x)
        return out

    def py_abs(e: Any, v: Any) -> Any:
        return Ite(smt.Ge(v, 0), v, smt.Neg(v))

    def _convert(e: Any, v: Any, target: str) -> Any:
        """(additive) theory-backed collections (vc.pycoll) convert themselves: set(x) / list(x) / dict(x) / sorted(x)."""
        hook = getattr(v, "_pyvc_convert", None)
        return hook(e, target) if hook is not None else None

    def py_set(e: Any, v: Any = ()) -> Any:
        if isinstance(v, SymSet):
            return v.copy()
        c = _convert(e, v, "set")
        if c is not None:
            return c
        from .pyvc import Frame
        return set(Frame(e, "", {}, None).iterate(v))

    def py_list(e: Any, v: Any = ()) -> Any:
        c = _convert(e, v, "list")
        if c is not None:
            return c
        from .pyvc import Frame
        return list(Frame(e, "", {}, None).iterate(v))

    def py_tuple(e: Any, v: Any = ()) -> Any:
        from .pyvc import Frame
        return tuple(Frame(e, "", {}, None).iterate(v))

    def py_dict(e: Any, v: Any = None, **kw: Any) -> Any:
        d: Dict[Any, Any] = {}
        c = _convert(e, v, "dict") if v is not None and not kw else None
        if c is not None:
            return c
        if isinstance(v, dict):
            d.update(v)
        elif v is not None:
            from .pyvc import Frame
            for k, x in Frame(e, "", {}, None).iterate(v):
                d[k] = x
        d.update(kw)
        return d

    def py_sorted(e: Any, v: Any, key: Any = None, reverse: Any = False) -> Any:
        from .pyvc import Frame
        c = _convert(e, v, "sorted") if key is None else None
        if c is not None:
            return c
        xs = Frame(e, "", {}, None).iterate(v)
        if key is not None or any(is_sym(x) for x in xs):
            raise OutsideSubset("sorted with key / symbolic elements")
        return sorted(xs, reverse=bool(reverse))

    def py_range(e: Any, *a: Any) -> Any:
        if any(is_sym(x) for x in a):
            raise OutsideSubset("range with symbolic bound")
        return range(*a)

    def py_enumerate(e: Any, v: Any, start: int = 0) -> Any:
        from .pyvc import Frame
        return [(i + start, x) for i, x in enumerate(Frame(e, "", {}, None).iterate(v))]

    def py_zip(e: Any, *vs: Any) -> Any:
        from .pyvc import Frame
        return list(zip(*[Frame(e, "", {}, None).iterate(v) for v in vs]))

    def py_any(e: Any, v: Any) -> Any:
        from .pyvc import Frame
        fr = Frame(e, "", {}, None)
        return Or(*[fr.truth(x) for x in fr.iterate(v)])

    def py_all(e: Any, v: Any) -> Any:
        from .pyvc import Frame
        fr = Frame(e, "", {}, None)
        return And(*[fr.truth(x) for x in fr.iterate(v)])

    def py_getattr(e: Any, obj: Any, name: Any, *default: Any) -> Any:
        from .pyvc import Frame
        if not isinstance(name, str):
            raise OutsideSubset("getattr with symbolic name")
        try:
            return Frame(e, "", {}, None).getattr(obj, name)
        except (OutsideSubset, RaiseSignal):
            if default:
                return default[0]
            raise

    def py_hasattr(e: Any, obj: Any, name: Any) -> Any:
        try:
            py_getattr(e, obj, name)
            return True
        except (OutsideSubset, RaiseSignal):
            return False if isinstance(obj, ObjV) and not isinstance(obj.cls, str) else Opaque("hasattr")

    def py_type(e: Any, obj: Any) -> Any:
        if isinstance(obj, ObjV):
            return obj.cls
        return Opaque("type()")

    def py_print(e: Any, *a: Any, **k: Any) -> Any:
        return None

    def py_frozenset(e: Any, v: Any = ()) -> Any:
        from .pyvc import Frame
        return frozenset(Frame(e, "", {}, None).iterate(v))

    for n, h in {"int": py_int, "str": py_str, "bool": py_bool, "len": py_len, "isinstance": py_isinstance,
                 "issubclass": py_issubclass, "min": py_min, "max": py_max, "abs": py_abs, "set": py_set,
                 "list": py_list, "tuple": py_tuple, "dict": py_dict, "sorted": py_sorted, "range": py_range,
                 "enumerate": py_enumerate, "zip": py_zip, "any": py_any, "all": py_all, "getattr": py_getattr,
                 "hasattr": py_hasattr, "type": py_type, "print": py_print, "frozenset": py_frozenset}.items():
        X[n] = h
    for n in ("float", "object", "Any", "Optional", "Union", "Dict", "List", "Set", "Tuple", "Type"):
        X.setdefault(n, lambda e, *a, **k: Opaque("typing/float"))

    # ------------------------------------------------------------------ os.environ
    def os_getenv(e: Any, name: Any, default: Any = None) -> Any:
        """Assumed contract: the environment is a map name -> optional string, fixed during the call."""
        if not isinstance(name, str):
            raise OutsideSubset("getenv with symbolic name")
        env = e.__dict__.setdefault("environ", {})
        if name not in env:
            present = e.decls.const(f"env.{name}.set", BOOL)
            value = e.decls.const(f"env.{name}.value", STR)
            env[name] = (present, value)
        present, value = env[name]
        e.effects.append(("getenv", name))
        if e.decide(present):
            return value
        return default

    class Suppress:
        """contextlib.suppress(*exceptions): the with-body's matching exceptions are swallowed."""

        def __init__(self, classes: Any) -> None:
            self.classes = classes

        def _pyvc_with(self, frame: Any, st: Any, i: int) -> None:
            try:
                frame.exec_with(st, i + 1)
            except RaiseSignal as r:
                if any(frame.exc_isinstance(r.exc, c) for c in self.classes):
                    return
                raise

    X["contextlib.suppress"] = lambda e, *classes: Suppress(classes)

    X["os.getenv"] = os_getenv
    X["os.environ.get"] = os_getenv

    # ------------------------------------------------------------------ methods
    def m_format(e: Any, recv: Any, *args: Any, **kwargs: Any) -> Any:
        hook = getattr(recv, "_pyvc_format", None)
        if hook is not None:
            return hook(e, args, kwargs)
        if isinstance(recv, str):
            need = set()
            positional = 0
            for _l, f, _s, _c in string.Formatter().parse(recv):
                if f is None:
                    continue
                root = f.split(".")[0].split("[")[0]
                if root == "" or root.isdigit():
                    positional = max(positional, (int(root) + 1) if root.isdigit() else positional + 1)
                else:
                    need.add(root)
            if need - set(kwargs):
                raise_("KeyError", sorted(need - set(kwargs))[0])
            if positional > len(args):
                raise_("IndexError")
            if all(isinstance(v, (int, str)) for v in list(args) + list(kwargs.values())):
                try:
                    return recv.format(*args, **kwargs)
                except Exception:  # noqa: BLE001
                    return Opaque("format result")
            return e.decls.fresh("fmt", STR)
        if is_sym(recv):
            # a template that is not a compile-time constant: its fields are unknown
            e.oblige(False, "str.format is applied to a non-constant template (its placeholder fields cannot be "
                            "matched against the supplied arguments; a '{' in the data raises KeyError/ValueError)")
            return e.decls.fresh("fmt", STR)
        return Opaque("format on unmodelled receiver")

    def m_lower(e: Any, recv: Any) -> Any:
        if isinstance(recv, str):
            return recv.lower()
        if is_sym(recv):
            e.decls.fun("py.lower", (STR,), STR)
            return T(STR, f"(py.lower {recv.sx})")
        return Opaque("lower")

    def m_upper(e: Any, recv: Any) -> Any:
        if isinstance(recv, str):
            return recv.upper()
        if is_sym(recv):
            e.decls.fun("py.upper", (STR,), STR)
            return T(STR, f"(py.upper {recv.sx})")
        return Opaque("upper")

    def m_strip(e: Any, recv: Any, *a: Any) -> Any:
        if isinstance(recv, str) and all(isinstance(x, str) for x in a):
            return recv.strip(*a)
        if is_sym(recv) and not a:
            e.decls.fun("py.strip", (STR,), STR)
            return T(STR, f"(py.strip {recv.sx})")
        return Opaque("strip")

    def m_startswith(e: Any, recv: Any, p: Any) -> Any:
        if isinstance(recv, str) and isinstance(p, str):
            return recv.startswith(p)
        if isinstance(p, tuple):
            return Or(*[m_startswith(e, recv, x) for x in p])
        return smt.app(BOOL, "str.prefixof", p, recv)

    def m_endswith(e: Any, recv: Any, p: Any) -> Any:
        if isinstance(recv, str) and isinstance(p, str):
            return recv.endswith(p)
        if isinstance(p, tuple):
            return Or(*[m_endswith(e, recv, x) for x in p])
        return smt.app(BOOL, "str.suffixof", p, recv)

    def m_isdigit(e: Any, recv: Any) -> Any:
        if isinstance(recv, str):
            return recv.isdigit()
        return smt.InRe(recv, '(re.+ (re.range "0" "9"))')

    def m_join(e: Any, recv: Any, it: Any) -> Any:
        from .pyvc import Frame
        xs = Frame(e, "", {}, None).iterate(it)
        out: List[Any] = []
        for i, x in enumerate(xs):
            if i:
                out.append(recv)
            out.append(x)
        if any(isinstance(x, Opaque) for x in out):
            return Opaque("join")
        return smt.Concat(*out) if out else ""

    def m_get(e: Any, recv: Any, key: Any, default: Any = None) -> Any:
        from .pyvc import Frame
        if isinstance(recv, dict):
            if is_sym(key) or isinstance(key, SymEnum):
                fr = Frame(e, "", {}, None)
                if e.decide(fr.contains(recv, key)):
                    return fr.table_lookup(recv, key) if isinstance(key, SymEnum) else fr.table_lookup_term(recv, key)
                return default
            return recv.get(key, default)
        if isinstance(recv, Opaque):
            return Opaque("get on unmodelled value")
        if isinstance(recv, ExternalV) and recv.name == "os.environ":
            return os_getenv(e, key, default)
        raise OutsideSubset(f".get on {type(recv).__name__}")

    def m_items(e: Any, recv: Any) -> Any:
        if isinstance(recv, dict):
            return DictItems(list(recv.items()))
        raise OutsideSubset(".items on non-dict")

    def m_keys(e: Any, recv: Any) -> Any:
        if isinstance(recv, dict):
            return list(recv.keys())
        raise OutsideSubset(".keys on non-dict")

    def m_values(e: Any, recv: Any) -> Any:
        if isinstance(recv, dict):
            return list(recv.values())
        raise OutsideSubset(".values on non-dict")

    def _frozen(e: Any, recv: Any, what: str) -> None:
        origin = getattr(recv, "frozen_origin", None) or getattr(recv, "_frozen_origin", None)
        if origin:
            e.oblige(False, f"{what} mutates an object that aliases the module-level table {origin}")

    def m_append(e: Any, recv: Any, v: Any) -> Any:
        if isinstance(recv, list):
            _frozen(e, recv, "append")
            recv.append(v)
            return None
        raise OutsideSubset(".append on non-list")

    def m_extend(e: Any, recv: Any, v: Any) -> Any:
        from .pyvc import Frame
        if isinstance(recv, list):
            recv.extend(Frame(e, "", {}, None).iterate(v))
            return None
        raise OutsideSubset(".extend on non-list")

    def m_add(e: Any, recv: Any, v: Any) -> Any:
        if isinstance(recv, set) and not is_sym(v) and not isinstance(v, SymEnum):
            recv.add(v)
            return None
        if isinstance(recv, SymSet) and v in recv.sort:
            _frozen(e, recv, "add")
            recv.mem[recv.sort.index(v)] = True
            return None
        raise OutsideSubset(".add with symbolic element")

    def m_update(e: Any, recv: Any, *a: Any, **kw: Any) -> Any:
        if isinstance(recv, dict):
            for x in a:
                recv.update(x)
            recv.update(kw)
            return None
        if isinstance(recv, set):
            for x in a:
                recv.update(x)
            return None
        if isinstance(recv, SymSet):
            _frozen(e, recv, "update")
            for x in a:
                if isinstance(x, SymSet):
                    for i in recv.mem:
                        recv.mem[i] = Or(recv.mem[i], x.mem.get(i, False))
                else:
                    for m in x:
                        recv.mem[recv.sort.index(m)] = True
            return None
        raise OutsideSubset(".update")

    def m_discard(e: Any, recv: Any, v: Any) -> Any:
        if isinstance(recv, set):
            recv.discard(v)
            return None
        if isinstance(recv, SymSet):
            _frozen(e, recv, "discard")
            if isinstance(v, SymEnum):
                for i in recv.mem:
                    recv.mem[i] = And(recv.mem[i], Not(Eq(v.term, i)))
            elif v in recv.sort:
                recv.mem[recv.sort.index(v)] = False
            return None
        raise OutsideSubset(".discard")

    def m_remove(e: Any, recv: Any, v: Any) -> Any:
        if isinstance(recv, (set, list)):
            if v not in recv:
                raise_("KeyError" if isinstance(recv, set) else "ValueError", v)
            recv.remove(v)
            return None
        if isinstance(recv, SymSet):
            if not e.decide(recv.contains(v)):
                raise_("KeyError", v)
            return m_discard(e, recv, v)
        raise OutsideSubset(".remove")

    def m_pop(e: Any, recv: Any, *a: Any) -> Any:
        if isinstance(recv, dict):
            if a[0] in recv:
                return recv.pop(a[0])
            if len(a) > 1:
                return a[1]
            raise_("KeyError", a[0])
        if isinstance(recv, list):
            if not recv:
                raise_("IndexError")
            return recv.pop(*a)
        if isinstance(recv, set):
            if not recv:
                raise_("KeyError")
            if len(recv) > 1:
                raise OutsideSubset("set.pop on a set with several elements (arbitrary choice)")
            return recv.pop()
        if isinstance(recv, SymSet):
            from .pyvc import Frame
            _frozen(e, recv, "pop")
            if not e.decide(Frame(e, "", {}, None).truth(recv)):
                raise_("KeyError")
            # set.pop() returns an arbitrary element: only deterministic when the set is a singleton.  That is a
            # call-site obligation; under it the result is THE element (encoded as the first member present, a
            # function of the set - no existential witness, so the term is safe under negation).
            n_in = 0
            for b in recv.mem.values():
                n_in = smt.Add(n_in, Ite(b, 1, 0))
            e.oblige(Eq(n_in, 1), "set.pop() on a set that may hold several elements (result would be arbitrary)")
            items = sorted(recv.mem.items())
            r = items[-1][0]
            for i, b in reversed(items[:-1]):
                r = Ite(b, i, r)
            out = SymEnum(recv.sort, r) if is_sym(r) else recv.sort.members[r]
            for i in recv.mem:
                recv.mem[i] = And(recv.mem[i], Not(Eq(r, i)))
            return out
        raise OutsideSubset(".pop")

    def m_intersection(e: Any, recv: Any, *others: Any) -> Any:
        if isinstance(recv, (set, frozenset)) and all(isinstance(o, (set, frozenset)) for o in others):
            return recv.intersection(*others)
        cur = _as_symset(e, recv, others)
        for o in others:
            o2 = _as_symset(e, o, [cur])
            cur = SymSet(cur.sort, {i: And(cur.mem.get(i, False), o2.mem.get(i, False))
                                    for i in range(len(cur.sort.members))})
        return cur

    def m_union(e: Any, recv: Any, *others: Any) -> Any:
        if isinstance(recv, (set, frozenset)) and all(isinstance(o, (set, frozenset)) for o in others):
            return recv.union(*others)
        cur = _as_symset(e, recv, others)
        for o in others:
            o2 = _as_symset(e, o, [cur])
            cur = SymSet(cur.sort, {i: Or(cur.mem.get(i, False), o2.mem.get(i, False))
                                    for i in range(len(cur.sort.members))})
        return cur

    def _as_symset(e: Any, v: Any, hints: Any) -> Any:
        if isinstance(v, SymSet):
            return v
        sort = next((h.sort for h in hints if isinstance(h, SymSet)), None)
        if sort is None or not isinstance(v, (set, frozenset)):
            raise OutsideSubset("set operation on mixed values")
        return SymSet(sort, {i: (m in v) for i, m in enumerate(sort.members)})

    def m_copy(e: Any, recv: Any) -> Any:
        if isinstance(recv, (dict, list, set)):
            return type(recv)(recv)
        if isinstance(recv, SymSet):
            return recv.copy()
        raise OutsideSubset(".copy")

    def m_is_integer(e: Any, recv: Any) -> Any:
        return Opaque("float.is_integer")

    def m_split(e: Any, recv: Any, *a: Any) -> Any:
        if isinstance(recv, str) and all(isinstance(x, (str, int)) for x in a):
            return recv.split(*a)
        return Opaque("split of symbolic string")

    def m_insert(e: Any, recv: Any, i: Any, v: Any) -> Any:
        if isinstance(recv, list) and isinstance(i, int):
            recv.insert(i, v)
            return None
        raise OutsideSubset(".insert")

    def m_clear(e: Any, recv: Any) -> Any:
        if isinstance(recv, (list, dict, set)):
            recv.clear()
            return None
        raise OutsideSubset(".clear")

    X["method:insert"] = m_insert
    X["method:clear"] = m_clear

    def m_index(e: Any, recv: Any, v: Any) -> Any:
        if isinstance(recv, (list, tuple)) and not is_sym(v):
            for i, x in enumerate(recv):
                if x is v or (not isinstance(x, (ObjV, ClassV)) and x == v):
                    return i
            raise_("ValueError")
        raise OutsideSubset(".index")

    def m_setdefault(e: Any, recv: Any, k: Any, d: Any = None) -> Any:
        if isinstance(recv, dict) and not is_sym(k):
            return recv.setdefault(k, d)
        raise OutsideSubset(".setdefault")

    def m_replace(e: Any, recv: Any, a: Any, b: Any) -> Any:
        if isinstance(recv, str) and isinstance(a, str) and isinstance(b, str):
            return recv.replace(a, b)
        return smt.app(STR, "str.replace_all", recv, a, b)

    for n, h in {"format": m_format, "lower": m_lower, "upper": m_upper, "strip": m_strip,
                 "startswith": m_startswith, "endswith": m_endswith, "isdigit": m_isdigit, "join": m_join,
                 "get": m_get, "items": m_items, "keys": m_keys, "values": m_values, "append": m_append,
                 "extend": m_extend, "add": m_add, "update": m_update, "discard": m_discard, "remove": m_remove,
                 "pop": m_pop, "intersection": m_intersection, "union": m_union, "copy": m_copy,
                 "is_integer": m_is_integer, "split": m_split, "index": m_index, "setdefault": m_setdefault,
                 "replace": m_replace}.items():
        X[f"method:{n}"] = h
