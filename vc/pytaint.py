"""Static taint analysis over the AST of a set of modules of the real source tree (re-read on every run).

Question answered: can the RESULT of a case-changing operation (`.lower() .upper() .casefold() .capitalize() .title()
.swapcase()`, `str.lower(x)`, a regular expression compiled / used with re.IGNORECASE) reach, AS A WHOLE STRING,
  IDENT  a double-quoted position of SQL text built by an f-string / `+` / `.format` / a '"'-separator join
         (= it is emitted as a DuckDB identifier),
  KEY    a subscript / .get / .pop / .setdefault key, a dict-literal or dict-comprehension key, or a subscript store
         key of a container that is not a module-level constant table (= it is used to resolve a name),
  CMP    an  == / != / in / not in  comparison (or startswith/endswith/find/index/count) whose other side is not a
         compile-time constant (= two run-time names are compared case-insensitively)?

The analysis is a forward, flow-INsensitive, field-based, inter-procedural may-analysis:
  * one abstract value per local name / attribute name / parameter / function result (class TV): the set of source
    sites whose result the value may be (`w`), the same for container elements (`elem`), dict keys (`key`) and
    fixed-arity tuple positions (`tup`);
  * every assignment, for-target, with-target, comprehension, container mutator (.append/.add/.extend/.update/
    .insert/.setdefault, x[k] = v), call of a function of the analysed modules (arguments -> parameters, result <-
    returns; method calls are resolved by NAME to every function of that name, `self.visit(x)` to every visit_*),
    and call of anything else (result may be any argument) propagates;
  * a case-changed string that is spliced into a LARGER string outside double quotes stops being tracked (it has
    become a keyword / function name / message fragment of that text; assumption A-PART in the checks that use this).
Not tracked (stated as assumptions by the checks): implicit flows (a branch taken on a case-changed value),
getattr/setattr/eval, values stored outside the analysed modules.
"""
from __future__ import annotations

import ast
import string
from dataclasses import dataclass
from typing import Any, Dict, FrozenSet, List, Optional, Sequence, Set, Tuple

from .pysrc import module_ast, module_constants
from .core import SRC

CASE_METHODS = {"lower", "upper", "casefold", "capitalize", "title", "swapcase"}
RE_FUNCS = {"compile", "match", "search", "fullmatch", "sub", "subn", "findall", "finditer", "split"}
STR_PRESERVING = {"strip", "lstrip", "rstrip", "removeprefix", "removesuffix", "replace", "encode", "decode", "group",
                  "expandtabs", "zfill", "ljust", "rjust", "center", "translate", "copy", "pop", "popitem", "get",
                  "setdefault", "__getitem__", "read", "read_text", "format_map"}
SPLITTERS = {"split", "rsplit", "splitlines", "partition", "rpartition", "groups", "findall"}
SCALAR_RESULT = {"startswith", "endswith", "isdigit", "isalpha", "isalnum", "isupper", "islower", "isspace", "find",
                 "rfind", "index", "rindex", "count", "isnumeric", "isidentifier", "exists", "is_file", "is_dir"}
CMP_METHODS = {"startswith", "endswith", "find", "rfind", "index", "rindex", "count", "__contains__"}
SCALAR_BUILTINS = {"len", "isinstance", "issubclass", "hasattr", "int", "float", "bool", "any", "all", "id", "hash",
                   "callable", "abs", "round", "ord", "print", "range", "type"}
EMPTY: FrozenSet[int] = frozenset()
_DICT_ANN = __import__("re").compile(r"^(Optional\[)?(typing\.)?(Dict|dict|DefaultDict|OrderedDict)\b")


@dataclass(frozen=True)
class TV:
    w: FrozenSet[int] = EMPTY
    elem: Optional["TV"] = None
    key: FrozenSet[int] = EMPTY
    tup: Optional[Tuple["TV", ...]] = None
    d: bool = False                       # known to be a dict (membership tests look at keys only)

    def flat(self) -> FrozenSet[int]:
        out = set(self.w) | set(self.key)
        if self.elem is not None:
            out |= self.elem.flat()
        for t in self.tup or ():
            out |= t.flat()
        return frozenset(out)


BOT = TV()
_DEPTH = 4


def _trim(t: Optional[TV], depth: int = 0) -> Optional[TV]:
    if t is None:
        return None
    if depth >= _DEPTH:
        f = t.flat()
        return TV(w=f) if f else BOT
    return TV(t.w, _trim(t.elem, depth + 1), t.key, tuple(_trim(x, depth + 1) for x in t.tup) if t.tup is not None else None, t.d)  # type: ignore[misc]


def join(a: Optional[TV], b: Optional[TV]) -> TV:
    if a is None or a == BOT:
        return b if b is not None else BOT
    if b is None or b == BOT or a == b:
        return a
    elem = join(a.elem, b.elem) if (a.elem is not None or b.elem is not None) else None
    tup: Optional[Tuple[TV, ...]] = None
    if a.tup is not None and b.tup is not None and len(a.tup) == len(b.tup):
        tup = tuple(join(x, y) for x, y in zip(a.tup, b.tup))
    else:
        for t in (a, b):
            if t.tup is not None:
                for x in t.tup:
                    elem = join(elem, x)
    r = TV(a.w | b.w, elem, a.key | b.key, tup, a.d or b.d)
    return _trim(r) or BOT


def iter_elem(t: TV) -> TV:
    """Abstract value of one element produced by iterating over t."""
    if t.d:
        return TV(w=t.key | t.w) if (t.key or t.w) else BOT      # iterating a dict yields its keys
    out = t.elem or BOT
    for x in t.tup or ():
        out = join(out, x)
    if t.key:
        out = join(out, TV(w=t.key))
    if t.w and not t.d:
        out = join(out, TV(w=t.w))        # iterating a string / an object derived from it
    return out


@dataclass
class Source:
    sid: int
    rel: str
    function: str
    line: int
    kind: str            # 'method' | 'regex-ignorecase'
    text: str            # the call expression
    receiver: str        # the expression whose case is changed
    node: ast.AST


@dataclass
class Sink:
    sid: int
    kind: str            # IDENT | KEY | CMP
    rel: str
    function: str
    line: int
    text: str


class Fn:
    def __init__(self, rel: str, qualname: str, node: Any, outer: Optional["Fn"], is_method: bool) -> None:
        self.rel, self.qualname, self.node, self.outer, self.is_method = rel, qualname, node, outer, is_method
        self.env: Dict[str, TV] = {}
        self.ret: TV = BOT
        self.params: List[str] = []
        if isinstance(node, (ast.FunctionDef, ast.AsyncFunctionDef, ast.Lambda)):
            a = node.args
            self.params = [p.arg for p in a.posonlyargs + a.args]
            self.kwonly = [p.arg for p in a.kwonlyargs]
            self.vararg = a.vararg.arg if a.vararg else None
            self.kwarg = a.kwarg.arg if a.kwarg else None
        else:
            self.kwonly, self.vararg, self.kwarg = [], None, None


class TaintAnalysis:
    def __init__(self, modules: Sequence[str], max_rounds: int = 30) -> None:
        self.modules = list(modules)
        self.sources: List[Source] = []
        self._src_by_node: Dict[int, int] = {}
        self.sinks: Dict[Tuple[int, str, str, int], Sink] = {}
        self.fns: List[Fn] = []
        self.by_name: Dict[str, List[Fn]] = {}
        self.mod_fn: Dict[str, Fn] = {}
        self.fields: Dict[str, TV] = {}
        self.imports: Dict[str, Dict[str, Tuple[str, str]]] = {}      # rel -> local name -> (module rel | dotted, orig)
        self.module_aliases: Dict[str, Set[str]] = {}                 # rel -> names bound to modules
        self.changed = False
        self.rounds = 0
        self.unresolved_dynamic: List[str] = []
        self._mc_cache: Dict[Tuple[str, str], Optional[Tuple[str, ast.expr]]] = {}
        self._globals_cache: Dict[str, Set[str]] = {}
        for rel in self.modules:
            self._index(rel)
        for r in range(max_rounds):
            self.changed = False
            self.rounds = r + 1
            for fn in self.fns:
                self._run(fn)
            if not self.changed:
                break
        self.converged = not self.changed

    # -- indexing ---------------------------------------------------------------------------------------------------
    def _index(self, rel: str) -> None:
        tree = module_ast(rel)
        m = Fn(rel, "<module>", tree, None, False)
        self.mod_fn[rel] = m
        self.fns.append(m)
        imps: Dict[str, Tuple[str, str]] = {}
        aliases: Set[str] = set()
        pkg = ["vtlengine"] + rel.split("/")[:-1]
        for st in ast.walk(tree):
            if isinstance(st, ast.ImportFrom):
                mod = st.module or ""
                if st.level:
                    mod = ".".join(pkg[: len(pkg) - (st.level - 1)] + ([mod] if mod else []))
                for a in st.names:
                    imps[a.asname or a.name] = (mod, a.name)
                    if _resolve_module(mod + "." + a.name) is not None:
                        aliases.add(a.asname or a.name)
            elif isinstance(st, ast.Import):
                for a in st.names:
                    aliases.add(a.asname or a.name.split(".")[0])
        self.imports[rel] = imps
        self.module_aliases[rel] = aliases

        def visit(node: ast.AST, outer: Fn, in_class: bool, prefix: str) -> None:
            for ch in ast.iter_child_nodes(node):
                if isinstance(ch, (ast.FunctionDef, ast.AsyncFunctionDef)):
                    f = Fn(rel, prefix + ch.name, ch, outer if not in_class else self.mod_fn[rel], in_class)
                    self.fns.append(f)
                    self.by_name.setdefault(ch.name, []).append(f)
                    ch._taint_fn = f  # type: ignore[attr-defined]
                    visit(ch, f, False, prefix + ch.name + ".")
                elif isinstance(ch, ast.ClassDef):
                    visit(ch, outer, True, prefix + ch.name + ".")
                elif isinstance(ch, ast.Lambda):
                    visit(ch, outer, False, prefix)
                else:
                    visit(ch, outer, in_class, prefix)
        visit(tree, m, False, "")

    # -- helpers ----------------------------------------------------------------------------------------------------
    def _grow(self, old: TV, new: TV) -> TV:
        j = join(old, new)
        if j != old:
            self.changed = True
        return j

    def _lookup(self, fn: Fn, name: str) -> TV:
        cur: Optional[Fn] = fn
        while cur is not None:
            if name in cur.env:
                return cur.env[name]
            cur = cur.outer
        imp = self.imports.get(fn.rel, {}).get(name)
        if imp is not None:
            target = _resolve_module(imp[0])
            if target in self.mod_fn:
                return self.mod_fn[target].env.get(imp[1], BOT)
        return BOT

    def _set(self, fn: Fn, name: str, v: TV) -> None:
        # assignment to a name declared in an enclosing function (closure cells) is rare; bind locally
        fn.env[name] = self._grow(fn.env.get(name, BOT), v)

    def is_const(self, e: ast.AST, rel: str, depth: int = 0) -> bool:
        """Compile-time constant: literal, tuple/list/set of constants, MODULE.NAME / Class.MEMBER, a module-level name
        bound to a constant."""
        if isinstance(e, ast.Constant):
            return True
        if isinstance(e, (ast.Tuple, ast.List, ast.Set)):
            return all(self.is_const(x, rel, depth) for x in e.elts)
        if isinstance(e, ast.Attribute) and isinstance(e.value, ast.Name):
            base = e.value.id
            if base in self.module_aliases.get(rel, ()):           # tokens.MIN
                return True
            imp = self.imports.get(rel, {}).get(base)
            if imp is not None and base[:1].isupper():                # Role.IDENTIFIER (enum member of an imported class)
                return True
            return False
        if isinstance(e, ast.Name) and depth < 3:
            c = self._module_const(rel, e.id)
            if c is not None:
                return self.is_const(c[1], c[0], depth + 1) or isinstance(c[1], (ast.Dict,)) and all(
                    k is not None and self.is_const(k, c[0], depth + 1) for k in c[1].keys)
        return False

    def _module_const(self, rel: str, name: str) -> Optional[Tuple[str, ast.expr]]:
        k = (rel, name)
        if k not in self._mc_cache:
            self._mc_cache[k] = self._module_const_uncached(rel, name)
        return self._mc_cache[k]

    def _module_const_uncached(self, rel: str, name: str) -> Optional[Tuple[str, ast.expr]]:
        try:
            consts = module_constants(rel)
        except (OSError, SyntaxError):
            return None
        if name in consts and not self._assigned_in_function(rel, name):
            return rel, consts[name]
        imp = self.imports.get(rel, {}).get(name)
        if imp is None:
            imp = _imports_of(rel).get(name)
        if imp is not None:
            target = _resolve_module(imp[0])
            if target is not None:
                try:
                    consts = module_constants(target)
                except (OSError, SyntaxError):
                    return None
                if imp[1] in consts:
                    return target, consts[imp[1]]
        return None

    def _assigned_in_function(self, rel: str, name: str) -> bool:
        if rel not in self._globals_cache:
            self._globals_cache[rel] = {n for st in ast.walk(module_ast(rel)) if isinstance(st, ast.Global)
                                        for n in st.names}
        return name in self._globals_cache[rel]

    def is_const_table(self, e: ast.AST, rel: str) -> bool:
        if isinstance(e, ast.Name):
            c = self._module_const(rel, e.id)
            return c is not None and isinstance(c[1], (ast.Dict, ast.Set, ast.Tuple, ast.List, ast.Call))
        if isinstance(e, ast.Attribute) and isinstance(e.value, ast.Name) and e.value.id in self.module_aliases.get(rel, ()):
            return True
        return isinstance(e, (ast.Dict, ast.Set, ast.Tuple, ast.List)) and self.is_const(e, rel) or \
            isinstance(e, ast.Dict) and all(k is not None and self.is_const(k, rel) for k in e.keys)

    def const_local(self, fn: Fn, e: ast.AST) -> bool:
        """A local name bound ONLY as the target of `for ... in <constant table>[.items()|.keys()|.values()]`."""
        if not isinstance(e, ast.Name) or isinstance(fn.node, ast.Module):
            return False
        cache = fn.__dict__.setdefault("_const_locals", None)
        if cache is None:
            good: Set[str] = set()
            bad: Set[str] = set(fn.params) | set(fn.kwonly)
            for n in ast.walk(fn.node):
                if isinstance(n, (ast.For, ast.comprehension)):
                    it = n.iter
                    if isinstance(it, ast.Call) and isinstance(it.func, ast.Attribute) and it.func.attr in ("items", "keys", "values") \
                            and not it.args:
                        it = it.func.value
                    names = [x.id for x in ast.walk(n.target) if isinstance(x, ast.Name)]
                    (good if self.is_const_table(it, fn.rel) else bad).update(names)
                elif isinstance(n, (ast.Assign, ast.AugAssign, ast.AnnAssign, ast.NamedExpr, ast.With)):
                    tg = n.targets if isinstance(n, ast.Assign) else [getattr(n, "target", None)] if not isinstance(n, ast.With) \
                        else [i.optional_vars for i in n.items]
                    for t in tg:
                        if t is not None:
                            bad.update(x.id for x in ast.walk(t) if isinstance(x, ast.Name) and isinstance(x.ctx, ast.Store))
            cache = good - bad
            fn.__dict__["_const_locals"] = cache
        return e.id in cache

    def _sink(self, srcs: FrozenSet[int], kind: str, fn: Fn, node: ast.AST, text: str = "") -> None:
        for s in srcs:
            k = (s, kind, fn.rel, getattr(node, "lineno", 0))
            if k not in self.sinks:
                self.sinks[k] = Sink(s, kind, fn.rel, fn.qualname, getattr(node, "lineno", 0),
                                     (text or ast.unparse(node))[:160])
                self.changed = True

    def _source(self, fn: Fn, node: ast.Call, kind: str, receiver: ast.AST) -> int:
        k = id(node)
        if k not in self._src_by_node:
            sid = len(self.sources)
            self._src_by_node[k] = sid
            self.sources.append(Source(sid, fn.rel, fn.qualname, node.lineno, kind, ast.unparse(node)[:160],
                                       ast.unparse(receiver)[:120], node))
        return self._src_by_node[k]

    # -- function bodies ----------------------------------------------------------------------------------------------
    def _run(self, fn: Fn) -> None:
        node = fn.node
        if isinstance(node, ast.Module):
            self._block(fn, [s for s in node.body])
            return
        if isinstance(node, ast.Lambda):
            fn.ret = self._grow(fn.ret, self.ev(fn, node.body))
            return
        for dflt_owner, dflts in ((node.args.args[len(node.args.args) - len(node.args.defaults):], node.args.defaults),
                                  (node.args.kwonlyargs, node.args.kw_defaults)):
            for a, dv in zip(dflt_owner, dflts):
                if dv is not None:
                    self._set(fn, a.arg, self.ev(fn, dv))
        self._block(fn, node.body)

    def _block(self, fn: Fn, stmts: Sequence[ast.stmt]) -> None:
        for st in stmts:
            self._stmt(fn, st)

    def _stmt(self, fn: Fn, st: ast.stmt) -> None:  # noqa: C901
        if isinstance(st, (ast.FunctionDef, ast.AsyncFunctionDef, ast.ClassDef)):
            if isinstance(st, ast.ClassDef):
                self._block(fn, [s for s in st.body if not isinstance(s, (ast.FunctionDef, ast.AsyncFunctionDef))])
            for d in st.decorator_list:
                self.ev(fn, d)
            return
        if isinstance(st, ast.Assign):
            v = self.ev(fn, st.value)
            if isinstance(st.value, (ast.Dict, ast.DictComp)):
                v = TV(v.w, v.elem, v.key, v.tup, True)
            for t in st.targets:
                self._bind(fn, t, v)
        elif isinstance(st, ast.AnnAssign):
            if st.value is not None:
                v = self.ev(fn, st.value)
                if _DICT_ANN.match(ast.unparse(st.annotation)) and isinstance(st.value, (ast.Dict, ast.DictComp, ast.Call)):
                    v = TV(v.w, v.elem, v.key, v.tup, True)
                self._bind(fn, st.target, v)
        elif isinstance(st, ast.AugAssign):
            v = self.ev(fn, st.value)
            if isinstance(st.op, ast.Add) and _is_str_expr(st.value):
                self._check_concat(fn, [st.target, st.value], st)        # x += "..." : x becomes a larger text
            else:
                self._bind(fn, st.target, v)
        elif isinstance(st, (ast.For, ast.AsyncFor)):
            self._bind(fn, st.target, iter_elem(self.ev(fn, st.iter)))
            self._block(fn, st.body)
            self._block(fn, st.orelse)
        elif isinstance(st, ast.While):
            self.ev(fn, st.test)
            self._block(fn, st.body)
            self._block(fn, st.orelse)
        elif isinstance(st, ast.If):
            self.ev(fn, st.test)
            self._block(fn, st.body)
            self._block(fn, st.orelse)
        elif isinstance(st, (ast.With, ast.AsyncWith)):
            for it in st.items:
                v = self.ev(fn, it.context_expr)
                if it.optional_vars is not None:
                    self._bind(fn, it.optional_vars, v)
            self._block(fn, st.body)
        elif isinstance(st, ast.Return):
            if st.value is not None:
                fn.ret = self._grow(fn.ret, self.ev(fn, st.value))
        elif isinstance(st, ast.Expr):
            v = self.ev(fn, st.value)
            if isinstance(st.value, (ast.Yield, ast.YieldFrom)):
                fn.ret = self._grow(fn.ret, TV(elem=v))
        elif isinstance(st, ast.Try):
            self._block(fn, st.body)
            for h in st.handlers:
                self._block(fn, h.body)
            self._block(fn, st.orelse)
            self._block(fn, st.finalbody)
        elif isinstance(st, ast.Raise):
            if st.exc is not None:
                self.ev(fn, st.exc)
        elif isinstance(st, ast.Assert):
            self.ev(fn, st.test)
        elif isinstance(st, ast.Delete):
            pass
        elif isinstance(st, ast.Match):
            self.ev(fn, st.subject)
            for c in st.cases:
                self._block(fn, c.body)

    def _bind(self, fn: Fn, target: ast.AST, v: TV) -> None:
        if isinstance(target, ast.Name):
            self._set(fn, target.id, v)
        elif isinstance(target, (ast.Tuple, ast.List)):
            for i, el in enumerate(target.elts):
                if isinstance(el, ast.Starred):
                    self._bind(fn, el.value, TV(elem=iter_elem(v)))
                elif v.tup is not None and len(v.tup) == len(target.elts):
                    self._bind(fn, el, v.tup[i])
                else:
                    self._bind(fn, el, iter_elem(v))
        elif isinstance(target, ast.Subscript):
            k = self.ev(fn, target.slice)
            if k.w and not self.is_const_table(target.value, fn.rel):
                self._sink(k.w, "KEY", fn, target, f"store under key: {ast.unparse(target)}")
            self._store(fn, target.value, TV(elem=v, key=k.w))
        elif isinstance(target, ast.Attribute):
            self.fields[target.attr] = self._grow(self.fields.get(target.attr, BOT), v)
        elif isinstance(target, ast.Starred):
            self._bind(fn, target.value, v)

    def _store(self, fn: Fn, base: ast.AST, v: TV) -> None:
        """Join v into the container denoted by base (a name, an attribute, or an element of those)."""
        if isinstance(base, ast.Name):
            self._set(fn, base.id, v)
        elif isinstance(base, ast.Attribute):
            self.fields[base.attr] = self._grow(self.fields.get(base.attr, BOT), v)
        elif isinstance(base, ast.Subscript):
            self._store(fn, base.value, TV(elem=v))
        elif isinstance(base, ast.Call) and isinstance(base.func, ast.Attribute) and base.func.attr in ("setdefault", "get"):
            self._store(fn, base.func.value, TV(elem=v))

    # -- expressions ------------------------------------------------------------------------------------------------
    def ev(self, fn: Fn, e: Optional[ast.AST]) -> TV:  # noqa: C901
        if e is None or isinstance(e, ast.Constant):
            return BOT
        if isinstance(e, ast.Name):
            return self._lookup(fn, e.id)
        if isinstance(e, ast.Attribute):
            base = self.ev(fn, e.value)
            out = self.fields.get(e.attr, BOT)
            if e.attr in ("string", "pattern") and base.w:
                out = join(out, TV(w=base.w))
            return out
        if isinstance(e, ast.Call):
            return self._call(fn, e)
        if isinstance(e, ast.JoinedStr):
            return self._check_concat(fn, [e], e)
        if isinstance(e, ast.BinOp):
            if isinstance(e.op, (ast.Add, ast.Mod)) and (_is_str_expr(e.left) or _is_str_expr(e.right)):
                if isinstance(e.op, ast.Mod):
                    return self._check_percent(fn, e)
                return self._check_concat(fn, _flatten_add(e), e)
            return join(self.ev(fn, e.left), self.ev(fn, e.right))
        if isinstance(e, ast.BoolOp):
            out = BOT
            for v in e.values:
                out = join(out, self.ev(fn, v))
            return out
        if isinstance(e, ast.UnaryOp):
            self.ev(fn, e.operand)
            return BOT
        if isinstance(e, ast.IfExp):
            self.ev(fn, e.test)
            return join(self.ev(fn, e.body), self.ev(fn, e.orelse))
        if isinstance(e, ast.Compare):
            self._compare(fn, e)
            return BOT
        if isinstance(e, ast.Subscript):
            base = self.ev(fn, e.value)
            k = self.ev(fn, e.slice)
            if k.w and not self.is_const_table(e.value, fn.rel):
                self._sink(k.w, "KEY", fn, e, f"lookup by key: {ast.unparse(e)}")
            out = join(base.elem, TV(w=base.w) if base.w else BOT)
            if base.tup is not None:
                if isinstance(e.slice, ast.Constant) and isinstance(e.slice.value, int) and -len(base.tup) <= e.slice.value < len(base.tup):
                    out = join(out, base.tup[e.slice.value])
                else:
                    for x in base.tup:
                        out = join(out, x)
            if isinstance(e.slice, ast.Slice):
                out = join(out, TV(base.w, base.elem, base.key, None, base.d))
            return out
        if isinstance(e, ast.Slice):
            for x in (e.lower, e.upper, e.step):
                self.ev(fn, x)
            return BOT
        if isinstance(e, ast.Tuple):
            return TV(tup=tuple(self.ev(fn, x.value if isinstance(x, ast.Starred) else x) for x in e.elts))
        if isinstance(e, (ast.List, ast.Set)):
            out = BOT
            for x in e.elts:
                v = self.ev(fn, x.value if isinstance(x, ast.Starred) else x)
                out = join(out, iter_elem(v) if isinstance(x, ast.Starred) else v)
            return TV(elem=out)
        if isinstance(e, ast.Dict):
            kk: Set[int] = set()
            vv = BOT
            for k, v in zip(e.keys, e.values):
                if k is None:
                    sp = self.ev(fn, v)
                    kk |= sp.key
                    vv = join(vv, sp.elem)
                    continue
                tk = self.ev(fn, k)
                if tk.w:
                    self._sink(tk.w, "KEY", fn, k, f"dict literal key: {ast.unparse(k)}")
                kk |= tk.w
                vv = join(vv, self.ev(fn, v))
            return TV(elem=vv, key=frozenset(kk), d=True)
        if isinstance(e, (ast.ListComp, ast.SetComp, ast.GeneratorExp, ast.DictComp)):
            return self._comp(fn, e)
        if isinstance(e, ast.Lambda):
            lf = getattr(e, "_taint_fn", None)
            if lf is None:
                lf = Fn(fn.rel, fn.qualname + ".<lambda>", e, fn, False)
                e._taint_fn = lf  # type: ignore[attr-defined]
            lf.ret = self._grow(lf.ret, self.ev(lf, e.body))
            return BOT
        if isinstance(e, ast.Starred):
            return self.ev(fn, e.value)
        if isinstance(e, ast.NamedExpr):
            v = self.ev(fn, e.value)
            self._bind(fn, e.target, v)
            return v
        if isinstance(e, (ast.Await, ast.Yield, ast.YieldFrom)):
            return self.ev(fn, e.value)
        if isinstance(e, ast.FormattedValue):
            return self.ev(fn, e.value)
        return BOT

    def _comp(self, fn: Fn, e: Any) -> TV:
        # comprehension variables live in the enclosing function's environment (flow-insensitive: harmless)
        for g in e.generators:
            self._bind(fn, g.target, iter_elem(self.ev(fn, g.iter)))
            for c in g.ifs:
                self.ev(fn, c)
        if isinstance(e, ast.DictComp):
            tk = self.ev(fn, e.key)
            if tk.w:
                self._sink(tk.w, "KEY", fn, e.key, f"dict comprehension key: {ast.unparse(e.key)}")
            return TV(elem=self.ev(fn, e.value), key=tk.w, d=True)
        return TV(elem=self.ev(fn, e.elt))

    def _compare(self, fn: Fn, e: ast.Compare) -> None:
        left = e.left
        for op, right in zip(e.ops, e.comparators):
            tl, tr = self.ev(fn, left), self.ev(fn, right)
            cl = self.is_const(left, fn.rel) or self.const_local(fn, left)
            cr = self.is_const(right, fn.rel) or self.is_const_table(right, fn.rel) or self.const_local(fn, right)
            if isinstance(op, (ast.In, ast.NotIn)):
                if tl.w and not cr:
                    self._sink(tl.w, "CMP", fn, e)
                rs = tr.w | tr.key | (EMPTY if tr.d or tr.elem is None else tr.elem.w)
                if tr.tup is not None:
                    for x in tr.tup:
                        rs = rs | x.w
                if rs and not cl:
                    self._sink(frozenset(rs), "CMP", fn, e)
            elif isinstance(op, (ast.Eq, ast.NotEq, ast.Lt, ast.LtE, ast.Gt, ast.GtE)):
                if tl.w and not cr:
                    self._sink(tl.w, "CMP", fn, e)
                if tr.w and not cl:
                    self._sink(tr.w, "CMP", fn, e)
            left = right

    # -- string building ----------------------------------------------------------------------------------------------
    def _parts(self, fn: Fn, items: Sequence[ast.AST]) -> List[Tuple[str, Any]]:
        """Flatten to ('const', text) / ('hole', expr) parts."""
        out: List[Tuple[str, Any]] = []
        for it in items:
            if isinstance(it, ast.Constant) and isinstance(it.value, str):
                out.append(("const", it.value))
            elif isinstance(it, ast.JoinedStr):
                for v in it.values:
                    if isinstance(v, ast.Constant):
                        out.append(("const", str(v.value)))
                    elif isinstance(v, ast.FormattedValue):
                        out.append(("hole", v.value))
            else:
                out.append(("hole", it))
        return out

    def _check_concat(self, fn: Fn, items: Sequence[ast.AST], where: ast.AST) -> TV:
        parts = self._parts(fn, items)
        quotes = 0
        consts = "".join(p[1] for p in parts if p[0] == "const")
        whole = BOT
        for kind, p in parts:
            if kind == "const":
                quotes += p.count('"')
                continue
            v = self.ev(fn, p)
            srcs = set(v.w)
            # ", ".join(xs) / sep.join(xs) directly inside a quoted position: every element is emitted
            if isinstance(p, ast.Call) and isinstance(p.func, ast.Attribute) and p.func.attr == "join" and p.args:
                srcs |= iter_elem(self.ev(fn, p.args[0])).w
            if quotes % 2 == 1 and srcs:
                self._sink(frozenset(srcs), "IDENT", fn, where, f"inside double quotes: {{{ast.unparse(p)}}} in "
                           f"{ast.unparse(where)[:110]}")
            whole = join(whole, TV(w=v.w))
        if consts == "":
            return whole                  # f"{x}" / x + y of plain variables: still the whole string
        return BOT                        # spliced into a larger text: no longer a whole name (A-PART)

    def _check_percent(self, fn: Fn, e: ast.BinOp) -> TV:
        args = list(e.right.elts) if isinstance(e.right, ast.Tuple) else [e.right]
        if isinstance(e.left, ast.Constant) and isinstance(e.left.value, str):
            segs = e.left.value.split("%s")
            quotes = 0
            for i, a in enumerate(args):
                quotes += segs[i].count('"') if i < len(segs) else 0
                v = self.ev(fn, a)
                if quotes % 2 == 1 and v.w:
                    self._sink(v.w, "IDENT", fn, e)
            return BOT
        out = self.ev(fn, e.left)
        for a in args:
            out = join(out, self.ev(fn, a))
        return TV(w=out.w)

    def _check_format(self, fn: Fn, e: ast.Call, template: str) -> TV:
        quotes = 0
        auto = 0
        try:
            parsed = list(string.Formatter().parse(template))
        except ValueError:
            parsed = []
        for lit, field, _spec, _conv in parsed:
            quotes += lit.count('"')
            if field is None:
                continue
            arg: Optional[ast.AST] = None
            name = field.split(".")[0].split("[")[0]
            if name == "" or name.isdigit():
                idx = auto if name == "" else int(name)
                auto += 1
                if idx < len(e.args):
                    arg = e.args[idx]
            else:
                for kw in e.keywords:
                    if kw.arg == name:
                        arg = kw.value
            if arg is None:
                continue
            v = self.ev(fn, arg)
            srcs = set(v.w)
            if isinstance(arg, ast.Call) and isinstance(arg.func, ast.Attribute) and arg.func.attr == "join" and arg.args:
                srcs |= iter_elem(self.ev(fn, arg.args[0])).w
            if quotes % 2 == 1 and srcs:
                self._sink(frozenset(srcs), "IDENT", fn, e)
        return BOT

    # -- calls ----------------------------------------------------------------------------------------------------------
    def _args(self, fn: Fn, e: ast.Call) -> Tuple[List[TV], Dict[Optional[str], TV]]:
        pos = [self.ev(fn, a) for a in e.args]
        kw = {k.arg: self.ev(fn, k.value) for k in e.keywords}
        return pos, kw

    def _ignorecase(self, e: ast.Call, rel: str) -> bool:
        def has_flag(x: ast.AST) -> bool:
            return any(isinstance(n, ast.Attribute) and n.attr in ("IGNORECASE", "I") for n in ast.walk(x))
        if any(has_flag(a) for a in list(e.args[1:]) + [k.value for k in e.keywords]):
            return True
        return bool(e.args) and isinstance(e.args[0], ast.Constant) and isinstance(e.args[0].value, str) \
            and "(?i" in e.args[0].value

    def _call(self, fn: Fn, e: ast.Call) -> TV:  # noqa: C901
        f = e.func
        # ---- sources ----
        if isinstance(f, ast.Attribute) and f.attr in CASE_METHODS and not e.args and not e.keywords:
            recv = self.ev(fn, f.value)
            sid = self._source(fn, e, "method", f.value)
            return TV(w=recv.w | {sid})
        if isinstance(f, ast.Attribute) and f.attr in CASE_METHODS and isinstance(f.value, ast.Name) and f.value.id == "str" \
                and len(e.args) == 1:
            recv = self.ev(fn, e.args[0])
            sid = self._source(fn, e, "method", e.args[0])
            return TV(w=recv.w | {sid})
        if isinstance(f, ast.Attribute) and f.attr in RE_FUNCS and isinstance(f.value, ast.Name) and f.value.id in ("re", "regex") \
                and self._ignorecase(e, fn.rel):
            pos, kw = self._args(fn, e)
            sid = self._source(fn, e, "regex-ignorecase", e.args[0] if e.args else e)
            out = frozenset({sid})
            for v in pos:
                out = out | v.w
            return TV(w=out, elem=TV(w=out))
        pos, kw = self._args(fn, e)
        allargs = pos + list(kw.values())
        if isinstance(f, ast.Attribute):
            recv = self.ev(fn, f.value)
            m = f.attr
            if m == "format" and isinstance(f.value, ast.Constant) and isinstance(f.value.value, str):
                return self._check_format(fn, e, f.value.value)
            if m == "join" and len(e.args) == 1 and not e.keywords:
                sep =f.value.value if isinstance(f.value, ast.Constant) and isinstance(f.value.value, str) else None
                el = iter_elem(pos[0]) if pos else BOT
                if sep is not None and sep.count('"') % 2 == 1 and el.w:
                    self._sink(el.w, "IDENT", fn, e, f"elements joined by a separator that closes/opens double quotes: {ast.unparse(e)[:100]}")
                if sep == "":
                    return TV(w=el.w)
                return BOT if (sep is not None) else TV(w=el.w)
            if m in CMP_METHODS:
                other_const = all(self.is_const(a, fn.rel) or self.const_local(fn, a) for a in e.args)
                if recv.w and not other_const:
                    self._sink(recv.w, "CMP", fn, e)
                if pos and pos[0].w and not (self.is_const(f.value, fn.rel) or self.const_local(fn, f.value)):
                    self._sink(pos[0].w, "CMP", fn, e)
                return BOT
            if m in SCALAR_RESULT:
                return BOT
            if m in ("get", "pop", "setdefault") and pos:
                if pos[0].w and not self.is_const_table(f.value, fn.rel):
                    self._sink(pos[0].w, "KEY", fn, e, f"lookup by key: {ast.unparse(e)[:120]}")
                out = join(recv.elem, pos[1] if len(pos) > 1 else kw.get("default", BOT))
                if m == "setdefault" and len(pos) > 1:
                    self._store(fn, f.value, TV(elem=pos[1], key=pos[0].w))
                if recv.w:
                    out = join(out, TV(w=recv.w))
                return out
            if m == "keys":
                return TV(elem=TV(w=recv.key))
            if m == "values":
                return TV(elem=recv.elem or BOT)
            if m == "items":
                return TV(elem=TV(tup=(TV(w=recv.key), recv.elem or BOT)))
            if m in ("append", "add", "appendleft") and pos:
                self._store(fn, f.value, TV(elem=pos[0]))
                return BOT
            if m == "insert" and len(pos) > 1:
                self._store(fn, f.value, TV(elem=pos[1]))
                return BOT
            if m in ("extend", "update", "union", "intersection", "difference", "symmetric_difference") and pos:
                add = BOT
                for a in pos:
                    add = join(add, TV(elem=a.elem if a.elem is not None else (iter_elem(a) if a != BOT else None), key=a.key))
                for k, v in kw.items():
                    add = join(add, TV(elem=v))
                if m in ("extend", "update"):
                    self._store(fn, f.value, add)
                    return BOT
                return join(recv, add)
            if m in SPLITTERS:
                return TV(w=recv.w, elem=TV(w=recv.w)) if recv.w else BOT
            # functions / methods of the analysed modules, resolved by name
            cands = self._candidates(fn, f)
            if cands:
                return self._invoke(fn, e, cands, pos, kw, method_call=True, recv=recv)
            if m in STR_PRESERVING or m in ("copy", "lstrip"):
                out = TV(recv.w, recv.elem, recv.key, recv.tup, recv.d)
                return out
            # unknown method: result may be derived from the receiver and any argument
            out = TV(w=recv.w)
            for a in allargs:
                out = join(out, TV(w=a.w, elem=a.elem))
            return out
        if isinstance(f, ast.Name):
            n = f.id
            local = self._lookup(fn, n)
            if n in SCALAR_BUILTINS and not self.by_name.get(n):
                return BOT
            if n in ("str", "repr", "Path", "PurePath") and pos:
                return TV(w=pos[0].w)
            if n in ("list", "tuple", "set", "frozenset", "sorted", "reversed", "iter") and pos:
                return TV(elem=iter_elem(pos[0]))
            if n in ("next", "min", "max") and pos:
                out = iter_elem(pos[0])
                for a in pos[1:]:
                    out = join(out, a)
                return out
            if n == "dict":
                out = BOT
                for a in pos:
                    el = a.elem
                    if a.d or a.key:
                        out = join(out, a)
                    elif el is not None and el.tup is not None and len(el.tup) == 2:
                        out = join(out, TV(key=el.tup[0].w, elem=el.tup[1]))
                    elif el is not None:
                        out = join(out, TV(key=el.flat(), elem=el))
                for k, v in kw.items():
                    out = join(out, TV(elem=v))
                return TV(out.w, out.elem, out.key, None, True)
            if n == "zip":
                return TV(elem=TV(tup=tuple(iter_elem(a) for a in pos)))
            if n == "enumerate" and pos:
                return TV(elem=TV(tup=(BOT, iter_elem(pos[0]))))
            if n in ("map", "filter") and len(pos) > 1:
                cands = self.by_name.get(e.args[0].id, []) if isinstance(e.args[0], ast.Name) else []
                if n == "filter":
                    return TV(elem=iter_elem(pos[1]))
                if cands:
                    for c in cands:
                        self._pass(c, [iter_elem(pos[1])], {}, False)
                    out = BOT
                    for c in cands:
                        out = join(out, c.ret)
                    return TV(elem=out)
                return TV(elem=TV(w=iter_elem(pos[1]).w))
            if n == "getattr" and len(e.args) >= 2 and isinstance(e.args[1], ast.Constant):
                out = self.fields.get(str(e.args[1].value), BOT)
                return join(out, pos[2] if len(pos) > 2 else BOT)
            cands = self._candidates(fn, f)
            if cands:
                return self._invoke(fn, e, cands, pos, kw, method_call=False, recv=BOT)
            out = BOT
            for a in allargs:
                out = join(out, TV(w=a.w, elem=a.elem))
            if local.w:
                out = join(out, TV(w=local.w))
            return out
        self.ev(fn, f)
        out = BOT
        for a in allargs:
            out = join(out, TV(w=a.w))
        return out

    def _candidates(self, fn: Fn, f: ast.AST) -> List[Fn]:
        if isinstance(f, ast.Name):
            name = f.id
            imp = self.imports.get(fn.rel, {}).get(name)
            real = imp[1] if imp else name
            cands = self.by_name.get(real, [])
            plain = [c for c in cands if not c.is_method]
            if imp is not None:
                target = _resolve_module(imp[0])
                exact = [c for c in plain if c.rel == target and "." not in c.qualname]
                return exact
            same = [c for c in plain if c.rel == fn.rel]
            # classes of the analysed modules: constructor
            ctor = [c for c in self.by_name.get("__init__", []) if c.qualname == f"{real}.__init__"] + \
                   [c for c in self.by_name.get("__post_init__", []) if c.qualname == f"{real}.__post_init__"]
            return same or ctor
        if isinstance(f, ast.Attribute):
            m = f.attr
            if m == "visit":
                return [c for n, cs in self.by_name.items() if n.startswith("visit") for c in cs if c.is_method]
            base_is_module = isinstance(f.value, ast.Name) and f.value.id in self.module_aliases.get(fn.rel, ())
            cands = self.by_name.get(m, [])
            if base_is_module:
                return [c for c in cands if not c.is_method]
            return [c for c in cands if c.is_method]
        return []

    def _pass(self, callee: Fn, pos: List[TV], kw: Dict[Optional[str], TV], skip_self: bool) -> None:
        params = callee.params[1:] if (skip_self and callee.params and callee.params[0] in ("self", "cls")) else callee.params
        for i, v in enumerate(pos):
            if i < len(params):
                self._set(callee, params[i], v)
            elif callee.vararg:
                self._set(callee, callee.vararg, TV(elem=v))
        for k, v in kw.items():
            if k is None:
                for p in params + callee.kwonly:
                    self._set(callee, p, v.elem or BOT)
            elif k in params or k in callee.kwonly:
                self._set(callee, k, v)
            elif callee.kwarg:
                self._set(callee, callee.kwarg, TV(elem=v, d=True))

    def _invoke(self, fn: Fn, e: ast.Call, cands: List[Fn], pos: List[TV], kw: Dict[Optional[str], TV],
                method_call: bool, recv: TV) -> TV:
        out = BOT
        star = any(isinstance(a, ast.Starred) for a in e.args)
        for c in cands:
            if star:
                allv = BOT
                for v in pos:
                    allv = join(allv, iter_elem(v))
                ps = c.params[1:] if c.is_method else c.params
                self._pass(c, [allv] * len(ps), kw, c.is_method)
            else:
                self._pass(c, pos, kw, c.is_method)
            out = join(out, c.ret)
        return out

    # -- results ----------------------------------------------------------------------------------------------------
    def sinks_of(self, sid: int) -> List[Sink]:
        return sorted((s for s in self.sinks.values() if s.sid == sid), key=lambda s: (s.rel, s.line, s.kind))


def _is_str_expr(e: ast.AST) -> bool:
    if isinstance(e, ast.JoinedStr) or (isinstance(e, ast.Constant) and isinstance(e.value, str)):
        return True
    if isinstance(e, ast.BinOp) and isinstance(e.op, ast.Add):
        return _is_str_expr(e.left) or _is_str_expr(e.right)
    return False


def _flatten_add(e: ast.AST) -> List[ast.AST]:
    if isinstance(e, ast.BinOp) and isinstance(e.op, ast.Add):
        return _flatten_add(e.left) + _flatten_add(e.right)
    return [e]


def _resolve_module(dotted: str) -> Optional[str]:
    if not dotted.startswith("vtlengine"):
        return None
    parts = dotted.split(".")[1:]
    base = SRC.joinpath(*parts) if parts else SRC
    if parts and base.with_suffix(".py").exists():
        return "/".join(parts) + ".py"
    if (base / "__init__.py").exists():
        return "/".join(parts + ["__init__.py"]) if parts else "__init__.py"
    return None


_IMPORTS_CACHE: Dict[Tuple[str, str], Dict[str, Tuple[str, str]]] = {}


def _imports_of(rel: str) -> Dict[str, Tuple[str, str]]:
    k = (str(SRC), rel)
    if k not in _IMPORTS_CACHE:
        _IMPORTS_CACHE[k] = _imports_of_uncached(rel)
    return _IMPORTS_CACHE[k]


def _imports_of_uncached(rel: str) -> Dict[str, Tuple[str, str]]:
    out: Dict[str, Tuple[str, str]] = {}
    pkg = ["vtlengine"] + rel.split("/")[:-1]
    try:
        tree = module_ast(rel)
    except (OSError, SyntaxError):
        return out
    for st in ast.walk(tree):
        if isinstance(st, ast.ImportFrom):
            mod = st.module or ""
            if st.level:
                mod = ".".join(pkg[: len(pkg) - (st.level - 1)] + ([mod] if mod else []))
            for a in st.names:
                out[a.asname or a.name] = (mod, a.name)
    return out
