"""Loader programs: the SQL the REAL loaders execute for one dataset, extracted by calling the real functions of
`duckdb_transpiler/io/_io.py` (register_dataframes / load_datapoints_duckdb / _load_parquet) with a *recording*
connection, and a symbolic single-row interpreter for that statement sequence on top of vc.sqlvc.

What is extracted (nothing is re-typed by hand):
    CREATE TABLE "<ds>" (col type [NOT NULL], ...)            -> column types + NOT NULL flags
    INSERT INTO "<ds>" [(cols)] SELECT e1 AS c1, ... FROM src  -> one load expression per component
    UPDATE "<ds>" SET c = f(c) WHERE cond                      -> normalisation steps (Time_Period)
    SELECT COUNT(*) ... / COUNT(DISTINCT ...) / COALESCE(CASE ...) ... LIMIT 1   -> post-load checks
The Python glue between the statements (what is raised on which fetch result) is exercised natively by the recorder:
it answers each check query with "violated" once and records the exception the real code raises.

Single-row semantics (the value clause of C19/C20/C18 is per datapoint): a row of source cells (nullable character
vectors) is pushed through INSERT expressions, NOT NULL constraints, UPDATE steps and the row-level CASE of the temporal
check; every step can end in a DuckDB error (-> the loader maps it to DataLoadError) .
"""
from __future__ import annotations

import csv as _csv
import os
import re
import tempfile
from dataclasses import dataclass, field
from pathlib import Path
from typing import Any, Dict, List, Optional, Sequence, Tuple

import sqlglot
from sqlglot import exp

from . import calendar as cal
from . import regexvc, smt
from .smt import And, Eq, Ge, Le, Lt, Not, Or, is_sym
from .sqlvc import SV, CStr, SqlEngine, SqlError, SqlOutside, digits_value, is_digit


# ----------------------------------------------------------------------------------------------------------------
# recording connection
# ----------------------------------------------------------------------------------------------------------------
class _Result:
    def __init__(self, rows: Optional[List[Tuple[Any, ...]]], columns: Sequence[str] = (), types: Sequence[str] = ()) -> None:
        self._rows = rows
        self.columns = list(columns)
        self.types = list(types)

    def fetchone(self) -> Any:
        return self._rows[0] if self._rows else None

    def fetchall(self) -> Any:
        return list(self._rows or [])


class RecordingConn:
    """Stands in for duckdb.DuckDBPyConnection: records every statement; answers metadata queries from `source_types`
    (column -> DuckDB type of the registered view / parquet file) and check queries from `answers`."""

    def __init__(self, source_types: Dict[str, str], answers: Optional[Dict[str, Any]] = None) -> None:
        self.statements: List[str] = []
        self.source_types = dict(source_types)
        self.answers = answers or {}
        self.registered: List[str] = []

    def execute(self, sql: str, *a: Any, **k: Any) -> _Result:
        self.statements.append(sql)
        s = " ".join(sql.split())
        if s.upper().startswith("DESCRIBE"):
            return _Result([(c, t) for c, t in self.source_types.items()])
        if "COUNT(DISTINCT" in s:
            return _Result([self.answers.get("duplicates", (1, 1))])
        if re.match(r'SELECT COUNT\(\*\) FROM "', s):
            return _Result([self.answers.get("count", (1,))])
        if "AS INVALID" in s.upper():
            a_ = self.answers.get("temporal")
            return _Result([a_] if a_ is not None else [])
        return _Result([])

    def sql(self, sql: str, *a: Any, **k: Any) -> _Result:
        self.statements.append(sql)
        if "read_parquet" in sql or "read_csv" in sql:
            return _Result([], list(self.source_types), list(self.source_types.values()))
        return _Result([])

    def register(self, name: str, obj: Any) -> None:
        self.registered.append(name)

    def unregister(self, name: str) -> None:
        pass

    def table(self, name: str) -> Any:
        return None


# ----------------------------------------------------------------------------------------------------------------
# the extracted program
# ----------------------------------------------------------------------------------------------------------------
@dataclass
class LoadProgram:
    kind: str                                   # 'df' | 'csv' | 'parquet'
    table: str
    statements: List[str]
    col_types: Dict[str, str] = field(default_factory=dict)
    not_null: Dict[str, bool] = field(default_factory=dict)
    insert: Dict[str, exp.Expression] = field(default_factory=dict)       # target column -> expression over source columns
    insert_where: Optional[exp.Expression] = None
    updates: List[Tuple[str, exp.Expression, Optional[exp.Expression]]] = field(default_factory=list)
    temporal_cases: List[exp.Expression] = field(default_factory=list)
    has_count_check: bool = False
    has_duplicate_check: bool = False
    duplicate_cols: List[str] = field(default_factory=list)
    source_columns: List[str] = field(default_factory=list)
    error: Optional[BaseException] = None       # exception raised by the real loader while building the program
    # row-level steps AFTER the insert, in the order the loader executed them:
    #   ("update", column, expression, where) | ("temporal", [case expressions])
    steps: List[Tuple[Any, ...]] = field(default_factory=list)
    unknown_statements: List[str] = field(default_factory=list)   # executed statements no rule above recognises


def _parse(sql: str) -> exp.Expression:
    return sqlglot.parse_one(sql, read="duckdb")


def _analyse(kind: str, table: str, stmts: List[str]) -> LoadProgram:
    prog = LoadProgram(kind, table, stmts)
    for sql in stmts:
        s = " ".join(sql.split())
        up = s.upper()
        if up.startswith("CREATE TABLE"):
            e = _parse(s)
            for cd in e.this.expressions:
                name = cd.this.name
                prog.col_types[name] = cd.args["kind"].sql(dialect="duckdb").upper()
                prog.not_null[name] = any(isinstance(c.kind, exp.NotNullColumnConstraint) for c in cd.args.get("constraints") or [])
        elif up.startswith("INSERT INTO"):
            e = _parse(s)
            sel = e.expression
            cols = [c.name for c in e.this.expressions] if isinstance(e.this, exp.Schema) else None
            outs = sel.expressions
            names = cols or [x.alias_or_name for x in outs]
            if cols is None:
                # positional insert: i-th expression goes to the i-th table column
                names = list(prog.col_types)[: len(outs)] if len(prog.col_types) == len(outs) else names
            for n, x in zip(names, outs):
                prog.insert[n] = x.this if isinstance(x, exp.Alias) else x
            w = sel.args.get("where")
            prog.insert_where = w.this if w is not None else None
        elif up.startswith("UPDATE"):
            e = _parse(s)
            for a in e.expressions:
                w = e.args.get("where")
                prog.updates.append((a.this.name, a.expression, w.this if w is not None else None))
                prog.steps.append(("update", a.this.name, a.expression, w.this if w is not None else None))
        elif "COUNT(DISTINCT" in up:
            prog.has_duplicate_check = True
            m = re.search(r"COUNT\(DISTINCT \((.*?)\)\) FROM", s)
            prog.duplicate_cols = re.findall(r'"([^"]+)"', m.group(1)) if m else []
        elif re.match(r'SELECT COUNT\(\*\) FROM "', s):
            prog.has_count_check = True
        elif "AS INVALID" in up:
            e = _parse(s)
            co = e.expressions[0].this
            prog.temporal_cases = [co.this] + list(co.expressions) if isinstance(co, exp.Coalesce) else [co]
            prog.steps.append(("temporal", list(prog.temporal_cases)))
        elif not (up.startswith("DESCRIBE") or up.startswith("DROP TABLE") or "READ_PARQUET(" in up and "LIMIT 0" in up):
            prog.unknown_statements.append(s[:200])
    return prog


def extract_program(kind: str, components: Dict[str, Any], source_types: Dict[str, str], name: str = "DS_1",
                    sample: Optional[Dict[str, List[Any]]] = None, answers: Optional[Dict[str, Any]] = None
                    ) -> LoadProgram:
    """Run the REAL loader of the current tree against a recording connection.

    kind='df': register_dataframes with a DataFrame whose columns are `source_types` (values from `sample`, only
    inspected by the real `_detect_date_type_overrides`); kind='csv': load_datapoints_duckdb on a temporary CSV file with
    that header; kind='parquet': _load_parquet with a recording connection describing the file's columns."""
    import pandas as pd
    from vtlengine.duckdb_transpiler.io import _io
    from vtlengine.Model import Dataset

    conn = RecordingConn(source_types, answers)
    err: Optional[BaseException] = None
    cols = list(source_types)
    try:
        if kind == "df":
            df = pd.DataFrame({c: (sample or {}).get(c, ["x"]) for c in cols})
            _io.register_dataframes(conn, {name: df}, {name: Dataset(name, components, None)})  # type: ignore[arg-type]
        elif kind == "csv":
            d = tempfile.mkdtemp(prefix="verif_loadvc_")
            p = Path(d) / f"{name}.csv"
            with open(p, "w", newline="") as f:
                _csv.writer(f).writerow(cols)
            try:
                _io.load_datapoints_duckdb(conn, components, name, p)  # type: ignore[arg-type]
            finally:
                os.unlink(p)
                os.rmdir(d)
        elif kind == "parquet":
            d = tempfile.mkdtemp(prefix="verif_loadvc_")
            p = Path(d) / f"{name}.parquet"
            p.write_bytes(b"")
            try:
                _io.load_datapoints_duckdb(conn, components, name, p)  # type: ignore[arg-type]
            finally:
                os.unlink(p)
                os.rmdir(d)
        else:
            raise ValueError(kind)
    except Exception as e:  # noqa: BLE001 - the loader's own verdict on this structure/columns (e.g. missing identifier)
        err = e
    prog = _analyse(kind, name, conn.statements)
    prog.source_columns = cols
    prog.error = err
    return prog


# ----------------------------------------------------------------------------------------------------------------
# symbolic single-row evaluation
# ----------------------------------------------------------------------------------------------------------------
class LoadEngine(SqlEngine):
    """vc.sqlvc plus what the load expressions need: regexp_matches, NULLIF, REPLACE(x, '"', ''), and
    CAST(VARCHAR AS DATE/TIMESTAMP) on the shapes VALID_DATE_REGEX admits (1-2 digit month/day, optional time part)."""

    pruner: Any = None      # vc.charprune.CharPruner over the character variables (solver-free pruning), optional
    lazy_prune: bool = False
    _macros_of_this_process: Any = None

    def __init__(self, decls: Any = None, macros: Any = None, max_paths: int = 50000) -> None:
        # the macro files are parsed once per process (a check run), not once per engine
        if macros is None:
            if LoadEngine._macros_of_this_process is None:
                from .sqlvc import load_macros
                LoadEngine._macros_of_this_process = load_macros()
            macros = LoadEngine._macros_of_this_process
        super().__init__(decls, macros, max_paths)

    def _feasible(self, cond: Any) -> bool:
        if not is_sym(cond):
            return bool(cond)
        if self.pruner is not None:
            r = self.pruner.feasible(list(self.assume or []) + list(self.pc), cond)
            if r is not None:
                return r
            if self.lazy_prune:
                return True      # last decisions of a row: exploring an infeasible leaf is cheaper than a solver call
        return super()._feasible(cond)

    def ev_Trim(self, e: exp.Trim, env: Dict[str, SV]) -> SV:
        """TRIM(x): as the base model, but a character known to be a decimal digit (rendered from a number) is not a
        blank without asking the solver."""
        a = self.eval(e.this, env)
        if a.sort == "null":
            return a
        chars = list(a.v.chars)

        def blank(c: Any) -> bool:
            if is_digit(c) is True:
                return False
            return self.decide(Eq(c, 32))
        while chars and blank(chars[0]):
            chars.pop(0)
        while chars and blank(chars[-1]):
            chars.pop()
        return SV("str", CStr(chars), a.null)

    # -- two calendar lemmas, used as rewrites (each is verified for EVERY year 1..9999 by lemma_calendar_rewrites(), which the
    #    checks that use this engine run and report as an obligation):
    #      WEEKOFYEAR(MAKE_DATE(y, 12, 28)) = number of ISO weeks of year y      (28 December always lies in the last ISO week)
    #      DAYOFYEAR(MAKE_DATE(y, 12, 31))  = number of days of year y
    #    Without them the solver has to rediscover the 400-year structure of the calendar inside every query.
    @staticmethod
    def _make_date_of(e: Any, month: int, day: int) -> Any:
        x = e.this
        while isinstance(x, exp.Paren):
            x = x.this
        if isinstance(x, exp.DateFromParts):
            m, d = x.args.get("month"), x.args.get("day")
            if isinstance(m, exp.Literal) and isinstance(d, exp.Literal) and m.name == str(month) and d.name == str(day):
                return x.args.get("year")
        return None

    def ev_WeekOfYear(self, e: exp.WeekOfYear, env: Dict[str, SV]) -> SV:
        ye = self._make_date_of(e, 12, 28)
        if ye is not None:
            y = self.eval(ye, env)
            if y.sort == "int":
                self.used_functions.add("lemma:weekofyear(y-12-28)=isoweeks(y)")
                return SV("int", cal.iso_weeks_in_year(y.v), y.null)
        return super().ev_WeekOfYear(e, env)

    def ev_DayOfYear(self, e: exp.DayOfYear, env: Dict[str, SV]) -> SV:
        ye = self._make_date_of(e, 12, 31)
        if ye is not None:
            y = self.eval(ye, env)
            if y.sort == "int":
                self.used_functions.add("lemma:dayofyear(y-12-31)=days(y)")
                return SV("int", cal.days_in_year(y.v), y.null)
        return super().ev_DayOfYear(e, env)

    def ev_Between(self, e: exp.Between, env: Dict[str, SV]) -> SV:
        """a BETWEEN lo AND hi  =  a >= lo AND a <= hi  in three-valued logic."""
        a = self.eval(e.this, env)
        x = self.compare(a, self.eval(e.args["low"], env), ">=")
        y = self.compare(a, self.eval(e.args["high"], env), "<=")
        false_x, false_y = And(Not(x.null), Not(x.v)), And(Not(y.null), Not(y.v))
        return SV("bool", And(Or(x.null, x.v), Or(y.null, y.v)),
                  And(Or(x.null, y.null), Not(false_x), Not(false_y)))

    def ev_RegexpLike(self, e: exp.RegexpLike, env: Dict[str, SV]) -> SV:
        a = self.eval(e.this, env)
        p = self.eval(e.expression, env)
        pat = p.v.concrete() if p.sort == "str" else None
        if pat is None:
            raise SqlOutside("regexp_matches with a non-literal pattern")
        if a.sort == "null":
            return SV("bool", False, True)
        if a.sort != "str":
            raise SqlOutside(f"regexp_matches on {a.sort}")
        try:
            cond = regexvc.search(pat, a.v.chars)
        except regexvc.RegexOutside as x:
            raise SqlOutside(f"regex: {x}") from x
        return SV("bool", cond, a.null)

    def ev_Nullif(self, e: exp.Nullif, env: Dict[str, SV]) -> SV:
        a = self.eval(e.this, env)
        b = self.eval(e.expression, env)
        if a.sort == "null":
            return a
        eq = self.compare(a, b, "=")
        if self.decide(self.truth(eq)):
            return SV(a.sort, a.v, True)
        return a

    def ev_Replace(self, e: exp.Replace, env: Dict[str, SV]) -> SV:
        a = self.eval(e.this, env)
        s = self.eval(e.expression, env)
        r = self.eval(e.args["replacement"], env)
        if a.sort == "null":
            return a
        sc, rc = s.v.concrete(), r.v.concrete()
        if sc is None or rc is None or len(sc) != 1:
            raise SqlOutside("REPLACE with a symbolic or multi-character pattern")
        out: List[Any] = []
        for c in a.v.chars:
            if self.decide(Eq(c, ord(sc))):
                out.extend(ord(x) for x in rc)
            else:
                out.append(c)
        return SV("str", CStr(out), a.null)

    def parse_date_prefix(self, s: CStr) -> Tuple[Any, int]:
        """DuckDB's non-strict date parser on texts that start with four digits and '-': YYYY-M[M]-D[D]; the month and
        the day take a second digit when one follows, a third digit after the day is an error, the field separator must be
        '-', and whatever follows the day is ignored by CAST(.. AS DATE).  Returns (days, position after the day).
        Texts that do not start with 'dddd-' are an error when one of the first four characters is a letter, ':' or '#'
        (no spelling DuckDB reads as a date has one there) and outside the model otherwise (3/5-digit years, leading
        blanks, '/' separators).  Validated against the real DuckDB by the conformance sampling of the checks."""
        ch = s.chars
        n = len(ch)

        def bad() -> SqlError:
            return SqlError("Conversion Error: invalid date field format", "conversion")

        def never(c: Any) -> Any:
            return Or(And(Ge(c, 65), Le(c, 90)), And(Ge(c, 97), Le(c, 122)), Eq(c, 58), Eq(c, 35))
        if n < 4:
            raise SqlOutside("CAST(VARCHAR AS DATE) of a text shorter than 4 characters")
        if self.decide(Or(*[never(c) for c in ch[:4]])):
            raise bad()
        if n < 5 or not self.decide(And(*[is_digit(c) for c in ch[:4]], Eq(ch[4], 45))):
            raise SqlOutside("CAST(VARCHAR AS DATE) on a text that does not start with 'dddd-'")
        pos = 5
        if pos >= n or not self.decide(is_digit(ch[pos])):
            raise bad()
        mch = [ch[pos]]
        pos += 1
        if pos < n and self.decide(is_digit(ch[pos])):
            mch.append(ch[pos])
            pos += 1
        if pos >= n or not self.decide(Eq(ch[pos], 45)):
            raise bad()
        pos += 1
        if pos >= n or not self.decide(is_digit(ch[pos])):
            raise bad()
        dch = [ch[pos]]
        pos += 1
        if pos < n and self.decide(is_digit(ch[pos])):
            dch.append(ch[pos])
            pos += 1
            if pos < n and self.decide(is_digit(ch[pos])):
                raise bad()
        y, m, d = digits_value(ch[:4]), digits_value(mch), digits_value(dch)
        if not self.decide(cal.valid_date(y, m, d)):
            raise SqlError("Conversion Error: date field value out of range", "conversion")
        return cal.days_from_civil(y, m, d, True), pos

    def cstr_to_date(self, s: CStr) -> SV:
        z, _pos = self.parse_date_prefix(s)
        return SV("date", z, False)

    def cstr_to_ts(self, s: CStr) -> SV:
        """CAST(VARCHAR AS TIMESTAMP) is strict about what follows the date: modelled for end of text and for a
        complete [ T]HH:MM:SS time part with in-range fields (value = the day; the time of day is not interpreted);
        any other continuation is outside the model."""
        z, pos = self.parse_date_prefix(s)
        rest = s.chars[pos:]
        if not rest:
            return SV("ts", z, False)
        if len(rest) >= 9:
            from .regexvc import fullmatch
            ok = fullmatch(r"[ T]([01]\d|2[0-3]):[0-5]\d:[0-5]\d(\.\d+)?([+-]\d{2}:\d{2}|Z)?", rest)
            if self.decide(ok):
                return SV("ts", z, False)
        raise SqlOutside("CAST(VARCHAR AS TIMESTAMP): continuation after the date that is not a complete time part")

    def cast(self, a: SV, to: exp.DataType, try_cast: bool, env: Dict[str, SV]) -> SV:
        tname = to.sql(dialect="duckdb").upper()
        if tname in ("TIMESTAMP", "DATE") and a.sort == "str" and try_cast:
            # TRY_CAST: a text DuckDB cannot read as a date yields NULL instead of an error (on this path)
            if self.decide(a.null):
                return SV("ts" if tname == "TIMESTAMP" else "date", 0, True)
            try:
                return self.cstr_to_ts(a.v) if tname == "TIMESTAMP" else self.cstr_to_date(a.v)
            except SqlError:
                return SV("ts" if tname == "TIMESTAMP" else "date", 0, True)
        if tname == "TIMESTAMP" and a.sort == "str":
            if self.decide(a.null):
                return SV("ts", 0, True)
            return self.cstr_to_ts(a.v)
        return super().cast(a, to, try_cast, env)


def lemma_calendar_rewrites(real_conn: Any = None) -> Tuple[bool, str]:
    """Verify the two rewrites of LoadEngine for every year 1..9999 (complete over the domain, no solver): the closed forms
    the base model uses for WEEKOFYEAR / DAYOFYEAR agree with iso_weeks_in_year / days_in_year on 28 / 31 December, and
    (when a connection is given) so does the real DuckDB."""
    for y in range(1, 10000):
        wk = cal.iso_year_week(cal.days_from_civil(y, 12, 28, True))[1]
        if wk != cal.iso_weeks_in_year(y):
            return False, f"year {y}: week of 28 December is {wk}, iso_weeks_in_year gives {cal.iso_weeks_in_year(y)}"
        dy = cal.day_of_year(cal.days_from_civil(y, 12, 31, True))
        if dy != cal.days_in_year(y):
            return False, f"year {y}: day of year of 31 December is {dy}, days_in_year gives {cal.days_in_year(y)}"
    if real_conn is not None:
        rows = real_conn.execute("SELECT y, WEEKOFYEAR(MAKE_DATE(y, 12, 28)), DAYOFYEAR(MAKE_DATE(y, 12, 31)) "
                                 "FROM range(1, 10000) t(y)").fetchall()
        for y, wk, dy in rows:
            if wk != cal.iso_weeks_in_year(int(y)) or dy != cal.days_in_year(int(y)):
                return False, f"real DuckDB, year {y}: WEEKOFYEAR={wk} DAYOFYEAR={dy}"
    return True, "all years 1..9999" + (" (model closed forms and the real DuckDB)" if real_conn is not None else "")


@dataclass
class RowOutcome:
    accepted: bool
    stored: Dict[str, SV]
    reason: str = ""


def run_row(eng: SqlEngine, prog: LoadProgram, row: Dict[str, SV]) -> RowOutcome:
    """One source row through the extracted program.  Raises SqlOutside when a step leaves the model."""
    env = {k.lower(): v for k, v in row.items()}
    stored: Dict[str, SV] = {}
    if hasattr(eng, "lazy_prune"):
        eng.lazy_prune = False
    try:
        if prog.insert_where is not None:
            keep = eng.truth(eng.as_bool(eng.eval(prog.insert_where, env)))
            if not eng.decide(keep):
                return RowOutcome(True, {}, "row filtered out (ACTION = 'D')")
        for col in prog.col_types:
            if col not in prog.insert:
                raise SqlOutside(f"column {col} not inserted")
            stored[col] = eng.eval(prog.insert[col], env)
        for col, nn in prog.not_null.items():
            if nn:
                v = stored[col]
                if v.sort == "null" or eng.decide(v.null):
                    return RowOutcome(False, stored, f"NOT NULL constraint on {col}")
        if prog.unknown_statements:
            raise SqlOutside(f"the loader executes a statement this interpreter does not know: {prog.unknown_statements[0]}")
        # the steps after the INSERT, in the order the loader executed them (normalisation before or after a check matters)
        last = max((i for i, s in enumerate(prog.steps) if s[0] == "temporal"), default=-1)
        for i, step in enumerate(prog.steps):
            senv = {k.lower(): v for k, v in stored.items()}
            if step[0] == "update":
                _k, col, e, w = step
                if w is None or eng.decide(eng.truth(eng.as_bool(eng.eval(w, senv)))):
                    stored[col] = eng.eval(e, senv)
                    if prog.not_null.get(col) and (stored[col].sort == "null" or eng.decide(stored[col].null)):
                        return RowOutcome(False, stored, f"NOT NULL constraint on {col} (UPDATE)")
                continue
            if hasattr(eng, "lazy_prune") and i == last and i == len(prog.steps) - 1:
                eng.lazy_prune = eng.pruner is not None
            for c in step[1]:
                r = eng.eval(c, senv)
                if r.sort == "null":
                    continue
                if not eng.decide(r.null):
                    if r.sort == "str" and len(r.v) == 0:
                        continue
                    return RowOutcome(False, stored, "temporal format check")
    except SqlError as e:
        return RowOutcome(False, stored, f"DuckDB error: {str(e.msg)[:80]} [{e.kind}]")
    return RowOutcome(True, stored)
