"""Many small SMT queries over the same declarations in ONE solver process (push / check-sat / get-value / pop).

The solver CLIs take 0.1-1 s to start; the two-engine checks (C20) ask hundreds of tiny questions (one per path).  A
case that the batch leaves undecided (unknown / timeout / parse trouble) is re-run alone through core.run_smt (z3, then
cvc5), so the batch is only an accelerator: a verdict is always a solver's `sat` (with model) or `unsat`.
"""
from __future__ import annotations

import os
import subprocess
import tempfile
import time
from typing import Any, Dict, List, Sequence

from . import core, smt
from .core import SmtResult
from .smt import is_sym


def _assert(a: Any) -> str:
    return f"(assert {a.sx})" if is_sym(a) else f"(assert {smt.lit(bool(a))})"


def run_batch(decls: Any, common: Sequence[Any], cases: Sequence[Sequence[Any]], get: Sequence[str] = (),
              case_timeout: float = 10.0, retry_timeout: float = 60.0, tag: str = "batch") -> List[SmtResult]:
    if not cases:
        return []
    alltext = " ".join(a.sx for a in list(common) + [x for c in cases for x in c] if is_sym(a)) + " " + " ".join(decls.axioms)
    body = [decls.header(None)]
    body.extend(smt._shared_defs(alltext))
    body.extend(_assert(a) for a in common)
    gv = "(get-value (" + " ".join(smt.q(g) if not g.startswith("(") else g for g in get) + "))" if get else ""
    for k, c in enumerate(cases):
        body.append(f'(echo "@@case {k}")')
        body.append("(push 1)")
        body.extend(_assert(a) for a in c)
        body.append("(check-sat)")
        if gv:
            body.append(gv)
        body.append("(pop 1)")
    text = "\n".join(body) + "\n"
    d = core._smt_dir()
    fd, path = tempfile.mkstemp(prefix=tag[:30] + "_", suffix=".smt2", dir=d)
    with os.fdopen(fd, "w") as f:
        f.write(text)
    t0 = time.time()
    budget = case_timeout * len(cases) + 30
    try:
        p = subprocess.run([core.Z3, "-smt2", f"-t:{int(case_timeout * 1000)}", f"-T:{int(budget)}", path],
                           capture_output=True, text=True, timeout=budget + 20)
        out = p.stdout
    except subprocess.TimeoutExpired as e:
        out = (e.stdout or b"").decode() if isinstance(e.stdout, bytes) else (e.stdout or "")
    finally:
        try:
            os.unlink(path)
        except OSError:
            pass
    dt = time.time() - t0
    chunks: Dict[int, str] = {}
    cur = None
    for line in out.splitlines():
        if line.startswith("@@case "):
            cur = int(line.split()[1])
            chunks[cur] = ""
        elif cur is not None:
            chunks[cur] += line + "\n"
    res: List[SmtResult] = []
    for k, c in enumerate(cases):
        ch = chunks.get(k, "").strip()
        first = ch.splitlines()[0].strip() if ch else ""
        if first == "unsat":
            res.append(SmtResult("unsat", "z3", dt / len(cases)))
            continue
        if first == "sat":
            model = core._parse_values(ch[len("sat"):]) if get else {}
            if not get or all(g in model for g in get):
                res.append(SmtResult("sat", "z3", dt / len(cases), model=model, raw=ch[:400]))
                continue
        # undecided in the batch: alone, with both solvers
        res.append(core.run_smt(smt.query(decls, list(common) + list(c), get=list(get)), timeout=retry_timeout, tag=tag))
    return res
