"""Bounded native search: every input of a finite range through the REAL macro in the REAL DuckDB, compared with a
computable specification.  Used as the last resort of an obligation whose deductive route ended undecided (solver
`unknown`, path outside the SQL model): a concrete disagreement is a violation that needs no further replay (it IS the
native run); no disagreement proves nothing and leaves the obligation undecided.

Rows whose specified outcome is a value are shipped to DuckDB as one relation per chunk and evaluated in one query;
a chunk in which the macro raises is bisected down to the offending rows (the search stops after `stop_after`
disagreements, so a macro that raises everywhere costs a bounded number of queries).  Rows whose specified outcome is
an error have to be evaluated one query each (one raising row aborts a whole query; DuckDB's TRY() refuses the
volatile error()), so they are thinned to at most `max_error_rows` evenly spread rows - reported in the detail."""
from __future__ import annotations

import datetime
from typing import Any, Callable, Dict, List, Optional, Sequence, Tuple

from . import sqlconf

Outcome = Tuple[str, Any]          # ("value", v) | ("error", first line of the message)
Row = Tuple[Any, ...]


def _norm(v: Any) -> Any:
    if isinstance(v, datetime.datetime) and v.time() == datetime.time():
        return v.date()
    return v


def agree(got: Outcome, want: Outcome) -> bool:
    """want = ("value", v) or ("error", substring that the message must contain)."""
    if got[0] != want[0]:
        return False
    if got[0] == "error":
        return str(want[1]) in str(got[1])
    return _norm(got[1]) == _norm(want[1])


class _Stop(Exception):
    pass


def _eval_chunk(con: Any, cols: Sequence[str], expr: str, rows: Sequence[Row],
                sink: Callable[[Row, Outcome], None]) -> None:
    import pandas as pd
    if not rows:
        return
    df = pd.DataFrame(list(rows), columns=list(cols))
    df.insert(0, "rid__", range(len(rows)))
    con.register("native_rows__", df)
    try:
        res = con.execute(f"SELECT rid__, {expr} FROM native_rows__ ORDER BY rid__").fetchall()
    except Exception as e:  # noqa: BLE001
        res = None
        msg = str(e).split("\n")[0]
    finally:
        con.unregister("native_rows__")
    if res is not None:
        for row, r in zip(rows, res):
            sink(row, ("value", r[1]))
        return
    if len(rows) == 1:
        sink(rows[0], ("error", msg))
        return
    h = len(rows) // 2
    _eval_chunk(con, cols, expr, rows[:h], sink)
    _eval_chunk(con, cols, expr, rows[h:], sink)


def scan(cols: Sequence[str], expr: str, rows: Sequence[Row], want: Callable[[Row], Outcome], chunk: int = 20000,
         keep: int = 5, stop_after: int = 40, max_error_rows: int = 300
         ) -> Tuple[int, int, List[Tuple[Row, Outcome, Outcome]], str]:
    """Evaluates the SQL expression `expr` (over the columns `cols`) on the rows in the real DuckDB (macros of the
    working tree installed by the repository's own initializer) and compares with want(row).
    Returns (#rows evaluated, #disagreements (a lower bound when the search stopped early), first `keep`
    disagreements as (row, got, want), note)."""
    con = sqlconf.conn()
    wants: Dict[Row, Outcome] = {}
    vrows: List[Row] = []
    erows: List[Row] = []
    for r in rows:
        w = want(r)
        wants[r] = w
        (erows if w[0] == "error" else vrows).append(r)
    note = ""
    if len(erows) > max_error_rows:
        step = -(-len(erows) // max_error_rows)
        note = f"; rows specified to raise: {len(erows[::step])} of {len(erows)} evaluated (one query each)"
        erows = erows[::step]
    state = {"n": 0, "bad": 0}
    bad: List[Tuple[Row, Outcome, Outcome]] = []

    def sink(row: Row, got: Outcome) -> None:
        state["n"] += 1
        if not agree(got, wants[row]):
            state["bad"] += 1
            if len(bad) < keep:
                bad.append((row, got, wants[row]))
            if state["bad"] >= stop_after:
                raise _Stop()

    try:
        for i in range(0, len(vrows), chunk):
            _eval_chunk(con, cols, expr, vrows[i:i + chunk], sink)
        for r in erows:
            _eval_chunk(con, cols, expr, [r], sink)
    except _Stop:
        note += f"; search stopped after {stop_after} disagreements"
    return state["n"], state["bad"], bad, note


def period_expr(y: str = "y", ind: str = "ind", n: str = "n") -> str:
    return f"{{'year': {y}, 'period_indicator': {ind}, 'period_number': {n}}}::vtl_time_period"


def report(what: str, res: Tuple[int, int, List[Tuple[Row, Outcome, Outcome]], str],
           show: Callable[[Row], str], key: str,
           witness: Optional[Callable[[Row, Outcome, Outcome], Dict[str, Any]]] = None
           ) -> Tuple[bool, str, Any, str]:
    """Result tuple for vc.sqlcheck.discharge_groups(fallback=...)."""
    n, nbad, bad, note = res
    if not nbad:
        return False, f"bounded native search ({what}): {n} inputs through the real DuckDB, no disagreement with the " \
                      f"specification{note} (proves nothing: still undecided)", None, key
    row, got, w = bad[0]
    detail = (f"bounded native search ({what}): {nbad} of {n} inputs disagree with the calendar specification in the "
              f"real DuckDB{note}; first: {show(row)} = {got[1]!r} ({got[0]}); specification: {w[1]!r} ({w[0]})")
    wit = witness(row, got, w) if witness else {"input": show(row), "real": str(got[1]), "specification": str(w[1])}
    wit["disagreements"] = nbad
    wit["inputs_searched"] = n
    wit["further"] = [f"{show(r)} -> {g[1]!r}, specification {ww[1]!r}" for r, g, ww in bad[1:]]
    return True, detail, wit, key
