"""Regular-expression matching over character vectors of concrete length (vc.sqlvc.CStr) -> SMT condition.

The pattern text is the one found in the real source (Python `re` patterns and the patterns spliced into DuckDB
`regexp_matches`, which is RE2 partial-match).  It is parsed with CPython's own regex parser (`re._parser`), so the
structure is exactly what `re` sees; the supported subset (literals, classes, ranges, \\d \\s \\w, '.', alternation,
groups, greedy/lazy bounded and unbounded repeats, ^ $ \\A \\Z anchors) is regular, and for regular patterns RE2 and
`re` agree on WHETHER a match exists.  Anything else raises RegexOutside (obligation becomes undecided).

Character domain assumption (stated by the checks that use this): code points 32..126 (printable ASCII).  On that
domain \\d = [0-9] in both engines and '$' cannot match before a trailing newline.

    search(pattern, chars)    -> condition "pattern matches somewhere in the string"   (re.search / regexp_matches)
    fullmatch(pattern, chars) -> condition "pattern matches the whole string"          (re.fullmatch)
    match(pattern, chars)     -> condition "pattern matches at the start"              (re.match)
"""
from __future__ import annotations

import re
from typing import Any, Dict, List, Sequence, Tuple

try:  # Python >= 3.11
    import re._parser as sre_parse  # type: ignore
    import re._constants as sre_c  # type: ignore
except ImportError:  # pragma: no cover
    import sre_parse  # type: ignore
    import sre_constants as sre_c  # type: ignore

from .smt import And, Eq, Ge, Le, Not, Or, is_sym


class RegexOutside(Exception):
    pass


def _cat(cat: Any, c: Any) -> Any:
    name = str(cat)
    if name.endswith("CATEGORY_DIGIT"):
        return And(Ge(c, 48), Le(c, 57))
    if name.endswith("CATEGORY_NOT_DIGIT"):
        return Not(And(Ge(c, 48), Le(c, 57)))
    if name.endswith("CATEGORY_SPACE"):
        return Or(Eq(c, 32), And(Ge(c, 9), Le(c, 13)))
    if name.endswith("CATEGORY_NOT_SPACE"):
        return Not(Or(Eq(c, 32), And(Ge(c, 9), Le(c, 13))))
    if name.endswith("CATEGORY_WORD"):
        return Or(And(Ge(c, 48), Le(c, 57)), And(Ge(c, 65), Le(c, 90)), And(Ge(c, 97), Le(c, 122)), Eq(c, 95))
    if name.endswith("CATEGORY_NOT_WORD"):
        return Not(Or(And(Ge(c, 48), Le(c, 57)), And(Ge(c, 65), Le(c, 90)), And(Ge(c, 97), Le(c, 122)), Eq(c, 95)))
    raise RegexOutside(f"category {name}")


def _in(items: Sequence[Tuple[Any, Any]], c: Any) -> Any:
    neg = False
    alts: List[Any] = []
    for op, av in items:
        if op is sre_c.NEGATE:
            neg = True
        elif op is sre_c.LITERAL:
            alts.append(Eq(c, av))
        elif op is sre_c.RANGE:
            alts.append(And(Ge(c, av[0]), Le(c, av[1])))
        elif op is sre_c.CATEGORY:
            alts.append(_cat(av, c))
        else:
            raise RegexOutside(f"class item {op}")
    r = Or(*alts) if alts else False
    return Not(r) if neg else r


Ends = Dict[int, Any]   # end position -> condition


def _merge(into: Ends, j: int, cond: Any) -> None:
    if not is_sym(cond) and not cond:
        return
    into[j] = Or(into[j], cond) if j in into else cond


class _M:
    def __init__(self, chars: Sequence[Any], ignorecase: bool = False) -> None:
        self.s = list(chars)
        self.n = len(self.s)
        self.ic = ignorecase

    def lit(self, c: Any, code: int) -> Any:
        if self.ic and (65 <= code <= 90 or 97 <= code <= 122):
            return Or(Eq(c, code), Eq(c, code ^ 32))
        return Eq(c, code)

    def seq(self, items: Sequence[Any], i: int) -> Ends:
        cur: Ends = {i: True}
        for it in items:
            nxt: Ends = {}
            for j, cj in cur.items():
                for k, ck in self.one(it, j).items():
                    _merge(nxt, k, And(cj, ck))
            cur = nxt
            if not cur:
                break
        return cur

    def one(self, it: Tuple[Any, Any], i: int) -> Ends:  # noqa: C901
        op, av = it
        if op is sre_c.LITERAL:
            return {i + 1: self.lit(self.s[i], av)} if i < self.n else {}
        if op is sre_c.NOT_LITERAL:
            return {i + 1: Not(self.lit(self.s[i], av))} if i < self.n else {}
        if op is sre_c.ANY:
            return {i + 1: Not(Eq(self.s[i], 10))} if i < self.n else {}
        if op is sre_c.IN:
            if self.ic:
                raise RegexOutside("character class under IGNORECASE")
            return {i + 1: _in(av, self.s[i])} if i < self.n else {}
        if op is sre_c.CATEGORY:
            return {i + 1: _cat(av, self.s[i])} if i < self.n else {}
        if op is sre_c.BRANCH:
            out: Ends = {}
            for alt in av[1]:
                for j, c in self.seq(list(alt), i).items():
                    _merge(out, j, c)
            return out
        if op is sre_c.SUBPATTERN:
            # (group, add_flags, del_flags, pattern)
            if av[1] or av[2]:
                raise RegexOutside("inline flags")
            return self.seq(list(av[3]), i)
        if op in (sre_c.MAX_REPEAT, sre_c.MIN_REPEAT):
            lo, hi, sub = av
            sub = list(sub)
            out = {}
            cur: Ends = {i: True}
            k = 0
            if lo == 0:
                _merge(out, i, True)
            while cur and (hi is sre_c.MAXREPEAT or k < hi) and k <= self.n + 1:
                nxt: Ends = {}
                for j, cj in cur.items():
                    for e, ce in self.seq(sub, j).items():
                        if e == j:
                            continue     # empty iteration adds nothing new
                        _merge(nxt, e, And(cj, ce))
                k += 1
                cur = nxt
                if k >= lo:
                    for j, cj in cur.items():
                        _merge(out, j, cj)
            return out
        if op is sre_c.AT:
            name = str(av)
            if name.endswith("AT_BEGINNING") or name.endswith("AT_BEGINNING_STRING"):
                return {i: True} if i == 0 else {}
            if name.endswith("AT_END") or name.endswith("AT_END_STRING"):
                return {i: True} if i == self.n else {}
            raise RegexOutside(f"anchor {name}")
        raise RegexOutside(f"regex construct {op}")


def _parse(pattern: str, flags: int = 0) -> List[Any]:
    if flags & ~re.IGNORECASE:
        raise RegexOutside(f"flags {flags}")
    try:
        return list(sre_parse.parse(pattern, flags))
    except re.error as e:  # noqa: PERF203
        raise RegexOutside(f"pattern does not parse: {e}") from e


def match_ends(pattern: str, chars: Sequence[Any], start: int = 0, flags: int = 0) -> Ends:
    return _M(chars, bool(flags & re.IGNORECASE)).seq(_parse(pattern, flags), start)


def match(pattern: str, chars: Sequence[Any], flags: int = 0) -> Any:
    e = match_ends(pattern, chars, 0, flags)
    return Or(*e.values()) if e else False


def fullmatch(pattern: str, chars: Sequence[Any], flags: int = 0) -> Any:
    return match_ends(pattern, chars, 0, flags).get(len(chars), False)


def search(pattern: str, chars: Sequence[Any], flags: int = 0) -> Any:
    items = _parse(pattern, flags)
    m = _M(chars, bool(flags & re.IGNORECASE))
    alts = []
    for i in range(len(chars) + 1):
        e = m.seq(items, i)
        if e:
            alts.append(Or(*e.values()))
    return Or(*alts) if alts else False
