"""Partial string / regex operations for the symbolic Python interpreter (vc.pyvc) — additive, installed per engine.

`vc.pyext` returns an unmodelled value (`Opaque`) for `s.split(sep)` on a symbolic string, and every later operation on
an Opaque is Opaque again — in particular `parts[1]` never raises.  For totality / exception-flow clauses ("the function
never raises anything but X, for EVERY text") that is unsound: the IndexError / AttributeError / ValueError outcome of
the surgery is exactly what has to be explored.  `install(eng)` replaces, on that engine only:

  s.split(sep[, k]) / s.rsplit(sep[, k])   -> SymStrList with a symbolic length n:
                                              n >= 1;  n >= 2 <=> sep in s;  n <= k + 1;  (no sep: n >= 0);  sep == "" raises
                                              ValueError;  elements are fresh strings (not containing sep when k is absent)
  lst[i]  (SymStrList)                      -> raises IndexError unless the path condition forces n > i  (i < 0: n >= -i);
                                              the decision is pruned by the solver, so a guard such as `if sep in s` /
                                              `if len(parts) >= 2` removes the raising branch
  lst[a:b]                                  -> total (a fresh SymStrList with 0 <= n' <= n)
  len(lst), bool(lst)                       -> n, n > 0
  s.partition / s.rpartition                -> total, 3 fresh strings
  re.search / re.match / re.fullmatch       -> fork: None | SymMatch (pattern analysed natively with `re`)
  m.group(k) / m[k]                         -> IndexError when k is not a group of the pattern; None-or-string when the
                                              group sits under an optional / alternative construct; else a fresh string
  m.groups(), m.start/end/span              -> total
  re.sub / re.split / re.findall            -> total results (fresh string / SymStrList)
and sets two engine flags read by pyvc / pyext:
  none_attr_raises     `None.attr` raises AttributeError (instead of leaving the subset)
  strict_partial_ops   subscript / attribute / int() of a still-unmodelled value leaves the subset (path = undecided)
                       instead of silently yielding another unmodelled value that can never raise
`model_text(eng, pc, var)` asks the solver for a concrete text on a path (lower-case, so that the uninterpreted
`py.lower` agrees with the real one) — used to replay a refuted path on the real function.
"""
from __future__ import annotations

import re
from typing import Any, Dict, List, Optional, Sequence, Set, Tuple

from . import smt
from .core import run_smt
from .smt import BOOL, INT, STR, T, Eq, Not, Or, is_sym


def _native(h: Any) -> Any:
    def w(eng: Any, *a: Any, **k: Any) -> Any:
        return h(eng, *a, **k)
    w._pyvc_native = True  # type: ignore[attr-defined]
    return w


_STR_ATOMS = {"str.contains", "str.prefixof", "str.suffixof", "str.in_re", "str.<", "str.<=", "str.is_digit", "py.int_ok"}
_TOK = re.compile(r'"(?:[^"]|"")*"|\|[^|]*\||\(|\)|[^\s()]+')
_ABS_CACHE: Dict[str, bool] = {}


def _abstract(sx: str, table: Dict[str, str]) -> str:
    """Replace every Bool-valued string atom of an s-expression by a propositional variable (same atom, same name)."""
    toks = _TOK.findall(sx)
    pos = 0

    def parse() -> Any:
        nonlocal pos
        t = toks[pos]
        pos += 1
        if t == "(":
            lst = []
            while toks[pos] != ")":
                lst.append(parse())
            pos += 1
            return lst
        return t

    def show(x: Any) -> str:
        return "(" + " ".join(show(y) for y in x) + ")" if isinstance(x, list) else x

    def walk(x: Any) -> Any:
        if not isinstance(x, list) or not x:
            return x
        head = x[0]
        is_atom = isinstance(head, str) and (head in _STR_ATOMS or (
            head in ("=", "distinct") and any(isinstance(a, str) and a.startswith('"') for a in x[1:])))
        if is_atom:
            key = show(x)
            if key not in table:
                table[key] = f"|abs!{len(table)}|"
            return table[key]
        return [walk(y) for y in x]
    tree = parse()
    return show(walk(tree))


def abstract_infeasible(eng: Any, cond: Any) -> bool:
    """True when (path condition and cond) is unsatisfiable already in the abstraction that treats every string atom
    (str.contains ..., string equalities ...) as an independent proposition: linear arithmetic over the symbolic lengths
    plus propositional structure.  Sound for pruning (the abstraction is weaker), deterministic and fast."""
    asserts = [a for a in list(eng.axioms) + list(eng.pc) + [cond] if is_sym(a)]
    if any("$s" in a.sx for a in asserts):
        return False
    table: Dict[str, str] = {}
    try:
        abs_asserts = [_abstract(a.sx, table) for a in asserts]
    except IndexError:
        return False
    # only what the abstracted assertions mention needs declaring
    body = " ".join(abs_asserts)
    lines = []
    for n, (a, r) in eng.decls.funs.items():
        if smt.q(n) in body:
            lines.append(f"(declare-fun {smt.q(n)} ({' '.join(a)}) {r})")
    for n, s in eng.decls.consts.items():
        if smt.q(n) in body:
            lines.append(f"(declare-const {smt.q(n)} {s})")
    lines += [f"(declare-const {v} Bool)" for v in table.values()]
    lines += [f"(assert {a})" for a in abs_asserts]
    lines.append("(check-sat)")
    key = "\n".join(a for a in abs_asserts)
    if key not in _ABS_CACHE:
        r = run_smt("\n".join(lines) + "\n", timeout=10, tag="absprune", backends=("z3",))
        _ABS_CACHE[key] = r.status == "unsat"
    return _ABS_CACHE[key]


_CMP = re.compile(r"^\((<=|>=|<|>) (\S+) (\d+)\)$")


def quick_infeasible(eng: Any, cond: Any) -> bool:
    """Solver-free interval reasoning for the common shape `n <cmp> k` (n a symbolic length): bounds of n are read off
    the path condition (`(>= n k)`, `(not (<= n k))`, `(= (>= n k) ATOM)` with ATOM / (not ATOM) on the path ...).
    True only when cond certainly contradicts them; anything unrecognised is simply not used (sound for pruning)."""
    sx = cond.sx
    neg = False
    if sx.startswith("(not ") and sx.endswith(")"):
        sx, neg = sx[5:-1], True
    m = _CMP.match(sx)
    if not m:
        return False
    op, var, k = m.group(1), m.group(2), int(m.group(3))
    if neg:
        op, k = {"<=": (">=", k + 1), "<": (">=", k), ">=": ("<=", k - 1), ">": ("<=", k)}[op]
    elif op == "<":
        op, k = "<=", k - 1
    elif op == ">":
        op, k = ">=", k + 1
    lo, hi = None, None
    texts = [c.sx for c in eng.pc if is_sym(c)]
    have = set(texts)

    def upd(o: str, kk: int) -> None:
        nonlocal lo, hi
        if o == ">=":
            lo = kk if lo is None else max(lo, kk)
        else:
            hi = kk if hi is None else min(hi, kk)

    def norm(o: str, kk: int, negated: bool) -> Tuple[str, int]:
        if negated:
            return {"<=": (">=", kk + 1), "<": (">=", kk), ">=": ("<=", kk - 1), ">": ("<=", kk)}[o]
        return {"<=": ("<=", kk), "<": ("<=", kk - 1), ">=": (">=", kk), ">": (">=", kk + 1)}[o]
    for t in texts:
        negated = t.startswith("(not ") and t.endswith(")")
        body = t[5:-1] if negated else t
        mm = _CMP.match(body)
        if mm and mm.group(2) == var:
            upd(*norm(mm.group(1), int(mm.group(3)), negated))
            continue
        if not negated and t.startswith("(= (") and t.endswith(")"):
            # (= (>= n k) ATOM)
            inner = t[3:-1]
            depth, cut = 0, None
            for i, ch in enumerate(inner):
                depth += ch == "("
                depth -= ch == ")"
                if depth == 0:
                    cut = i + 1
                    break
            if cut is None:
                continue
            left, atom = inner[:cut], inner[cut:].strip()
            mm = _CMP.match(left)
            if mm and mm.group(2) == var:
                if atom in have:
                    upd(*norm(mm.group(1), int(mm.group(3)), False))
                elif f"(not {atom})" in have:
                    upd(*norm(mm.group(1), int(mm.group(3)), True))
    if op == "<=":
        return lo is not None and lo > k
    return hi is not None and hi < k


def decide_pruned(eng: Any, cond: Any) -> bool:
    """eng.decide with solver pruning switched on for this one decision (an infeasible side is not explored):
    first solver-free interval reasoning, then the string-atom abstraction (both deterministic), then - only if both
    sides survive - the full query."""
    if not is_sym(cond):
        return bool(cond)
    old_prune = eng.prune
    full = eng._feasible

    def feasible(c: Any) -> bool:
        if not is_sym(c):
            return bool(c)
        if quick_infeasible(eng, c) or abstract_infeasible(eng, c):
            return False
        return bool(full(c))
    eng.prune = True
    eng._feasible = feasible
    try:
        return bool(eng.decide(cond))
    finally:
        eng.prune = old_prune
        del eng._feasible


def _raise(name: str, *args: Any) -> None:
    from .pyvc import ObjV, RaiseSignal, builtin_class
    raise RaiseSignal(ObjV(builtin_class(name), {}, tuple(args)))


class SymStrList:
    """A list of strings of symbolic length (result of split / findall ...)."""

    def __init__(self, eng: Any, n: Any, why: str, elem_constraints: Sequence[Any] = ()) -> None:
        self.n = n
        self.why = why
        self.elems: Dict[Any, Any] = {}
        self.elem_constraints = list(elem_constraints)     # callables term -> constraint

    def __repr__(self) -> str:
        return f"SymStrList({self.why}, n={self.n})"

    def _elem(self, eng: Any, key: Any) -> Any:
        if key not in self.elems:
            t = eng.decls.fresh("py.list_elem", STR)
            for c in self.elem_constraints:
                eng.pc.append(c(t))
            self.elems[key] = t
        return self.elems[key]

    def _pyvc_len(self, eng: Any) -> Any:
        return self.n

    def _pyvc_truth(self, eng: Any) -> Any:
        return smt.Gt(self.n, 0)

    def _pyvc_getitem(self, eng: Any, key: Any) -> Any:
        from .pyvc import OutsideSubset
        if isinstance(key, bool) or not (isinstance(key, int) or (is_sym(key) and key.sort == INT)):
            if is_sym(key) or isinstance(key, (str, float, type(None))):
                _raise("TypeError", "list indices must be integers or slices")
            raise OutsideSubset(f"index {key!r} into a list of symbolic length")
        if is_sym(key):
            bad = Or(smt.Ge(key, self.n), smt.Lt(key, smt.Neg(self.n)))
            if decide_pruned(eng, bad):
                _raise("IndexError", "list index out of range")
            return eng.decls.fresh("py.list_elem", STR)
        bad = smt.Le(self.n, key) if key >= 0 else smt.Lt(self.n, -key)
        if decide_pruned(eng, bad):
            _raise("IndexError", "list index out of range")
        return self._elem(eng, key)

    def _pyvc_getslice(self, eng: Any, lo: Any, hi: Any) -> Any:
        m = eng.decls.fresh("py.slice_n", INT)
        eng.pc.append(smt.Ge(m, 0))
        eng.pc.append(smt.Le(m, self.n))
        return SymStrList(eng, m, f"slice of {self.why}", self.elem_constraints)

    def _pyvc_iter(self, eng: Any) -> Any:
        from .pyvc import OutsideSubset
        raise OutsideSubset(f"iteration over a list of symbolic length ({self.why}) needs a loop contract")

    def _pyvc_contains(self, eng: Any, item: Any) -> Any:
        return eng.decls.fresh("py.list_contains", BOOL)

    def _pyvc_str(self, eng: Any) -> Any:
        return eng.decls.fresh("py.list_repr", STR)

    def _pyvc_getattr(self, eng: Any, name: str) -> Any:
        from .pyvc import OutsideSubset
        if name in ("copy",):
            return _native(lambda e: self)
        if name in ("count", "index"):
            raise OutsideSubset(f"list.{name} on a list of symbolic length")
        if name in ("append", "extend", "insert", "pop", "remove", "clear", "sort", "reverse"):
            raise OutsideSubset(f"mutation (.{name}) of a list of symbolic length")
        _raise("AttributeError", f"'list' object has no attribute '{name}'")


def _pattern_info(pattern: str, flags: int = 0) -> Tuple[int, Set[int], Dict[str, int]]:
    """(number of groups, groups that may not participate in a match, named groups) of a concrete pattern."""
    try:
        import re._parser as sre_parse          # python >= 3.11
    except ImportError:  # pragma: no cover
        import sre_parse  # type: ignore[no-redef]
    comp = re.compile(pattern, flags)
    optional: Set[int] = set()

    def walk(items: Any, opt: bool) -> None:
        for op, av in items:
            name = str(op)
            if name == "SUBPATTERN":
                gid, _af, _df, sub = av
                if gid is not None and opt:
                    optional.add(gid)
                walk(sub, opt)
            elif name in ("MAX_REPEAT", "MIN_REPEAT", "POSSESSIVE_REPEAT"):
                lo, _hi, sub = av
                walk(sub, opt or lo == 0)
            elif name == "BRANCH":
                for alt in av[1]:
                    walk(alt, True)
            elif name == "GROUPREF_EXISTS":
                _g, yes, no = av
                walk(yes, True)
                if no is not None:
                    walk(no, True)
            elif name in ("ASSERT", "ASSERT_NOT"):
                walk(av[1], True if name == "ASSERT_NOT" else opt)
            elif name == "ATOMIC_GROUP":
                walk(av, opt)
    walk(sre_parse.parse(pattern, flags), False)
    return comp.groups, optional, dict(comp.groupindex)


def regex_example(pattern: str, flags: int = 0) -> Optional[str]:
    """Some text the pattern matches (every optional part taken once) - used to build replay inputs, verified natively."""
    try:
        import re._parser as sre_parse          # python >= 3.11
    except ImportError:  # pragma: no cover
        import sre_parse  # type: ignore[no-redef]

    def cat(av: Any) -> str:
        name = str(av)
        return {"CATEGORY_DIGIT": "1", "CATEGORY_SPACE": " ", "CATEGORY_WORD": "a", "CATEGORY_NOT_DIGIT": "a",
                "CATEGORY_NOT_SPACE": "a", "CATEGORY_NOT_WORD": " "}.get(name, "a")

    def gen(items: Any) -> str:
        out = []
        for op, av in items:
            name = str(op)
            if name == "LITERAL":
                out.append(chr(av))
            elif name == "NOT_LITERAL":
                out.append("x" if av != ord("x") else "y")
            elif name == "ANY":
                out.append("x")
            elif name == "IN":
                neg = any(str(o) == "NEGATE" for o, _ in av)
                if neg:
                    out.append("x")
                else:
                    o, a = av[0]
                    out.append(chr(a) if str(o) == "LITERAL" else chr(a[0]) if str(o) == "RANGE" else cat(a))
            elif name == "CATEGORY":
                out.append(cat(av))
            elif name in ("MAX_REPEAT", "MIN_REPEAT", "POSSESSIVE_REPEAT"):
                lo, _hi, sub = av
                out.append(gen(sub) * max(lo, 1))
            elif name == "SUBPATTERN":
                out.append(gen(av[3]))
            elif name == "ATOMIC_GROUP":
                out.append(gen(av))
            elif name == "BRANCH":
                out.append(gen(av[1][0]))
        return "".join(out)
    try:
        text = gen(sre_parse.parse(pattern, flags))
        return text if re.search(pattern, text, flags) else None
    except Exception:  # noqa: BLE001
        return None


class SymMatch:
    """A successful match of a concrete pattern against a symbolic text."""

    def __init__(self, eng: Any, ngroups: int, optional: Set[int], names: Dict[str, int], pattern: str) -> None:
        self.ngroups, self.optional, self.names, self.pattern = ngroups, optional, names, pattern
        self.vals: Dict[int, Any] = {}

    def __repr__(self) -> str:
        return f"SymMatch({self.pattern!r})"

    def _pyvc_truth(self, eng: Any) -> Any:
        return True

    def _group1(self, eng: Any, k: Any) -> Any:
        from .pyvc import OutsideSubset
        if isinstance(k, str):
            if k not in self.names:
                _raise("IndexError", "no such group")
            k = self.names[k]
        if isinstance(k, bool) or not isinstance(k, int):
            if is_sym(k):
                raise OutsideSubset("symbolic group number")
            _raise("IndexError", "no such group")
        if k < 0 or k > self.ngroups:
            _raise("IndexError", "no such group")
        if k not in self.vals:
            if k in self.optional and eng.choose(2) == 1:
                self.vals[k] = None
            else:
                self.vals[k] = eng.decls.fresh("py.match_group", STR)
        return self.vals[k]

    def group(self, eng: Any, *ks: Any) -> Any:
        if not ks:
            return self._group1(eng, 0)
        if len(ks) == 1:
            return self._group1(eng, ks[0])
        return tuple(self._group1(eng, k) for k in ks)

    def _pyvc_getitem(self, eng: Any, key: Any) -> Any:
        return self._group1(eng, key)

    def _pyvc_getattr(self, eng: Any, name: str) -> Any:
        from .pyvc import OutsideSubset
        if name == "group":
            return _native(self.group)
        if name == "groups":
            return _native(lambda e, default=None: tuple(self._group1(e, k) for k in range(1, self.ngroups + 1)))
        if name == "groupdict":
            return _native(lambda e, default=None: {n: self._group1(e, k) for n, k in self.names.items()})
        if name in ("start", "end"):
            def pos(e: Any, k: Any = 0) -> Any:
                self._group1(e, k)
                t = e.decls.fresh(f"py.match_{name}", INT)
                e.pc.append(smt.Ge(t, -1 if (k in self.optional) else 0))
                return t
            return _native(pos)
        if name == "span":
            def span(e: Any, k: Any = 0) -> Any:
                self._group1(e, k)
                a, b = e.decls.fresh("py.match_start", INT), e.decls.fresh("py.match_end", INT)
                e.pc.append(smt.Le(a, b))
                return (a, b)
            return _native(span)
        if name == "lastindex":
            raise OutsideSubset("Match.lastindex")
        if name in ("string", "re", "pos", "endpos", "lastgroup", "expand"):
            raise OutsideSubset(f"Match.{name}")
        _raise("AttributeError", f"'re.Match' object has no attribute '{name}'")


def install(eng: Any) -> None:  # noqa: C901
    from .pyvc import Opaque, OutsideSubset
    X = eng.externals
    eng.none_attr_raises = True
    eng.strict_partial_ops = True
    old_split = X.get("method:split")

    def is_text(v: Any) -> bool:
        return isinstance(v, Opaque) or (is_sym(v) and v.sort == STR)

    def contains(s: Any, sub: Any) -> Any:
        return smt.app(BOOL, "str.contains", s, sub)

    def split_like(which: str) -> Any:
        def m_split(e: Any, recv: Any, *a: Any, **kw: Any) -> Any:
            sep = a[0] if a else kw.get("sep")
            maxsplit = a[1] if len(a) > 1 else kw.get("maxsplit", -1)
            if isinstance(recv, str) and (sep is None or isinstance(sep, str)) and isinstance(maxsplit, int):
                if sep == "":
                    _raise("ValueError", "empty separator")
                return getattr(recv, which)(sep, maxsplit)
            if not (is_text(recv) or isinstance(recv, str)):
                if old_split is not None and which == "split":
                    return old_split(e, recv, *a, **kw)
                raise OutsideSubset(f".{which} of {type(recv).__name__}")
            if isinstance(sep, Opaque) or isinstance(maxsplit, Opaque) or not (sep is None or isinstance(sep, str)
                                                                               or (is_sym(sep) and sep.sort == STR)):
                raise OutsideSubset(f".{which} with an unmodelled separator")
            n = e.decls.fresh(f"py.{which}_n", INT)
            cons: List[Any] = []
            if sep is None:
                e.pc.append(smt.Ge(n, 0))
                if is_sym(recv):
                    e.pc.append(smt.Implies(Eq(recv, ""), Eq(n, 0)))
            else:
                if is_sym(sep):
                    if decide_pruned(e, Eq(sep, "")):
                        _raise("ValueError", "empty separator")
                elif sep == "":
                    _raise("ValueError", "empty separator")
                e.pc.append(smt.Ge(n, 1))
                unlimited = isinstance(maxsplit, int) and maxsplit < 0
                if isinstance(maxsplit, int) and maxsplit >= 0:
                    e.pc.append(smt.Le(n, maxsplit + 1))
                if not isinstance(recv, Opaque) and not (isinstance(maxsplit, int) and maxsplit == 0):
                    e.pc.append(smt.Iff(smt.Ge(n, 2), contains(recv, sep)))
                if unlimited:
                    cons.append(lambda t, _s=sep: Not(contains(t, _s)))
            return SymStrList(e, n, f"{which}({sep!r})", cons)
        return m_split

    X["method:split"] = split_like("split")
    X["method:rsplit"] = split_like("rsplit")

    def m_splitlines(e: Any, recv: Any, *a: Any, **kw: Any) -> Any:
        if isinstance(recv, str):
            return recv.splitlines(*a, **kw)
        if not is_text(recv):
            raise OutsideSubset(".splitlines")
        n = e.decls.fresh("py.splitlines_n", INT)
        e.pc.append(smt.Ge(n, 0))
        return SymStrList(e, n, "splitlines()")
    X["method:splitlines"] = m_splitlines

    def part_like(which: str) -> Any:
        def m_partition(e: Any, recv: Any, sep: Any) -> Any:
            if isinstance(recv, str) and isinstance(sep, str):
                if sep == "":
                    _raise("ValueError", "empty separator")
                return getattr(recv, which)(sep)
            if not (is_text(recv) or isinstance(recv, str)):
                raise OutsideSubset(f".{which} of {type(recv).__name__}")
            if isinstance(sep, str) and sep == "":
                _raise("ValueError", "empty separator")
            return tuple(e.decls.fresh(f"py.{which}", STR) for _ in range(3))
        return m_partition
    X["method:partition"] = part_like("partition")
    X["method:rpartition"] = part_like("rpartition")

    # ---- re ------------------------------------------------------------------------------------------------------
    def re_match_like(which: str) -> Any:
        def h(e: Any, pattern: Any, string: Any, flags: Any = 0) -> Any:
            if not isinstance(pattern, str) or not isinstance(flags, int):
                raise OutsideSubset(f"re.{which} with a non-literal pattern / flags")
            try:
                ngroups, optional, names = _pattern_info(pattern, flags)
            except re.error as ex:
                _raise("Exception", f"re.error: {ex}")
            if isinstance(string, str):
                m = getattr(re, which)(pattern, string, flags)
                if m is None:
                    return None
                sm = SymMatch(e, ngroups, optional, names, pattern)
                sm.vals = {k: m.group(k) for k in range(0, ngroups + 1)}
                return sm
            if string is None or isinstance(string, (int, float, list, dict, tuple)):
                _raise("TypeError", "expected string or bytes-like object")
            if not is_text(string):
                raise OutsideSubset(f"re.{which} on {type(string).__name__}")
            if e.choose(2) == 0:
                return None
            e.effects.append(("re-pattern-matched", pattern))     # hint for building a concrete replay text
            return SymMatch(e, ngroups, optional, names, pattern)
        return h
    for w in ("search", "match", "fullmatch"):
        X[f"re.{w}"] = re_match_like(w)

    def re_sub(e: Any, pattern: Any, repl: Any, string: Any, *a: Any, **kw: Any) -> Any:
        if isinstance(pattern, str) and isinstance(repl, str) and isinstance(string, str) and not a and not kw:
            return re.sub(pattern, repl, string)
        if not isinstance(pattern, str) or not (isinstance(repl, str) or is_text(repl)) or \
                not (isinstance(string, str) or is_text(string)):
            raise OutsideSubset("re.sub with unmodelled arguments")
        try:
            re.compile(pattern)
        except re.error as ex:
            _raise("Exception", f"re.error: {ex}")
        if isinstance(repl, str) and re.search(r"\\(\d|g<)", repl):
            raise OutsideSubset("re.sub with group references in the replacement")
        return e.decls.fresh("py.re_sub", STR)
    X["re.sub"] = re_sub

    def re_split(e: Any, pattern: Any, string: Any, *a: Any, **kw: Any) -> Any:
        if not isinstance(pattern, str) or not (isinstance(string, str) or is_text(string)):
            raise OutsideSubset("re.split with unmodelled arguments")
        if isinstance(string, str) and not a and not kw:
            return re.split(pattern, string)
        n = e.decls.fresh("py.re_split_n", INT)
        e.pc.append(smt.Ge(n, 1))
        return SymStrList(e, n, f"re.split({pattern!r})")
    X["re.split"] = re_split

    def re_findall(e: Any, pattern: Any, string: Any, *a: Any, **kw: Any) -> Any:
        if not isinstance(pattern, str) or not (isinstance(string, str) or is_text(string)):
            raise OutsideSubset("re.findall with unmodelled arguments")
        if isinstance(string, str) and not a and not kw:
            return re.findall(pattern, string)
        if re.compile(pattern).groups > 1:
            raise OutsideSubset("re.findall with several groups (list of tuples)")
        n = e.decls.fresh("py.re_findall_n", INT)
        e.pc.append(smt.Ge(n, 0))
        return SymStrList(e, n, f"re.findall({pattern!r})")
    X["re.findall"] = re_findall


# ---- concrete texts for a path ------------------------------------------------------------------------------------
def smt_string_value(lit: str) -> Optional[str]:
    lit = lit.strip()
    if len(lit) < 2 or lit[0] != '"' or lit[-1] != '"':
        return None
    s = lit[1:-1].replace('""', '"')
    s = re.sub(r"\\u\{([0-9a-fA-F]+)\}", lambda m: chr(int(m.group(1), 16)), s)
    s = re.sub(r"\\u([0-9a-fA-F]{4})", lambda m: chr(int(m.group(1), 16)), s)
    s = re.sub(r"\\x([0-9a-fA-F]{2})", lambda m: chr(int(m.group(1), 16)), s)
    return s


def model_text(eng: Any, pc: Sequence[Any], var: T, timeout: float = 20.0) -> Optional[str]:
    """A concrete value of the string variable `var` satisfying the path condition, restricted to printable ASCII
    without upper-case letters and with py.lower(var) = var, so that the model agrees with the real str.lower."""
    asserts = list(eng.axioms) + [c for c in pc if is_sym(c)]
    no_upper = '(re.* (re.union (re.range " " "@") (re.range "[" "~")))'
    asserts.append(smt.InRe(var, no_upper))
    if "py.lower" in " ".join(a.sx for a in asserts):
        asserts.append(Eq(T(STR, f"(py.lower {var.sx})"), var))
    text = smt.query(eng.decls, asserts, get=[var.sx])
    r = run_smt(text, timeout=timeout, tag="model")
    if r.status != "sat":
        return None
    for k, v in r.model.items():
        if k.strip("|") == var.sx.strip("|"):
            return smt_string_value(v)
    return None


def literal_candidates(pc: Sequence[Any], var: T, effects: Sequence[Tuple[str, Any]] = ()) -> List[str]:
    """Cheap concrete candidates built from the string constants the path condition requires to occur in `var` and from
    example texts of the regular expressions that matched on the path."""
    pos: List[str] = []
    for c in pc:
        if not is_sym(c):
            continue
        sx = c.sx
        if sx.startswith("(not "):
            continue
        for m in re.finditer(r'\(str\.contains (?:\(py\.lower [^()]*\)|[^\s()]+) ("(?:[^"]|"")*")\)', sx):
            v = smt_string_value(m.group(1))
            if v is not None and v not in pos:
                pos.append(v)
    out: List[str] = []
    examples = [x for x in (regex_example(p) for k, p in effects if k == "re-pattern-matched") if x]
    if pos or examples:
        base = [" ".join(pos), "Error: " + " ".join(pos) + " x", ": ".join(pos)] if pos else []
        for b in list(base):
            for ex in examples:
                base.insert(0, b + " " + ex)
        base += examples
        for b in base:
            for v in (b, b.upper()):          # the mappers test a lower-cased copy but cut the original text
                if v not in out:
                    out.append(v)
    return out
