"""Reading the real source: module ASTs, qualified names, enclosing functions (re-read on every run)."""
from __future__ import annotations

import ast
from functools import lru_cache
from pathlib import Path
from typing import Dict, Iterator, List, Optional, Tuple

from .core import SRC


@lru_cache(maxsize=None)
def module_ast(rel: str) -> ast.Module:
    p = SRC / rel
    tree = ast.parse(p.read_text(), filename=str(p))
    annotate_parents(tree)
    return tree


def annotate_parents(tree: ast.AST) -> None:
    for node in ast.walk(tree):
        for ch in ast.iter_child_nodes(node):
            ch._parent = node  # type: ignore[attr-defined]


def qualname_of(node: ast.AST) -> str:
    parts: List[str] = []
    cur: Optional[ast.AST] = node
    while cur is not None:
        if isinstance(cur, (ast.FunctionDef, ast.AsyncFunctionDef, ast.ClassDef)):
            parts.append(cur.name)
        cur = getattr(cur, "_parent", None)
    return ".".join(reversed(parts)) or "<module>"


def enclosing_function(node: ast.AST) -> Optional[ast.FunctionDef]:
    cur = getattr(node, "_parent", None)
    while cur is not None:
        if isinstance(cur, (ast.FunctionDef, ast.AsyncFunctionDef)):
            return cur  # type: ignore[return-value]
        cur = getattr(cur, "_parent", None)
    return None


def all_modules() -> List[str]:
    return sorted(str(p.relative_to(SRC)) for p in SRC.rglob("*.py"))


def find_def(rel: str, qualname: str) -> Optional[ast.AST]:
    """Locate a FunctionDef / ClassDef by dotted qualname inside a module (None when it moved)."""
    tree = module_ast(rel)
    cur: ast.AST = tree
    for part in qualname.split("."):
        nxt = None
        for ch in getattr(cur, "body", []):
            if isinstance(ch, (ast.FunctionDef, ast.AsyncFunctionDef, ast.ClassDef)) and ch.name == part:
                nxt = ch
                break
        if nxt is None:
            return None
        cur = nxt
    return cur


def module_constants(rel: str) -> Dict[str, ast.expr]:
    """Top-level `NAME = <expr>` / `NAME: T = <expr>` of a module (last assignment wins)."""
    out: Dict[str, ast.expr] = {}
    for st in module_ast(rel).body:
        if isinstance(st, ast.Assign) and len(st.targets) == 1 and isinstance(st.targets[0], ast.Name):
            out[st.targets[0].id] = st.value
        elif isinstance(st, ast.AnnAssign) and isinstance(st.target, ast.Name) and st.value is not None:
            out[st.target.id] = st.value
    return out
