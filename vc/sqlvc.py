"""E2 `sqlvc`: DuckDB scalar SQL (the repository's macro files and generated scalar expressions) -> SMT.

The SQL text is parsed with sqlglot (read='duckdb') on every run; macro bodies are evaluated over *SQL values*
  SV(sort, v, null)     sort in int | real | bool | str | date | ts | period | interval | null
with three-valued logic, null-strict operators, `error()` as a distinguished outcome, and
  * integers: mathematical (INTEGER/BIGINT overflow not modelled),
  * strings:  vectors of character codes of CONCRETE length (`CStr`); variable-length results (CAST(int AS VARCHAR))
              fork on the number of digits, so every path works on fixed shapes and only linear integer
              arithmetic over characters and numbers reaches the solver,
  * dates:    days since 1970-01-01 through the closed forms of vc.calendar.
CASE / COALESCE / IN are evaluated lazily by forking on the (three-valued) condition; paths are enumerated by
decision-prefix re-execution exactly as in vc.pyvc.  Every primitive is validated against the real DuckDB on a
deterministic grid by vc.sqlconf on each run (a mismatch is an engine fault, never a violation).
"""
from __future__ import annotations

import re
from dataclasses import dataclass, field
from pathlib import Path
from typing import Any, Callable, Dict, List, Optional, Sequence, Tuple

import sqlglot
from sqlglot import exp

from . import calendar as cal
from . import smt
from .core import SRC, run_smt
from .smt import (BOOL, INT, T, Add, And, Decls, Eq, Ge, Gt, Iff, Implies, Ite, Le, Lt, Mul, Ne, Neg, Not, Or, Sub,
                  TDiv, TRem, is_sym)


class SqlOutside(Exception):
    """Construct / value domain outside the model: the obligation is undecided, never silently passed."""


class SqlError(Exception):
    """error('...') or a DuckDB runtime error reached on this path."""

    def __init__(self, msg: Any, kind: str = "error()") -> None:
        self.msg = msg
        self.kind = kind


# ----------------------------------------------------------------------------------------------
# strings as character vectors
# ----------------------------------------------------------------------------------------------
class CStr:
    def __init__(self, chars: Sequence[Any]) -> None:
        self.chars = list(chars)

    @staticmethod
    def lit(s: str) -> "CStr":
        return CStr([ord(c) for c in s])

    def __len__(self) -> int:
        return len(self.chars)

    def concrete(self) -> Optional[str]:
        if all(isinstance(c, int) for c in self.chars):
            return "".join(chr(c) for c in self.chars)
        return None

    def __repr__(self) -> str:
        c = self.concrete()
        return f"CStr({c!r})" if c is not None else f"CStr<{len(self.chars)} chars>"

    def __add__(self, o: "CStr") -> "CStr":
        return CStr(self.chars + o.chars)

    def eq(self, o: "CStr") -> Any:
        if len(self) != len(o):
            return False
        return And(*[Eq(a, b) for a, b in zip(self.chars, o.chars)])

    def lt(self, o: "CStr", or_equal: bool = False) -> Any:
        """Lexicographic comparison by code point."""
        res: Any = or_equal if len(self) == len(o) else (len(self) < len(o))
        for a, b in reversed(list(zip(self.chars, o.chars))):
            res = Or(Lt(a, b), And(Eq(a, b), res))
        return res

    def substr(self, start: int, length: Optional[int] = None) -> "CStr":
        """DuckDB SUBSTR(s, start[, length]) with 1-based start (start <= 0 shortens the window)."""
        if length is None:
            end = len(self.chars)
        else:
            end = start - 1 + length
        lo = max(start - 1, 0)
        return CStr(self.chars[lo:max(end, lo)])

    def upper(self) -> "CStr":
        return CStr([c.upper() if False else (ord(chr(c).upper()) if isinstance(c, int) and len(chr(c).upper()) == 1
                                              else (Ite(And(Ge(c, 97), Le(c, 122)), Sub(c, 32), c) if not isinstance(c, int) else c))
                     for c in self.chars])


def is_digit(c: Any) -> Any:
    if is_sym(c) and c.sx in _PROV:
        return True
    return And(Ge(c, 48), Le(c, 57))


_DATEPROV: Dict[Any, Any] = {}
_PROV: Dict[str, Tuple[Any, int, int]] = {}   # digit character term -> (value, width, position)


def digits_of(v: Any, k: int) -> List[Any]:
    """The k decimal digit characters of v (0 <= v < 10**k), remembered so that reading them back is v itself."""
    out = []
    for j in range(k):
        c = Add(smt.Mod(smt.FloorDiv(v, 10 ** (k - 1 - j)), 10), 48)
        if is_sym(c):
            _PROV[c.sx] = (v, k, j)
        out.append(c)
    return out


def digits_value(chars: Sequence[Any]) -> Any:
    cs = list(chars)
    while cs and isinstance(cs[0], int) and cs[0] == 48:
        cs.pop(0)
    if cs and all(is_sym(c) and c.sx in _PROV for c in cs):
        v, k, _ = _PROV[cs[0].sx]
        if len(cs) == k and all(_PROV[c.sx][0] is v or (is_sym(v) and is_sym(_PROV[c.sx][0]) and _PROV[c.sx][0].sx == v.sx)
                                for c in cs) and [_PROV[c.sx][2] for c in cs] == list(range(k)) \
                and all(_PROV[c.sx][1] == k for c in cs):
            return v
    v2: Any = 0
    for c in cs:
        v2 = Add(Mul(v2, 10), Sub(c, 48))
    return v2


# ----------------------------------------------------------------------------------------------
# SQL values
# ----------------------------------------------------------------------------------------------
@dataclass
class SV:
    sort: str
    v: Any
    null: Any = False

    def __repr__(self) -> str:
        return f"SV({self.sort}, {self.v!r}, null={self.null!r})"


NULL = SV("null", None, True)


def sv_int(v: Any, null: Any = False) -> SV:
    return SV("int", v, null)


def sv_bool(v: Any, null: Any = False) -> SV:
    return SV("bool", v, null)


def sv_str(v: Any, null: Any = False) -> SV:
    return SV("str", v if isinstance(v, CStr) else CStr.lit(v), null)


@dataclass
class Macro:
    name: str
    params: List[str]
    body: exp.Expression
    file: str


def load_macros(files: Sequence[str] = ("time_operators.sql", "init.sql")) -> Dict[str, Macro]:
    """Macro definitions of duckdb_transpiler/sql/*.sql, parsed from the working tree."""
    out: Dict[str, Macro] = {}
    base = SRC / "duckdb_transpiler" / "sql"
    for fname in files:
        txt = (base / fname).read_text()
        for st in sqlglot.parse(txt, read="duckdb"):
            if isinstance(st, exp.Create) and isinstance(st.this, exp.UserDefinedFunction):
                udf = st.this
                name = udf.this.name if hasattr(udf.this, "name") else str(udf.this)
                params = [p.name for p in udf.expressions]
                body = st.expression
                if body is None:
                    continue
                out[name.lower()] = Macro(name.lower(), params, body, fname)
    return out


@dataclass
class SqlPath:
    pc: List[Any]
    kind: str            # 'value' | 'error' | 'abort'
    value: Any           # SV | error message (CStr/str) | abort reason
    decisions: List[Tuple[int, int]]
    err_kind: str = ""


class SqlEngine:
    def __init__(self, decls: Optional[Decls] = None, macros: Optional[Dict[str, Macro]] = None,
                 max_paths: int = 50000) -> None:
        self.decls = decls or Decls()
        self.macros = macros if macros is not None else load_macros()
        self.max_paths = max_paths
        self.pc: List[Any] = []
        self.prefix: List[Tuple[int, int]] = []
        self.decisions: List[Tuple[int, int]] = []
        self.axioms: List[Any] = []
        self.used_macros: set = set()
        self.used_functions: set = set()
        self.max_int_digits = 7
        self.assume: Optional[List[Any]] = None     # precondition used to prune infeasible alternatives
        self._prune_cache: Dict[str, bool] = {}
        self.prune_calls = 0

    # -- decisions --------------------------------------------------------------------------------------
    def choose(self, conds: Sequence[Any]) -> int:
        """n-way fork; exactly the i-th condition is assumed on branch i (conditions should partition)."""
        live = [i for i, c in enumerate(conds) if is_sym(c) or c]
        if self.assume is not None and len(live) > 1:
            live = [i for i in live if self._feasible(conds[i])] or live
        if len(live) == 1 and (not is_sym(conds[live[0]]) or self.assume is not None):
            if is_sym(conds[live[0]]):
                self.pc.append(conds[live[0]])   # implied by assumptions + pc; kept for self-contained VCs
            return live[0]
        if not live:
            raise SqlOutside("no feasible alternative")
        k = len(self.decisions)
        c = self.prefix[k][0] if k < len(self.prefix) else 0
        self.decisions.append((c, len(live)))
        i = live[c]
        if is_sym(conds[i]):
            self.pc.append(conds[i])
        return i

    def _feasible(self, cond: Any) -> bool:
        """Path pruning under the contract's precondition (self.assume): an alternative whose condition is
        unsatisfiable together with the precondition and the current path condition is not explored.  Sound: only
        unsat answers prune; unknown / timeout keeps the alternative."""
        if not is_sym(cond):
            return bool(cond)
        text = smt.query(self.decls, list(self.axioms) + list(self.assume or []) + list(self.pc) + [cond])
        hit = self._prune_cache.get(text)
        if hit is None:
            r = run_smt(text, timeout=3, tag="prune", backends=("z3",))
            hit = r.status != "unsat"
            self._prune_cache[text] = hit
            self.prune_calls += 1
        return hit

    def decide(self, cond: Any) -> bool:
        if not is_sym(cond):
            return bool(cond)
        if cond in self.pc:
            return True
        if Not(cond) in self.pc:
            return False
        return self.choose([cond, Not(cond)]) == 0

    def explore(self, fn: Callable[[], Any]) -> List[SqlPath]:
        results: List[SqlPath] = []
        prefix: List[Tuple[int, int]] = []
        import time as _time
        budget = getattr(self, "cpu_budget", None)      # CPU seconds of this process (independent of machine load)
        t0 = _time.process_time()
        while True:
            if len(results) >= self.max_paths:
                raise SqlOutside(f"more than {self.max_paths} paths")
            if budget is not None and _time.process_time() - t0 > budget:
                raise SqlOutside(f"exploration budget of {budget} CPU seconds used up after {len(results)} paths")
            self.pc, self.prefix, self.decisions = [], prefix, []
            try:
                v = fn()
                results.append(SqlPath(self.pc, "value", v, self.decisions))
            except SqlError as e:
                results.append(SqlPath(self.pc, "error", e.msg, self.decisions, e.kind))
            except SqlOutside as e:
                results.append(SqlPath(self.pc, "abort", str(e), self.decisions))
            dec = list(self.decisions)
            while dec and dec[-1][0] >= dec[-1][1] - 1:
                dec.pop()
            if not dec:
                break
            dec[-1] = (dec[-1][0] + 1, dec[-1][1])
            prefix = dec
        return results

    # -- entry points -----------------------------------------------------------------------------------
    def call_macro(self, name: str, args: Sequence[SV]) -> SV:
        m = self.macros.get(name.lower())
        if m is None:
            raise SqlOutside(f"unknown macro {name}")
        if len(args) != len(m.params):
            raise SqlOutside(f"macro {name}: {len(args)} args for {len(m.params)} params")
        self.used_macros.add(m.name)
        return self.eval(m.body, dict(zip([p.lower() for p in m.params], args)))

    def eval_sql(self, sql: str, env: Dict[str, SV]) -> SV:
        e = sqlglot.parse_one(sql, read="duckdb")
        return self.eval(e, {k.lower(): v for k, v in env.items()})

    # -- helpers ----------------------------------------------------------------------------------------
    def truth(self, b: SV) -> Any:
        """SQL condition is TRUE (not FALSE, not NULL)."""
        if b.sort == "null":
            return False
        if b.sort != "bool":
            raise SqlOutside(f"condition of sort {b.sort}")
        return And(Not(b.null), b.v)

    def int_to_cstr(self, v: Any) -> CStr:
        """CAST(int AS VARCHAR): forks on sign and number of digits."""
        if isinstance(v, int):
            return CStr.lit(str(v))
        conds = [Lt(v, 0)]
        for k in range(1, self.max_int_digits + 1):
            lo = 0 if k == 1 else 10 ** (k - 1)
            conds.append(And(Ge(v, lo), Lt(v, 10 ** k)))
        conds.append(Ge(v, 10 ** self.max_int_digits))
        i = self.choose(conds)
        if i == 0:
            pos = self.int_to_cstr_pos(Neg(v))
            return CStr([45] + pos.chars)
        if i == len(conds) - 1:
            raise SqlOutside(f"integer with more than {self.max_int_digits} digits rendered as text")
        k = i
        return CStr(digits_of(v, k))

    def int_to_cstr_pos(self, v: Any) -> CStr:
        conds = []
        for k in range(1, self.max_int_digits + 1):
            lo = 0 if k == 1 else 10 ** (k - 1)
            conds.append(And(Ge(v, lo), Lt(v, 10 ** k)))
        conds.append(Ge(v, 10 ** self.max_int_digits))
        i = self.choose(conds)
        if i == len(conds) - 1:
            raise SqlOutside("integer too wide")
        k = i + 1
        return CStr(digits_of(v, k))

    def cstr_to_int(self, s: CStr, try_cast: bool) -> SV:
        """CAST(VARCHAR AS INTEGER).  Exact on pure digit strings (1..9 digits); anything else that DuckDB might still
        accept (sign, blanks, decimals, exponent, '_' and hex) is outside the model unless it contains a character
        that no accepted spelling can contain, in which case the cast fails."""
        n = len(s)
        if n == 0:
            if try_cast:
                return SV("int", 0, True)
            raise SqlError("Conversion Error: could not convert string '' to INT32", "conversion")
        if n > 9:
            raise SqlOutside("cast of a string longer than 9 characters to INTEGER")
        alld = And(*[is_digit(c) for c in s.chars])
        # characters that can occur in some accepted numeric spelling
        def numericish(c: Any) -> Any:
            return Or(is_digit(c), Eq(c, 32), Eq(c, 9), Eq(c, 10), Eq(c, 13), Eq(c, 43), Eq(c, 45), Eq(c, 46), Eq(c, 95),
                      Eq(c, 101), Eq(c, 69), Eq(c, 120), Eq(c, 88),
                      And(Ge(c, 97), Le(c, 102)), And(Ge(c, 65), Le(c, 70)), Eq(c, 11), Eq(c, 12))
        definitely_bad = Or(*[Not(numericish(c)) for c in s.chars])
        i = self.choose([alld, definitely_bad, And(Not(alld), Not(definitely_bad))])
        if i == 0:
            return SV("int", digits_value(s.chars), False)
        if i == 1:
            if try_cast:
                return SV("int", 0, True)
            raise SqlError("Conversion Error: could not convert string to INT32", "conversion")
        raise SqlOutside("CAST(VARCHAR AS INTEGER) on a non-digit numeric-looking string (sign/blank/decimal/exponent)")

    def cstr_to_date(self, s: CStr) -> SV:
        """CAST(VARCHAR AS DATE) restricted to the canonical 'YYYY-MM-DD' prefix form with digit fields."""
        if len(s) < 10:
            raise SqlOutside("CAST(VARCHAR AS DATE) of a string shorter than 10 characters")
        ok_shape = And(*[is_digit(s.chars[i]) for i in (0, 1, 2, 3, 5, 6, 8, 9)], Eq(s.chars[4], 45), Eq(s.chars[7], 45))
        if not self.decide(ok_shape):
            raise SqlOutside("CAST(VARCHAR AS DATE) on a non-canonical date text")
        if len(s) > 10:
            # DuckDB tolerates a time part / trailing text after the date; only the date prefix is modelled
            pass
        y, m, d = digits_value(s.chars[0:4]), digits_value(s.chars[5:7]), digits_value(s.chars[8:10])
        key = tuple(x.sx if is_sym(x) else x for x in (y, m, d))
        if key in _DATEPROV:
            return SV("date", _DATEPROV[key], False)    # text rendered from a date: reading it back is that date
        if not self.decide(cal.valid_date(y, m, d)):
            raise SqlError("Conversion Error: date field value out of range", "conversion")
        return SV("date", cal.days_from_civil(y, m, d, True), False)

    def date_to_cstr(self, z: Any) -> CStr:
        y, m, d = cal.civil_from_days(z)
        if not self.decide(And(Ge(y, 1000), Le(y, 9999))):
            raise SqlOutside("date outside years 1000..9999 rendered as text")
        _DATEPROV[tuple(x.sx if is_sym(x) else x for x in (y, m, d))] = z

        def dig(v: Any, k: int) -> List[Any]:
            return digits_of(v, k)
        return CStr(dig(y, 4) + [45] + dig(m, 2) + [45] + dig(d, 2))

    # -- expression evaluation ----------------------------------------------------------------------------
    def eval(self, e: exp.Expression, env: Dict[str, SV]) -> SV:  # noqa: C901
        f = getattr(self, "ev_" + type(e).__name__, None)
        if f is None:
            raise SqlOutside(f"SQL node {type(e).__name__}: {e.sql(dialect='duckdb')[:60]}")
        return f(e, env)

    def ev_Paren(self, e: exp.Paren, env: Dict[str, SV]) -> SV:
        return self.eval(e.this, env)

    def ev_Subquery(self, e: exp.Subquery, env: Dict[str, SV]) -> SV:
        return self.eval(e.this, env)

    def ev_Select(self, e: exp.Select, env: Dict[str, SV]) -> SV:
        """(SELECT expr FROM (SELECT e1 AS a, e2 AS b) AS t): a let-binding."""
        env2 = dict(env)
        frm = e.args.get("from") or e.args.get("from_")
        if frm is not None:
            src = frm.this
            inner = src.this if isinstance(src, exp.Subquery) else None
            if not isinstance(inner, exp.Select) or inner.args.get("from") or inner.args.get("from_"):
                raise SqlOutside("FROM clause other than a constant single-row subquery")
            for proj in inner.expressions:
                if not isinstance(proj, exp.Alias):
                    raise SqlOutside("unnamed projection in let-subquery")
                env2[proj.alias.lower()] = self.eval(proj.this, env)
        if len(e.expressions) != 1 or e.args.get("where") or e.args.get("group"):
            raise SqlOutside("scalar subquery shape")
        return self.eval(e.expressions[0], env2)

    def ev_Literal(self, e: exp.Literal, env: Dict[str, SV]) -> SV:
        if e.is_string:
            return sv_str(e.this)
        txt = e.this
        if re.fullmatch(r"-?\d+", txt):
            return sv_int(int(txt))
        raise SqlOutside(f"numeric literal {txt}")

    def ev_Null(self, e: exp.Null, env: Dict[str, SV]) -> SV:
        return NULL

    def ev_Boolean(self, e: exp.Boolean, env: Dict[str, SV]) -> SV:
        return sv_bool(bool(e.this))

    def ev_Neg(self, e: exp.Neg, env: Dict[str, SV]) -> SV:
        a = self.eval(e.this, env)
        return SV(a.sort, Neg(a.v), a.null)

    def ev_Column(self, e: exp.Column, env: Dict[str, SV]) -> SV:
        name = e.name.lower()
        tbl = e.table.lower() if e.table else None
        if tbl is not None and tbl in env:
            base = env[tbl]
            return self.field(base, name)
        if name in env:
            return env[name]
        raise SqlOutside(f"unbound column {e.sql()}")

    def ev_Dot(self, e: exp.Dot, env: Dict[str, SV]) -> SV:
        return self.field(self.eval(e.this, env), e.expression.name.lower())

    def field(self, base: SV, name: str) -> SV:
        if base.sort == "period":
            y, ind, n = base.v
            if name == "year":
                return SV("int", y, base.null)
            if name == "period_indicator":
                return SV("str", ind, base.null)
            if name == "period_number":
                return SV("int", n, base.null)
        if base.sort == "interval":
            d1, d2 = base.v
            if name == "date1":
                return SV("date", d1, base.null)
            if name == "date2":
                return SV("date", d2, base.null)
        raise SqlOutside(f"field {name} of {base.sort}")

    # arithmetic ------------------------------------------------------------------------------------------
    def arith(self, e: Any, env: Dict[str, SV], op: str) -> SV:
        a, b = self.eval(e.this, env), self.eval(e.expression, env)
        null = Or(a.null, b.null)
        if a.sort in ("date", "ts") and b.sort == "ivl" and op in ("+", "-"):
            return self.date_plus(a, b, op)
        if a.sort == "null" or b.sort == "null":
            return SV("int", 0, True)
        if a.sort == "int" and b.sort == "int":
            if op == "+":
                return SV("int", Add(a.v, b.v), null)
            if op == "-":
                return SV("int", Sub(a.v, b.v), null)
            if op == "*":
                return SV("int", Mul(a.v, b.v), null)
            if op == "//":
                z = Eq(b.v, 0)
                if self.decide(And(Not(null), z)):
                    return SV("int", 0, True)
                return SV("int", TDiv(a.v, b.v), null)
            if op == "%":
                z = Eq(b.v, 0)
                if self.decide(And(Not(null), z)):
                    return SV("int", 0, True)
                return SV("int", TRem(a.v, b.v), null)
            if op == "/":
                # INTEGER / INTEGER is DOUBLE division in DuckDB
                if self.decide(And(Not(null), Eq(b.v, 0))):
                    return SV("real", 0, True)
                return SV("real", ("div", a.v, b.v), null)
        if "real" in (a.sort, b.sort) and op in ("+", "-"):
            def as_real(x: SV) -> Any:
                return x.v if x.sort == "real" else ("int", x.v)
            return SV("real", (op, as_real(a), as_real(b)), null)
        raise SqlOutside(f"arithmetic {a.sort} {op} {b.sort}")

    def ev_Add(self, e: exp.Add, env: Dict[str, SV]) -> SV:
        return self.arith(e, env, "+")

    def ev_Sub(self, e: exp.Sub, env: Dict[str, SV]) -> SV:
        return self.arith(e, env, "-")

    def ev_Mul(self, e: exp.Mul, env: Dict[str, SV]) -> SV:
        return self.arith(e, env, "*")

    def ev_IntDiv(self, e: exp.IntDiv, env: Dict[str, SV]) -> SV:
        return self.arith(e, env, "//")

    def ev_Mod(self, e: exp.Mod, env: Dict[str, SV]) -> SV:
        return self.arith(e, env, "%")

    def ev_Div(self, e: exp.Div, env: Dict[str, SV]) -> SV:
        return self.arith(e, env, "/")

    def ev_Abs(self, e: exp.Abs, env: Dict[str, SV]) -> SV:
        a = self.eval(e.this, env)
        if a.sort != "int":
            raise SqlOutside("ABS of non-integer")
        return SV("int", Ite(Ge(a.v, 0), a.v, Neg(a.v)), a.null)

    def ev_Interval(self, e: exp.Interval, env: Dict[str, SV]) -> SV:
        unit = (e.args.get("unit").name if e.args.get("unit") is not None else "").upper()
        inner = e.this
        if isinstance(inner, exp.Literal) and inner.is_string:
            n = sv_int(int(inner.this))
        else:
            n = self.eval(inner, env)
        if n.sort != "int" or unit not in ("DAY", "MONTH", "YEAR"):
            raise SqlOutside(f"INTERVAL {unit}")
        return SV("ivl", (unit, n.v), n.null)

    def date_plus(self, a: SV, b: SV, op: str) -> SV:
        unit, n = b.v
        n = n if op == "+" else Neg(n)
        null = Or(a.null, b.null)
        # DuckDB: DATE +/- INTERVAL yields TIMESTAMP (time part 00:00:00 here)
        if unit == "DAY":
            return SV("ts", Add(a.v, n), null)
        if unit == "MONTH":
            return SV("ts", cal.add_months(a.v, n), null)
        return SV("ts", cal.add_months(a.v, Mul(n, 12)), null)

    # strings ---------------------------------------------------------------------------------------------
    def ev_DPipe(self, e: exp.DPipe, env: Dict[str, SV]) -> SV:
        a, b = self.eval(e.this, env), self.eval(e.expression, env)
        a, b = self.as_str(a), self.as_str(b)
        return SV("str", a.v + b.v, Or(a.null, b.null))

    def ev_Concat(self, e: exp.Concat, env: Dict[str, SV]) -> SV:
        out = CStr([])
        for x in e.expressions:
            v = self.as_str(self.eval(x, env))
            if self.decide(v.null):
                continue          # CONCAT skips NULL arguments
            out = out + v.v
        return SV("str", out, False)

    def as_str(self, a: SV) -> SV:
        if a.sort == "str":
            return a
        if a.sort == "null":
            return SV("str", CStr([]), True)
        if a.sort == "int":
            if self.decide(a.null):
                return SV("str", CStr([]), True)
            return SV("str", self.int_to_cstr(a.v), False)
        raise SqlOutside(f"implicit cast of {a.sort} to VARCHAR")

    def ev_Length(self, e: exp.Length, env: Dict[str, SV]) -> SV:
        a = self.eval(e.this, env)
        if a.sort == "null":
            return SV("int", 0, True)
        return SV("int", len(a.v), a.null)

    def ev_Upper(self, e: exp.Upper, env: Dict[str, SV]) -> SV:
        a = self.eval(e.this, env)
        if a.sort == "null":
            return a
        for c in a.v.chars:
            if not isinstance(c, int):
                self.axioms_ascii(c)
        return SV("str", a.v.upper(), a.null)

    def axioms_ascii(self, c: Any) -> None:
        return None

    def ev_Substring(self, e: exp.Substring, env: Dict[str, SV]) -> SV:
        a = self.eval(e.this, env)
        st = self.eval(e.args["start"], env)
        ln = self.eval(e.args["length"], env) if e.args.get("length") is not None else None
        if a.sort == "null":
            return SV("str", CStr([]), True)
        if not isinstance(st.v, int) or (ln is not None and not isinstance(ln.v, int)):
            raise SqlOutside("SUBSTR with symbolic position")
        return SV("str", a.v.substr(st.v, ln.v if ln is not None else None), a.null)

    def ev_Pad(self, e: exp.Pad, env: Dict[str, SV]) -> SV:
        a = self.as_str(self.eval(e.this, env))
        w = self.eval(e.expression, env)
        fill = self.eval(e.args["fill_pattern"], env) if e.args.get("fill_pattern") is not None else sv_str(" ")
        if not e.args.get("is_left", True):
            raise SqlOutside("RPAD")
        if not isinstance(w.v, int) or len(fill.v) != 1:
            raise SqlOutside("LPAD with symbolic width / multi-char fill")
        s = a.v
        if len(s) >= w.v:
            out = CStr(s.chars[: w.v])     # LPAD truncates
        else:
            out = CStr([fill.v.chars[0]] * (w.v - len(s)) + s.chars)
        return SV("str", out, Or(a.null, w.null))

    def ev_SplitPart(self, e: exp.SplitPart, env: Dict[str, SV]) -> SV:
        a = self.eval(e.this, env)
        d = self.eval(e.args["delimiter"], env)
        k = self.eval(e.args["part_index"], env)
        if a.sort == "null":
            return SV("str", CStr([]), True)
        ds = d.v.concrete()
        if ds is None or len(ds) != 1 or not isinstance(k.v, int):
            raise SqlOutside("SPLIT_PART shape")
        dc = ord(ds)
        # fork on the position of the first k delimiters
        chars = a.v.chars
        parts: List[List[Any]] = [[]]
        for c in chars:
            if self.decide(Eq(c, dc)):
                parts.append([])
            else:
                parts[-1].append(c)
        out = parts[k.v - 1] if 1 <= k.v <= len(parts) else []
        return SV("str", CStr(out), a.null)

    def ev_Trim(self, e: exp.Trim, env: Dict[str, SV]) -> SV:
        a = self.eval(e.this, env)
        if a.sort == "null":
            return a
        chars = list(a.v.chars)
        while chars and self.decide(Eq(chars[0], 32)):
            chars.pop(0)
        while chars and self.decide(Eq(chars[-1], 32)):
            chars.pop()
        return SV("str", CStr(chars), a.null)

    # comparison / logic ------------------------------------------------------------------------------------
    def compare(self, a: SV, b: SV, op: str) -> SV:
        null = Or(a.null, b.null)
        if a.sort == "null" or b.sort == "null":
            return SV("bool", False, True)
        if a.sort == "str" and b.sort == "str":
            if op == "=":
                v = a.v.eq(b.v)
            elif op == "<>":
                v = Not(a.v.eq(b.v))
            elif op == "<":
                v = a.v.lt(b.v)
            elif op == "<=":
                v = a.v.lt(b.v, True)
            elif op == ">":
                v = b.v.lt(a.v)
            else:
                v = b.v.lt(a.v, True)
            return SV("bool", v, null)
        if a.sort in ("int", "date", "ts") and b.sort in ("int", "date", "ts"):
            f = {"=": Eq, "<>": Ne, "<": Lt, "<=": Le, ">": Gt, ">=": Ge}[op]
            return SV("bool", f(a.v, b.v), null)
        if a.sort == "bool" and b.sort == "bool" and op in ("=", "<>"):
            v = Iff(a.v, b.v)
            return SV("bool", v if op == "=" else Not(v), null)
        if a.sort == "period" and b.sort == "period":
            (y1, i1, n1), (y2, i2, n2) = a.v, b.v
            lt = Or(Lt(y1, y2), And(Eq(y1, y2), Or(i1.lt(i2), And(i1.eq(i2), Lt(n1, n2)))))
            eq = And(Eq(y1, y2), i1.eq(i2), Eq(n1, n2))
            v = {"=": eq, "<>": Not(eq), "<": lt, "<=": Or(lt, eq), ">": And(Not(lt), Not(eq)), ">=": Not(lt)}[op]
            return SV("bool", v, null)
        raise SqlOutside(f"comparison {a.sort} {op} {b.sort}")

    def ev_EQ(self, e: exp.EQ, env: Dict[str, SV]) -> SV:
        return self.compare(self.eval(e.this, env), self.eval(e.expression, env), "=")

    def ev_NEQ(self, e: exp.NEQ, env: Dict[str, SV]) -> SV:
        return self.compare(self.eval(e.this, env), self.eval(e.expression, env), "<>")

    def ev_NullSafeEQ(self, e: exp.NullSafeEQ, env: Dict[str, SV]) -> SV:
        """a IS NOT DISTINCT FROM b: never NULL; both NULL, or both not NULL and equal."""
        a, b = self.eval(e.this, env), self.eval(e.expression, env)
        if a.sort == "null" and b.sort == "null":
            return SV("bool", True, False)
        if a.sort == "null":
            return SV("bool", b.null, False)
        if b.sort == "null":
            return SV("bool", a.null, False)
        eq = self.compare(a, b, "=")
        return SV("bool", Or(And(a.null, b.null), And(Not(a.null), Not(b.null), eq.v)), False)

    def ev_NullSafeNEQ(self, e: exp.NullSafeNEQ, env: Dict[str, SV]) -> SV:
        v = self.ev_NullSafeEQ(e, env)  # type: ignore[arg-type]
        return SV("bool", Not(v.v), False)

    def ev_LT(self, e: exp.LT, env: Dict[str, SV]) -> SV:
        return self.compare(self.eval(e.this, env), self.eval(e.expression, env), "<")

    def ev_LTE(self, e: exp.LTE, env: Dict[str, SV]) -> SV:
        return self.compare(self.eval(e.this, env), self.eval(e.expression, env), "<=")

    def ev_GT(self, e: exp.GT, env: Dict[str, SV]) -> SV:
        return self.compare(self.eval(e.this, env), self.eval(e.expression, env), ">")

    def ev_GTE(self, e: exp.GTE, env: Dict[str, SV]) -> SV:
        return self.compare(self.eval(e.this, env), self.eval(e.expression, env), ">=")

    def ev_And(self, e: exp.And, env: Dict[str, SV]) -> SV:
        a, b = self.as_bool(self.eval(e.this, env)), self.as_bool(self.eval(e.expression, env))
        f = Or(And(Not(a.null), Not(a.v)), And(Not(b.null), Not(b.v)))
        t = And(Not(a.null), a.v, Not(b.null), b.v)
        return SV("bool", t, And(Not(f), Not(t)))

    def ev_Or(self, e: exp.Or, env: Dict[str, SV]) -> SV:
        a, b = self.as_bool(self.eval(e.this, env)), self.as_bool(self.eval(e.expression, env))
        t = Or(And(Not(a.null), a.v), And(Not(b.null), b.v))
        f = And(Not(a.null), Not(a.v), Not(b.null), Not(b.v))
        return SV("bool", t, And(Not(f), Not(t)))

    def ev_Not(self, e: exp.Not, env: Dict[str, SV]) -> SV:
        a = self.as_bool(self.eval(e.this, env))
        return SV("bool", Not(a.v), a.null)

    def as_bool(self, a: SV) -> SV:
        if a.sort == "null":
            return SV("bool", False, True)
        if a.sort != "bool":
            raise SqlOutside(f"boolean operator on {a.sort}")
        return a

    def ev_Is(self, e: exp.Is, env: Dict[str, SV]) -> SV:
        a = self.eval(e.this, env)
        if isinstance(e.expression, exp.Null):
            return SV("bool", a.null, False)
        raise SqlOutside("IS <non-null>")

    def ev_In(self, e: exp.In, env: Dict[str, SV]) -> SV:
        a = self.eval(e.this, env)
        items = [self.eval(x, env) for x in e.expressions]
        if e.args.get("query") is not None or not items:
            raise SqlOutside("IN subquery")
        anyt: Any = False
        anynull: Any = False
        for it in items:
            c = self.compare(a, it, "=")
            anyt = Or(anyt, And(Not(c.null), c.v))
            anynull = Or(anynull, c.null)
        return SV("bool", anyt, And(Not(anyt), anynull))

    def ev_Case(self, e: exp.Case, env: Dict[str, SV]) -> SV:
        subject = self.eval(e.this, env) if e.this is not None else None
        for br in e.args.get("ifs", []):
            if subject is not None:
                c = self.compare(subject, self.eval(br.this, env), "=")
            else:
                c = self.as_bool(self.eval(br.this, env))
            if self.decide(self.truth(c)):
                return self.eval(br.args["true"], env)
        if e.args.get("default") is not None:
            return self.eval(e.args["default"], env)
        return NULL

    def ev_If(self, e: exp.If, env: Dict[str, SV]) -> SV:
        c = self.as_bool(self.eval(e.this, env))
        if self.decide(self.truth(c)):
            return self.eval(e.args["true"], env)
        if e.args.get("false") is not None:
            return self.eval(e.args["false"], env)
        return NULL

    def ev_Coalesce(self, e: exp.Coalesce, env: Dict[str, SV]) -> SV:
        for x in [e.this] + list(e.expressions):
            v = self.eval(x, env)
            if not self.decide(v.null if v.sort != "null" else True):
                return SV(v.sort, v.v, False)
        return NULL

    # casts -------------------------------------------------------------------------------------------------
    def ev_Cast(self, e: exp.Cast, env: Dict[str, SV]) -> SV:
        return self.cast(self.eval(e.this, env), e.to, False, env)

    def ev_TryCast(self, e: exp.TryCast, env: Dict[str, SV]) -> SV:
        return self.cast(self.eval(e.this, env), e.to, True, env)

    def cast(self, a: SV, to: exp.DataType, try_cast: bool, env: Dict[str, SV]) -> SV:  # noqa: C901
        tname = to.sql(dialect="duckdb").upper()
        if a.sort == "struct-lit":
            if tname == "VTL_TIME_PERIOD":
                d = a.v
                y, ind, n = d["year"], d["period_indicator"], d["period_number"]
                return SV("period", (y.v, ind.v, n.v), Or(y.null, ind.null, n.null) if False else False)
            if tname == "VTL_TIME_INTERVAL":
                d = a.v
                return SV("interval", (d["date1"].v, d["date2"].v), False)
            raise SqlOutside(f"struct cast to {tname}")
        if a.sort == "null":
            return a
        if self.decide(a.null):
            tsort = {"INT": "int", "INTEGER": "int", "BIGINT": "int", "TEXT": "str", "VARCHAR": "str", "DATE": "date",
                     "TIMESTAMP": "ts", "BOOLEAN": "bool"}.get(tname, "null")
            return SV(tsort, CStr([]) if tsort == "str" else (a.v if a.sort != "str" else 0), True)
        if tname in ("INT", "INTEGER", "BIGINT"):
            if a.sort == "int":
                return a
            if a.sort == "str":
                return self.cstr_to_int(a.v, try_cast)
            if a.sort == "real":
                raise SqlOutside("CAST(DOUBLE AS INTEGER)")
        if tname in ("TEXT", "VARCHAR"):
            if a.sort == "str":
                return a
            if a.sort == "int":
                return SV("str", self.int_to_cstr(a.v), False)
            if a.sort == "date":
                return SV("str", self.date_to_cstr(a.v), False)
            if a.sort == "ts":
                return SV("str", self.date_to_cstr(a.v) + CStr.lit(" 00:00:00"), False)
            if a.sort == "real":
                return self.real_to_str(a)
        if tname == "DATE":
            if a.sort in ("date", "ts"):
                return SV("date", a.v, False)
            if a.sort == "str":
                return self.cstr_to_date(a.v)
        if tname == "TIMESTAMP":
            if a.sort in ("date", "ts"):
                return SV("ts", a.v, False)
            if a.sort == "str":
                d = self.cstr_to_date(a.v)
                return SV("ts", d.v, False)
        raise SqlOutside(f"CAST({a.sort} AS {tname})")

    def real_to_str(self, a: SV) -> SV:
        """CAST(DOUBLE AS VARCHAR) for values of the form int/int + int: integral results print as 'k.0'."""
        def num_den(x: Any) -> Tuple[Any, Any]:
            if isinstance(x, tuple) and x[0] == "div":
                return x[1], x[2]
            if isinstance(x, tuple) and x[0] == "int":
                return x[1], 1
            if isinstance(x, tuple) and x[0] in ("+", "-"):
                (n1, d1), (n2, d2) = num_den(x[1]), num_den(x[2])
                n2 = n2 if x[0] == "+" else Neg(n2)
                return Add(Mul(n1, d2), Mul(n2, d1)), Mul(d1, d2)
            raise SqlOutside("real expression shape")
        n, d = num_den(a.v)
        if not isinstance(d, int) or d <= 0:
            raise SqlOutside("real with symbolic denominator rendered as text")
        if not self.decide(Eq(smt.Mod(n, d), 0)):
            raise SqlOutside("non-integral DOUBLE rendered as text")
        q = smt.FloorDiv(n, d)
        return SV("str", self.int_to_cstr(q) + CStr.lit(".0"), False)

    def ev_Struct(self, e: exp.Struct, env: Dict[str, SV]) -> SV:
        d: Dict[str, SV] = {}
        for x in e.expressions:
            if isinstance(x, exp.PropertyEQ):
                key = x.this.name if hasattr(x.this, "name") else str(x.this)
                d[key.strip("'").lower()] = self.eval(x.expression, env)
            else:
                raise SqlOutside("positional struct field")
        return SV("struct-lit", d, False)

    # date functions ----------------------------------------------------------------------------------------
    def _date_arg(self, e: Any, env: Dict[str, SV]) -> SV:
        a = self.eval(e, env)
        if a.sort == "str":
            a = self.cstr_to_date(a.v)
        if a.sort not in ("date", "ts", "null"):
            raise SqlOutside(f"date function on {a.sort}")
        return a

    def _dfn(self, e: Any, env: Dict[str, SV], f: Callable[[Any], Any]) -> SV:
        a = self._date_arg(e.this, env)
        if a.sort == "null":
            return SV("int", 0, True)
        return SV("int", f(a.v), a.null)

    def ev_Year(self, e: exp.Year, env: Dict[str, SV]) -> SV:
        return self._dfn(e, env, lambda z: cal.civil_from_days(z)[0])

    def ev_Month(self, e: exp.Month, env: Dict[str, SV]) -> SV:
        return self._dfn(e, env, lambda z: cal.civil_from_days(z)[1])

    def ev_Day(self, e: exp.Day, env: Dict[str, SV]) -> SV:
        return self._dfn(e, env, lambda z: cal.civil_from_days(z)[2])

    def ev_Quarter(self, e: exp.Quarter, env: Dict[str, SV]) -> SV:
        return self._dfn(e, env, lambda z: Add(smt.FloorDiv(Sub(cal.civil_from_days(z)[1], 1), 3), 1))

    def ev_DayOfYear(self, e: exp.DayOfYear, env: Dict[str, SV]) -> SV:
        return self._dfn(e, env, cal.day_of_year)

    def ev_DayOfWeekIso(self, e: exp.DayOfWeekIso, env: Dict[str, SV]) -> SV:
        return self._dfn(e, env, cal.iso_dow)

    def ev_DayOfWeek(self, e: exp.DayOfWeek, env: Dict[str, SV]) -> SV:
        return self._dfn(e, env, lambda z: smt.Mod(cal.iso_dow(z), 7))   # Sunday = 0

    def ev_Week(self, e: exp.Week, env: Dict[str, SV]) -> SV:
        return self._dfn(e, env, lambda z: cal.iso_year_week(z)[1])

    def ev_WeekOfYear(self, e: exp.WeekOfYear, env: Dict[str, SV]) -> SV:
        return self._dfn(e, env, lambda z: cal.iso_year_week(z)[1])

    def ev_LastDay(self, e: exp.LastDay, env: Dict[str, SV]) -> SV:
        a = self._date_arg(e.this, env)
        return SV("date", cal.last_day(a.v), a.null)

    def ev_DateFromParts(self, e: exp.DateFromParts, env: Dict[str, SV]) -> SV:
        y, m, d = (self.eval(e.args[k], env) for k in ("year", "month", "day"))
        null = Or(y.null, m.null, d.null)
        if self.decide(null):
            return SV("date", 0, True)
        if not self.decide(cal.valid_date(y.v, m.v, d.v)):
            raise SqlError("Conversion Error: Date out of range", "conversion")
        return SV("date", cal.days_from_civil(y.v, m.v, d.v, True), False)

    def ev_DateDiff(self, e: exp.DateDiff, env: Dict[str, SV]) -> SV:
        unit = (e.args.get("unit").name if e.args.get("unit") is not None else "DAY").upper()
        # sqlglot normalises DATE_DIFF(unit, a, b) to DateDiff(this=b, expression=a): value = this - expression
        b, a = self._date_arg(e.this, env), self._date_arg(e.expression, env)
        null = Or(a.null, b.null)
        if unit == "DAY":
            return SV("int", Sub(b.v, a.v), null)
        if unit == "MONTH":
            (y1, m1, _), (y2, m2, _) = cal.civil_from_days(a.v), cal.civil_from_days(b.v)
            return SV("int", Sub(Add(Mul(y2, 12), m2), Add(Mul(y1, 12), m1)), null)
        raise SqlOutside(f"DATE_DIFF unit {unit}")

    def ev_StrToTime(self, e: exp.StrToTime, env: Dict[str, SV]) -> SV:
        s = self.eval(e.this, env)
        fmt = e.args["format"]
        ftxt = fmt.this if isinstance(fmt, exp.Literal) else None
        if ftxt not in ("%G-W%V-%u",):
            raise SqlOutside(f"STRPTIME format {ftxt}")
        if self.decide(s.null):
            return SV("ts", 0, True)
        ch = s.v.chars
        # the engine only calls this on  <year> '-W' <2 digits> '-' <1 digit>
        if len(ch) < 9:
            raise SqlOutside("STRPTIME on a short string")
        n = len(ch)
        yd, rest = ch[: n - 6], ch[n - 6:]
        shape = And(*[is_digit(c) for c in yd], Eq(rest[0], 45), Eq(rest[1], 87), is_digit(rest[2]), is_digit(rest[3]),
                    Eq(rest[4], 45), is_digit(rest[5]))
        if not self.decide(shape):
            raise SqlOutside("STRPTIME('%G-W%V-%u') on a string of another shape")
        g, v, u = digits_value(yd), digits_value(rest[2:4]), digits_value(rest[5:6])
        if not self.decide(And(Ge(v, 1), Le(v, 53), Ge(u, 1), Le(u, 7))):
            raise SqlError("Invalid Input Error: Could not parse string according to format specifier", "strptime")
        z = Add(Add(cal.iso_week1_monday(g), Mul(Sub(v, 1), 7)), Sub(u, 1))
        return SV("ts", z, False)

    def ev_TimeToStr(self, e: exp.TimeToStr, env: Dict[str, SV]) -> SV:
        a = self._date_arg(e.this, env)
        fmt = e.args["format"]
        if not (isinstance(fmt, exp.Literal) and fmt.this == "%Y-%m-%d"):
            raise SqlOutside("STRFTIME format")
        if self.decide(a.null):
            return SV("str", CStr([]), True)
        return SV("str", self.date_to_cstr(a.v), False)

    # functions without a typed sqlglot node ------------------------------------------------------------------
    def ev_Anonymous(self, e: exp.Anonymous, env: Dict[str, SV]) -> SV:
        name = e.name.lower()
        if name == "error":
            msg = self.eval(e.expressions[0], env)
            head = msg.v.concrete() if msg.sort == "str" else None
            if head is None and msg.sort == "str":
                head = "".join(chr(c) if isinstance(c, int) else "?" for c in msg.v.chars)
            raise SqlError(head, "error()")
        if name in self.macros:
            return self.call_macro(name, [self.eval(x, env) for x in e.expressions])
        self.used_functions.add(name)
        if name == "isoyear":
            a = self._date_arg(e.expressions[0], env)
            return SV("int", cal.iso_year_week(a.v)[0], a.null)
        raise SqlOutside(f"function {name}")
