"""Discharging path-based contracts produced by vc.pyvc with the SMT solvers."""
from __future__ import annotations

import time
from typing import Any, Callable, Dict, List, Optional, Sequence, Tuple

from . import smt
from .core import DISCHARGED, REFUTED, UNDECIDED, Check, Obligation, pmap, run_smt
from .pyvc import Engine, PathResult
from .smt import And, Not, is_sym


def discharge(chk: Check, eng: Engine, function: str, clause_id: str, clause_text: str,
              paths: Sequence[PathResult], pre: Sequence[Any],
              post: Callable[[PathResult], Any],
              model_vars: Sequence[str] = (),
              replay: Optional[Callable[[Dict[str, str], PathResult], Tuple[Optional[bool], str, Any]]] = None,
              finding_key: Optional[Callable[[Dict[str, str], PathResult], str]] = None,
              timeout: float = 20.0, include_site_obligations: bool = True) -> Obligation:
    """One obligation per (function, clause): for every explored path, pre /\\ pc /\\ not post must be unsat.

    replay(model, path) -> (reproduced?, detail, witness-json)
    """
    ob = chk.ob(f"{function}::{clause_id}", function, clause_text)
    queries: List[Tuple[int, str, PathResult, str]] = []
    aborted = [p for p in paths if p.kind == "abort"]
    if aborted:
        ob.status = UNDECIDED
        ob.detail = f"{len(aborted)} path(s) outside the subset: {aborted[0].abort_reason}"
        return ob
    t0 = time.time()
    for i, p in enumerate(paths):
        try:
            goal = post(p)
        except Exception as e:  # noqa: BLE001 - a contract that cannot be evaluated on this path
            ob.status, ob.detail = UNDECIDED, f"postcondition not evaluable on path {i}: {type(e).__name__}: {e}"
            return ob
        if not is_sym(goal) and goal:
            pass
        else:
            text = smt.query(eng.decls, list(eng.axioms) + list(pre) + list(p.pc) + [Not(goal)], get=list(model_vars))
            queries.append((i, text, p, "post"))
        if include_site_obligations:
            for j, (pc, cond, desc) in enumerate(p.obligations):
                if not is_sym(cond) and cond:
                    continue
                text = smt.query(eng.decls, list(eng.axioms) + list(pre) + list(pc) + [Not(cond)], get=list(model_vars))
                queries.append((i, text, p, f"site:{desc}"))
    # identical queries (shared prefixes) are solved once
    uniq: Dict[str, Any] = {}
    for _, text, _, _ in queries:
        uniq.setdefault(text, None)
    results = pmap(lambda tx: run_smt(tx, timeout=timeout, tag=clause_id), list(uniq))
    for tx, r in zip(list(uniq), results):
        uniq[tx] = r
    ob.seconds = time.time() - t0
    backends = set()
    n_unsat = 0
    for i, text, p, what in queries:
        r = uniq[text]
        backends.add(r.backend)
        if r.status == "unsat":
            n_unsat += 1
            continue
        if r.status == "unknown":
            ob.status = UNDECIDED
            ob.detail = f"solver answered unknown on path {i} ({what}): {r.raw[:200]}"
            ob.backend = "+".join(sorted(backends))
            return ob
        # sat: counter-model
        ob.status = REFUTED
        ob.backend = r.backend
        ob.detail = f"path {i} ({what}) of {len(paths)}: counter-model {r.model}; path outcome={p.kind} {str(p.value)[:200]}"
        ob.witness = {"model": r.model, "path_kind": p.kind, "clause": what}
        if finding_key:
            ob.finding_key = finding_key(r.model, p)
        if replay:
            try:
                ok, detail, wit = replay(r.model, p)
                ob.replayed, ob.replay_detail = ok, detail
                if wit is not None:
                    ob.witness = wit
            except Exception as e:  # noqa: BLE001
                ob.replayed, ob.replay_detail = None, f"replay harness error: {type(e).__name__}: {e}"
        return ob
    ob.status = DISCHARGED
    ob.backend = "+".join(sorted(backends)) or "const-fold"
    ob.detail = f"{len(paths)} paths, {len(queries)} solver queries ({len(uniq)} distinct), all unsat"
    return ob


def cover(chk: Check, eng: Engine, function: str, clause_id: str, pre: Sequence[Any], what: str) -> Obligation:
    """Vacuity guard: the precondition must be satisfiable."""
    ob = chk.ob(f"{function}::cover::{clause_id}", function, f"cover: {what} is satisfiable (vacuity guard)")
    r = run_smt(smt.query(eng.decls, list(eng.axioms) + list(pre)), timeout=10, tag="cover")
    ob.backend, ob.seconds = r.backend, r.seconds
    if r.status == "sat":
        ob.status = DISCHARGED
    elif r.status == "unsat":
        ob.status, ob.detail = "fault", "precondition is contradictory: every obligation under it would be vacuous"
    else:
        ob.status, ob.detail = UNDECIDED, "cover query unknown"
    return ob
