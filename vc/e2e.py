"""Bounded tier harness: IR programs (spec/vtlref.py) executed on the real engine below the parser and compared with the
reference semantics.  The engine side is API.run / API.semantic_analysis of the working tree with only the text->AST
prologue removed (vc.pipeline)."""
from __future__ import annotations

import math
from dataclasses import dataclass, field
from typing import Any, Dict, List, Optional, Sequence, Tuple

from . import core
from . import pipeline as P

TYPE_JSON = {"Integer": "Integer", "Number": "Number", "String": "String", "Boolean": "Boolean",
             "Time_Period": "Time_Period", "Date": "Date"}


@dataclass
class Table:
    name: str
    ids: List[Tuple[str, str]]           # (name, type)
    meas: List[Tuple[str, str]]
    rows: List[Dict[str, Any]]
    attrs: List[Tuple[str, str]] = field(default_factory=list)

    def structure(self) -> Dict[str, Any]:
        comps = [{"name": n, "type": TYPE_JSON[t], "role": "Identifier", "nullable": False} for n, t in self.ids]
        comps += [{"name": n, "type": TYPE_JSON[t], "role": "Measure", "nullable": True} for n, t in self.meas]
        comps += [{"name": n, "type": TYPE_JSON[t], "role": "Attribute", "nullable": True} for n, t in self.attrs]
        return {"name": self.name, "DataStructure": comps}

    def frame(self) -> Any:
        import pandas as pd
        cols = [n for n, _ in self.ids + self.meas + self.attrs]
        return pd.DataFrame([{c: r.get(c) for c in cols} for r in self.rows], columns=cols)

    def rds(self) -> Any:
        from spec.vtlref import RDS
        return RDS([n for n, _ in self.ids], [n for n, _ in self.meas],
                   [{c: r.get(c) for c in [n for n, _ in self.ids + self.meas]} for r in self.rows],
                   {n: t for n, t in self.ids + self.meas})


def err_code(e: BaseException) -> str:
    if len(getattr(e, "args", ())) > 1 and isinstance(e.args[1], str):
        return e.args[1]
    return type(e).__name__


def norm_value(v: Any) -> Any:
    if v is None:
        return None
    try:
        import pandas as pd
        if v is pd.NA or (isinstance(v, float) and math.isnan(v)):
            return None
    except Exception:  # noqa: BLE001
        pass
    if isinstance(v, bool):
        return v
    if hasattr(v, "item"):
        v = v.item()
    if isinstance(v, float) and v == int(v) and abs(v) < 1e15:
        return float(v)
    return v


def same_value(a: Any, b: Any) -> bool:
    a, b = norm_value(a), norm_value(b)
    if a is None or b is None:
        return a is None and b is None
    if isinstance(a, bool) or isinstance(b, bool):
        return isinstance(a, bool) and isinstance(b, bool) and a == b
    if isinstance(a, (int, float)) and isinstance(b, (int, float)):
        return abs(float(a) - float(b)) <= 1e-6 * max(1.0, abs(float(a)), abs(float(b)))
    return str(a) == str(b)


def engine_run(ir_stmts: Sequence[Tuple[str, Any, bool]], tables: Sequence[Table], scalars: Optional[Dict[str, Any]] = None,
               **run_kw: Any) -> Tuple[str, Any]:
    """ir_stmts: (result name, IR term, persistent).  Returns ('ok', {name: Dataset|Scalar}) or ('error', code, exc)."""
    from spec.vtlref import to_ast
    run = P.api_from_ast("run")
    ast = P.start([P.assign(n, to_ast(t), p) for n, t, p in ir_stmts])
    ds = P.structures([t.structure() for t in tables],
                      [{"name": k, "type": "Integer" if isinstance(v, int) else "Number" if isinstance(v, float)
                        else "Boolean" if isinstance(v, bool) else "String"} for k, v in (scalars or {}).items()])
    if "time_period_output_format" not in run_kw and any(ty == "Time_Period" for t in tables for _n, ty in t.ids + t.meas):
        run_kw["time_period_output_format"] = "sdmx_reporting"      # canonical text, same as the reference tables use
    try:
        res = run(ast, ds, {t.name: t.frame() for t in tables}, scalar_values=dict(scalars or {}) or None,
                  return_only_persistent=False, **run_kw)
        return "ok", res
    except Exception as e:  # noqa: BLE001
        return "error", (err_code(e), e)


def engine_semantic(ir_stmts: Sequence[Tuple[str, Any, bool]], tables: Sequence[Table], scalars: Optional[Dict[str, Any]] = None
                    ) -> Tuple[str, Any]:
    from spec.vtlref import to_ast
    sem = P.api_from_ast("semantic_analysis")
    ast = P.start([P.assign(n, to_ast(t), p) for n, t, p in ir_stmts])
    ds = P.structures([t.structure() for t in tables],
                      [{"name": k, "type": "Integer" if isinstance(v, int) else "Number"} for k, v in (scalars or {}).items()])
    try:
        return "ok", sem(ast, ds)
    except Exception as e:  # noqa: BLE001
        return "error", (err_code(e), e)


def compare_dataset(engine_ds: Any, ref: Any) -> Optional[str]:
    """None when the engine's dataset equals the reference dataset as a keyed set; else a description."""
    df = engine_ds.data
    if df is None:
        return "engine returned no data"
    comps = engine_ds.components
    ids = [n for n, c in comps.items() if c.role.value == "Identifier"]
    meas = [n for n, c in comps.items() if c.role.value != "Identifier"]
    if sorted(df.columns) != sorted(comps):
        return f"returned data has columns {list(df.columns)} but the returned structure declares {list(comps)}"
    if sorted(ids) != sorted(ref.ids):
        return f"identifiers {sorted(ids)} vs reference {sorted(ref.ids)}"
    if len(meas) != len(ref.meas):
        return f"non-identifier components {meas} vs reference {ref.meas}"
    # measures are matched by name when the names coincide, positionally otherwise (mono-measure renaming rules are
    # the business of C10 / semantic analysis, not of the value comparison)
    pairs = list(zip(meas, ref.meas)) if sorted(meas) != sorted(ref.meas) else [(m, m) for m in ref.meas]
    got: Dict[Tuple[Any, ...], Dict[str, Any]] = {}
    for rec in df.to_dict("records"):
        key = tuple(norm_value(rec[i]) for i in ref.ids)
        if key in got:
            return f"duplicate identifier key {key} in the engine result"
        got[key] = rec
    want: Dict[Tuple[Any, ...], Dict[str, Any]] = {}
    for r in ref.rows:
        want[tuple(norm_value(r[i]) for i in ref.ids)] = r
    if set(got) != set(want):
        extra, missing = sorted(set(got) - set(want), key=repr)[:3], sorted(set(want) - set(got), key=repr)[:3]
        return f"datapoint keys differ: engine-only {extra}, reference-only {missing}"
    for k, r in want.items():
        for em, rm in pairs:
            if not same_value(got[k][em], r[rm]):
                return f"key {k}: {em} = {norm_value(got[k][em])!r}, reference {rm} = {norm_value(r[rm])!r}"
    return None
