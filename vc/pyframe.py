"""E3 `pyframe`: frame (assigns) contracts — which PARAMETERS may a function mutate?

For every function of the analysed modules the analysis computes `mutates(f) ⊆ params(f)`: parameter p is in the set
when some path may modify an object reachable from the argument passed for p (the caller's object), i.e.
  * store / delete / augmented assignment through a name that may alias (an element of) p:
        p[k] = v, p.attr = v, del p[k], p[k] += v, p.columns = ..., alias = p; alias[k] = v, for x in p.values(): x[k] = v
  * call of a known mutator method on such a name (.append .update .pop .clear .insert .extend .remove .sort .setdefault
    .add .discard .popitem ... and ANY method called with an `inplace=` keyword that is not the literal False/None:
    .drop .rename .reset_index .set_index .fillna .sort_values ...), setattr / delattr / random.shuffle / heapq on it
  * passing such a name to a function whose own clause says it mutates that parameter (inter-procedural fixpoint
    over the analysed modules)

Alias abstraction.  A name is bound to a set of (param, depth):
    SELF  (0)  exactly the caller's object passed for `param`
    FRESH (1)  a fresh container (dict(p), list(p), {k: p[k]}, [x for x in p], p.copy(), a + b) whose own slots are
               private but whose ELEMENTS are (reachable from) the caller's object
    REACH (2)  the caller's object or anything reachable from it (p[k], p.attr, elements of p.values()/items(), loop
               variables over p, results of callees that may return (part of) p)
and a mutation is classified as
    top   the mutated object is the parameter object itself (through a SELF name)
    deep  the mutated object may be an element / attribute (through a REACH name, or a callee's deep mutation)
At a call site a FRESH argument is hit by the callee's clause only when the callee mutates DEEP (its elements are the
caller's); a top-only mutation of a fresh container is private.  (Before this distinction existed the analysis used
one depth for "the object" and "an element of it" and dropped every callee mutation for a fresh-container argument,
so `g({k: d[k]})` with g mutating the VALUES of its dict was lost.)
Aliasing is may-alias and flow-sensitive along straight-line code (a re-binding `p = p.copy()` / `p = f(p)` ends the
alias for the code after it; branches are joined by union).
Assumed external clauses (listed in the evidence): calls into pandas / pysdmx / json / pathlib / copy / jsonschema do
not mutate their arguments unless they are one of the mutators above; copy.deepcopy returns a fresh object.
Calls of functions that are imported from the package but not in the analysed module set and that receive an aliased
argument are collected in `unresolved_internal` (the check adds those modules and re-runs until closed).
"""
from __future__ import annotations

import ast
from dataclasses import dataclass, field
from typing import Any, Dict, List, Optional, Sequence, Set, Tuple

from .pysrc import module_ast

MUTATORS = {"append", "extend", "insert", "remove", "pop", "clear", "sort", "reverse", "update", "setdefault",
            "popitem", "add", "discard", "difference_update", "intersection_update", "symmetric_difference_update",
            "__setitem__", "__delitem__", "__setattr__", "__delattr__", "__iadd__", "write", "writelines",
            "drop_duplicates_inplace", "appendleft", "extendleft", "popleft", "rotate",
            # numpy / pandas in-place methods without an inplace keyword
            "fill", "put", "itemset", "setflags", "resize", "partition", "setfield", "isetitem", "move_to_end"}
# container mutators that ADD their arguments to the receiver (the receiver then aliases them)
ADDERS = {"append", "extend", "insert", "add", "update", "setdefault", "appendleft", "extendleft", "__setitem__"}
# methods returning an element of the receiver
ELEMENT_GETTERS = {"items", "values", "get", "setdefault", "pop", "popitem", "__getitem__", "popleft"}
# plain functions mutating their first argument
FUNCTION_MUTATORS = {"setattr", "delattr", "shuffle", "setitem", "delitem", "heappush", "heappop", "heapify",
                     "heapreplace", "heappushpop", "insort", "insort_left", "insort_right"}
# plain functions whose result gives access to (the elements of) their arguments
PASS_THROUGH = {"enumerate", "zip", "reversed", "iter", "next", "filter", "getattr", "min", "max", "chain", "islice",
                "zip_longest", "cycle", "first", "vars"}
FRESH_DEEP = {"deepcopy"}
FRESH_SHALLOW = {"dict", "list", "set", "tuple", "sorted", "copy", "frozenset", "OrderedDict", "defaultdict", "deque"}

SELF, FRESH, REACH = 0, 1, 2
Src = Tuple[str, int]
Env = Dict[str, Set[Src]]


@dataclass
class FnInfo:
    rel: str
    qualname: str
    node: ast.FunctionDef
    params: List[str]
    mutates: Dict[str, List[str]] = field(default_factory=dict)    # param -> reasons (with line numbers), top or deep
    returns: Set[str] = field(default_factory=set)                 # params (an element of) which may be returned
    deep: Dict[str, List[str]] = field(default_factory=dict)       # param -> reasons of mutations BELOW the object
    returns_d: Dict[str, Set[int]] = field(default_factory=dict)   # param -> depths at which it may be returned
    stores: Dict[str, Set[str]] = field(default_factory=dict)      # q -> {p}: (part of) p may be stored into q
    positional: List[str] = field(default_factory=list)
    vararg: Optional[str] = None
    kwarg: Optional[str] = None


class FrameAnalysis:
    def __init__(self, modules: Sequence[str]) -> None:
        self.modules = list(modules)
        self.fns: Dict[Tuple[str, str], FnInfo] = {}
        self.by_name: Dict[str, List[FnInfo]] = {}
        self.imports: Dict[str, Dict[str, str]] = {}
        self.import_origin: Dict[str, Dict[str, Tuple[str, int]]] = {}   # rel -> local name -> (module, level)
        self.module_aliases: Dict[str, Set[str]] = {}
        self.classes: Set[str] = set()
        for rel in self.modules:
            tree = module_ast(rel)
            self.imports[rel] = {}
            self.import_origin[rel] = {}
            self.module_aliases[rel] = set()
            for st in ast.walk(tree):
                if isinstance(st, ast.ImportFrom):
                    for a in st.names:
                        self.imports[rel][a.asname or a.name] = a.name
                        self.import_origin[rel][a.asname or a.name] = (st.module or "", st.level)
                        self.module_aliases[rel].add(a.asname or a.name)
                elif isinstance(st, ast.Import):
                    for a in st.names:
                        self.module_aliases[rel].add((a.asname or a.name).split(".")[0])
            for st in ast.walk(tree):
                if isinstance(st, ast.ClassDef):
                    self.classes.add(st.name)
                if isinstance(st, ast.FunctionDef):
                    qn = _qual(st)
                    a = st.args
                    params = [p.arg for p in a.posonlyargs + a.args + a.kwonlyargs]
                    if a.vararg:
                        params.append(a.vararg.arg)
                    if a.kwarg:
                        params.append(a.kwarg.arg)
                    info = FnInfo(rel, qn, st, params)
                    info.positional = [p.arg for p in a.posonlyargs + a.args]
                    info.vararg = a.vararg.arg if a.vararg else None
                    info.kwarg = a.kwarg.arg if a.kwarg else None
                    self.fns[(rel, qn)] = info
                    self.by_name.setdefault(st.name, []).append(info)
        self.assumed_externals: Set[str] = set()
        # (module, level, name, importing rel): package functions outside the analysed set that receive an alias
        self.unresolved_internal: Set[Tuple[str, int, str, str]] = set()
        self.converged = True
        self.rounds = 0
        self._solve()

    def callee(self, rel: str, call: ast.Call) -> Optional[FnInfo]:
        f = call.func
        name = f.id if isinstance(f, ast.Name) else f.attr if isinstance(f, ast.Attribute) else None
        if name is None:
            return None
        real = self.imports.get(rel, {}).get(name, name)
        cands = self.by_name.get(real, [])
        if isinstance(f, ast.Name):
            same = [c for c in cands if c.rel == rel and "." not in c.qualname]
            if same:
                return same[0]
            top = [c for c in cands if "." not in c.qualname]
            return top[0] if len(top) == 1 else None
        # module.function(...) through an imported module name (never a method call on a value)
        if isinstance(f, ast.Attribute) and isinstance(f.value, ast.Name) and \
                f.value.id in self.module_aliases.get(rel, set()):
            top = [c for c in self.by_name.get(f.attr, []) if "." not in c.qualname]
            return top[0] if len(top) == 1 else None
        return None

    @staticmethod
    def bindings(cal: FnInfo, call: ast.Call) -> List[Tuple[Optional[str], ast.AST]]:
        """(callee parameter or None = could be any parameter, argument expression)"""
        out: List[Tuple[Optional[str], ast.AST]] = []
        star_seen = False
        for i, a in enumerate(call.args):
            if isinstance(a, ast.Starred):
                star_seen = True
                out.append((None, a.value))
            elif star_seen:
                out.append((None, a))
            elif i < len(cal.positional):
                out.append((cal.positional[i], a))
            elif cal.vararg:
                out.append((cal.vararg, a))
        for k in call.keywords:
            if k.arg is None:
                out.append((None, k.value))
            elif k.arg in cal.params:
                out.append((k.arg, k.value))
            elif cal.kwarg:
                out.append((cal.kwarg, k.value))
        return out

    def _solve(self) -> None:
        changed = True
        rounds = 0
        while changed and rounds < 60:
            changed = False
            rounds += 1
            self._summary_changed = False
            for info in self.fns.values():
                new, new_deep = self._analyse(info)
                for p, reasons in new.items():
                    if p not in info.mutates:
                        info.mutates[p] = reasons
                        changed = True
                for p, reasons in new_deep.items():
                    if p not in info.deep:
                        info.deep[p] = reasons
                        changed = True
            if self._summary_changed:
                changed = True
        self.rounds = rounds
        self.converged = not changed

    def _analyse(self, info: FnInfo) -> Tuple[Dict[str, List[str]], Dict[str, List[str]]]:  # noqa: C901
        out: Dict[str, List[str]] = {}
        out_deep: Dict[str, List[str]] = {}
        closure = [0]

        def hit(srcs: Set[Src], why: str, line: int, callee_deep: Optional[bool] = None) -> None:
            """A mutation through a value with sources `srcs`.  callee_deep: None = the mutation is performed here on
            the value itself; True/False = performed by a callee on its parameter, below / at the parameter object."""
            for p, depth in sorted(srcs):
                if depth == FRESH:
                    if not callee_deep:
                        continue      # own slots of a fresh shallow copy: not the caller's object
                    is_deep = True
                elif depth == SELF:
                    is_deep = bool(callee_deep)
                else:
                    is_deep = True
                out.setdefault(p, []).append(f"line {line}: {why}")
                if is_deep:
                    out_deep.setdefault(p, []).append(f"line {line}: {why}")

        def elements(s: Set[Src]) -> Set[Src]:
            return {(p, REACH) for p, _ in s}

        def fresh(s: Set[Src]) -> Set[Src]:
            return {(p, FRESH) for p, _ in s}

        def call_result(cal: FnInfo, e: ast.Call, env: Env) -> Set[Src]:
            res: Set[Src] = set()
            for prm, a in self.bindings(cal, e):
                s = srcs_of(a, env)
                if not s:
                    continue
                depths: Set[int] = set()
                if prm is None:
                    for d in cal.returns_d.values():
                        depths |= d
                else:
                    depths = cal.returns_d.get(prm, set())
                for d in depths:
                    if d == SELF:
                        res |= s
                    elif d == FRESH:
                        res |= fresh(s)
                    else:
                        res |= elements(s)
            return res

        def note_unresolved(e: ast.Call, env: Env) -> None:
            f = e.func
            if not isinstance(f, ast.Name):
                return
            aliased = any(srcs_of(a, env) for a in e.args) or any(srcs_of(k.value, env) for k in e.keywords)
            if not aliased:
                return
            origin = self.import_origin.get(info.rel, {}).get(f.id)
            if origin is not None and (origin[1] > 0 or origin[0].split(".")[0] == "vtlengine"):
                real = self.imports[info.rel].get(f.id, f.id)
                if real in self.classes:
                    self.assumed_externals.add(f"{real}(...) [class of the analysed set: constructor not followed]")
                else:
                    self.unresolved_internal.add((origin[0], origin[1], real, info.rel))
            elif f.id not in FRESH_SHALLOW and f.id not in FRESH_DEEP and f.id not in PASS_THROUGH and \
                    f.id not in ("isinstance", "len", "cast", "str", "repr", "type", "bool", "int", "float", "any", "all",
                                 "print", "id", "hash", "issubclass", "callable", "sum"):
                self.assumed_externals.add(f.id)

        def srcs_of(e: ast.AST, env: Env) -> Set[Src]:  # noqa: C901
            """(param, depth) the VALUE of expression e may be / may give access to."""
            if isinstance(e, ast.Name):
                return set(env.get(e.id, set()))
            if isinstance(e, (ast.Subscript, ast.Attribute)):
                return elements(srcs_of(e.value, env))    # an element / attribute of the caller's object is the caller's
            if isinstance(e, ast.Starred):
                return srcs_of(e.value, env)
            if isinstance(e, ast.IfExp):
                return srcs_of(e.body, env) | srcs_of(e.orelse, env)
            if isinstance(e, ast.BoolOp):
                s: Set[Src] = set()
                for v in e.values:
                    s |= srcs_of(v, env)
                return s
            if isinstance(e, ast.BinOp):
                if isinstance(e.op, (ast.Add, ast.BitOr, ast.Mult)):
                    return fresh(srcs_of(e.left, env) | srcs_of(e.right, env))    # list + list, dict | dict
                return set()
            if isinstance(e, ast.NamedExpr):
                return srcs_of(e.value, env)
            if isinstance(e, ast.Await):
                return srcs_of(e.value, env)
            if isinstance(e, ast.Call):
                f = e.func
                name = f.id if isinstance(f, ast.Name) else f.attr if isinstance(f, ast.Attribute) else ""
                if name in FRESH_DEEP:
                    return set()
                if name == "cast" and len(e.args) == 2:
                    return srcs_of(e.args[1], env)     # typing.cast is the identity
                cal = self.callee(info.rel, e)
                if cal is not None:
                    return call_result(cal, e, env)    # summary: the callee may return (part of) its parameters
                if isinstance(f, ast.Attribute) and name in ELEMENT_GETTERS:
                    base = srcs_of(f.value, env)
                    if name in ("get", "setdefault", "pop") and len(e.args) > 1:
                        base = base | srcs_of(e.args[1], env)        # the default may be returned
                    return elements(base)
                if isinstance(f, ast.Attribute) and name in ("copy", "keys"):
                    return fresh(srcs_of(f.value, env))
                if isinstance(f, ast.Name) and name in FRESH_SHALLOW:
                    base2: Set[Src] = set()
                    for a in e.args:                       # dict(x), list(x), sorted(x) ...
                        base2 |= srcs_of(a, env)
                    for k in e.keywords:
                        base2 |= srcs_of(k.value, env)
                    return fresh(base2)
                if name in PASS_THROUGH and not (isinstance(f, ast.Attribute) and isinstance(f.value, ast.Name)
                                                 and f.value.id in env):
                    base3: Set[Src] = set()
                    for a in e.args:
                        base3 |= srcs_of(a, env)
                    return elements(base3)
                return set()
            if isinstance(e, (ast.Dict, ast.List, ast.Tuple, ast.Set)):
                s2: Set[Src] = set()
                vals = e.values if isinstance(e, ast.Dict) else e.elts
                for v in vals:
                    if v is not None:
                        s2 |= fresh(srcs_of(v, env))
                return s2
            if isinstance(e, (ast.DictComp, ast.ListComp, ast.SetComp, ast.GeneratorExp)):
                env2 = dict(env)
                for g in e.generators:
                    bind(g.target, elements(srcs_of(g.iter, env2)), env2)
                inner = e.value if isinstance(e, ast.DictComp) else e.elt
                return fresh(srcs_of(inner, env2))
            return set()

        def bind(t: ast.AST, s: Set[Src], env: Env) -> None:
            if isinstance(t, ast.Name):
                env[t.id] = set(s)
            elif isinstance(t, ast.Starred):
                bind(t.value, fresh(s), env)
            elif isinstance(t, (ast.Tuple, ast.List)):
                for x in t.elts:
                    bind(x, elements(s), env)      # unpacking: each target is an ELEMENT of the value

        def bind_assign(t: ast.AST, value: ast.AST, env: Env) -> None:
            if isinstance(t, (ast.Tuple, ast.List)) and isinstance(value, (ast.Tuple, ast.List)) and \
                    len(t.elts) == len(value.elts) and not any(isinstance(x, ast.Starred) for x in t.elts + value.elts):
                vals = [srcs_of(v, env) for v in value.elts]       # a, b = x, y : pairwise, evaluated first
                for x, v in zip(t.elts, vals):
                    bind(x, v, env)
            else:
                bind(t, srcs_of(value, env), env)

        def add_alias(name: str, s: Set[Src], env: Env) -> None:
            if s:
                env[name] = set(env.get(name, set())) | fresh(s)

        def record_store(container: ast.AST, s: Set[Src], env: Env) -> None:
            """(part of) the params in `s` is stored into the object `container` evaluates to"""
            for q, dq in srcs_of(container, env):
                if dq == FRESH:
                    continue
                for p, _ in s:
                    if p != q and p not in info.stores.setdefault(q, set()):
                        info.stores[q].add(p)
                        self._summary_changed = True

        def visit_expr(e: ast.AST, env: Env) -> None:  # noqa: C901
            # comprehensions bind their targets to ELEMENTS of what they iterate over
            if isinstance(e, (ast.ListComp, ast.SetComp, ast.GeneratorExp, ast.DictComp)):
                env2 = dict(env)
                for g in e.generators:
                    visit_expr(g.iter, env2)
                    bind(g.target, elements(srcs_of(g.iter, env2)), env2)
                    for c in g.ifs:
                        visit_expr(c, env2)
                for part in ([e.key, e.value] if isinstance(e, ast.DictComp) else [e.elt]):
                    visit_expr(part, env2)
                return
            if isinstance(e, ast.Lambda):
                env2 = dict(env)
                a = e.args
                for prm in a.posonlyargs + a.args + a.kwonlyargs + ([a.vararg] if a.vararg else []) + \
                        ([a.kwarg] if a.kwarg else []):
                    env2[prm.arg] = set()
                visit_expr(e.body, env2)      # the closure may be called: its effects count for the enclosing function
                return
            for ch in ast.iter_child_nodes(e):
                if isinstance(ch, (ast.expr, ast.keyword, ast.comprehension)):
                    visit_expr(ch, env)
            if isinstance(e, ast.NamedExpr) and isinstance(e.target, ast.Name):
                env[e.target.id] = srcs_of(e.value, env)
            if isinstance(e, ast.Call):
                n = e
                f = n.func
                if isinstance(f, ast.Attribute):
                    recv = srcs_of(f.value, env)
                    inplace = any(k.arg == "inplace" and not (isinstance(k.value, ast.Constant)
                                                              and k.value.value in (False, None))
                                  for k in n.keywords)
                    is_module_fn = isinstance(f.value, ast.Name) and f.value.id in self.module_aliases.get(info.rel, set()) \
                        and f.value.id not in env
                    if recv and (f.attr in MUTATORS or inplace) and not is_module_fn:
                        hit(recv, f".{f.attr}({'inplace=...' if inplace else ''}) on an object reachable from the "
                                  "argument", n.lineno)
                    if f.attr in ADDERS:
                        added: Set[Src] = set()
                        for a in n.args:
                            added |= srcs_of(a, env)
                        for k in n.keywords:
                            added |= srcs_of(k.value, env)
                        if added:
                            record_store(f.value, added, env)
                            if isinstance(f.value, ast.Name):
                                add_alias(f.value.id, added, env)     # the receiver now holds the caller's objects
                fname = f.id if isinstance(f, ast.Name) else f.attr if isinstance(f, ast.Attribute) else ""
                if fname in FUNCTION_MUTATORS and n.args and not (isinstance(f, ast.Attribute) and fname in MUTATORS):
                    s0 = srcs_of(n.args[0], env)
                    if s0:
                        hit(s0, f"{fname}(...) on an object reachable from the argument", n.lineno)
                cal = self.callee(info.rel, n)
                if cal is None:
                    note_unresolved(n, env)
                else:
                    binds = self.bindings(cal, n)
                    for prm, a in binds:
                        s = srcs_of(a, env)
                        if not s:
                            continue
                        prms = [prm] if prm is not None else list(cal.mutates)
                        for q in prms:
                            if q in cal.deep:
                                hit(s, f"passed to {cal.qualname}() which may mutate objects inside its parameter {q!r} "
                                       f"({cal.deep[q][0]})", n.lineno, True)
                            elif q in cal.mutates:
                                hit(s, f"passed to {cal.qualname}() which may mutate its parameter {q!r} "
                                       f"({cal.mutates[q][0]})", n.lineno, False)
                    # the callee may store (part of) one argument into another one
                    if cal.stores:
                        by_param = {prm: a for prm, a in binds if prm is not None}
                        for q, ps in cal.stores.items():
                            tgt = by_param.get(q)
                            if tgt is None:
                                continue
                            moved: Set[Src] = set()
                            for p in ps:
                                if p in by_param:
                                    moved |= srcs_of(by_param[p], env)
                            if moved:
                                record_store(tgt, moved, env)
                                if isinstance(tgt, ast.Name):
                                    add_alias(tgt.id, moved, env)

        def block(stmts: Sequence[ast.stmt], env: Env) -> Env:
            for st in stmts:
                env = stmt(st, env)
            return env

        def join(a: Env, b: Env) -> Env:
            out2 = {k: set(v) for k, v in a.items()}
            for k, v in b.items():
                out2.setdefault(k, set()).update(v)
            return out2

        def store(t: ast.AST, env: Env, line: int, why: str) -> None:
            if isinstance(t, (ast.Subscript, ast.Attribute)):
                s = srcs_of(t.value, env)
                if s:
                    hit(s, why + " " + ast.unparse(t)[:50], line)
            elif isinstance(t, ast.Starred):
                store(t.value, env, line, why)
            elif isinstance(t, (ast.Tuple, ast.List)):
                for x in t.elts:
                    store(x, env, line, why)

        def stmt(st: ast.stmt, env: Env) -> Env:  # noqa: C901
            if isinstance(st, (ast.FunctionDef, ast.AsyncFunctionDef)):
                # closure: the nested function sees the enclosing aliases and may be called
                env2 = dict(env)
                a = st.args
                for prm in a.posonlyargs + a.args + a.kwonlyargs + ([a.vararg] if a.vararg else []) + \
                        ([a.kwarg] if a.kwarg else []):
                    env2[prm.arg] = set()
                closure[0] += 1                           # `return` inside the closure is not a return of this function
                try:
                    block(st.body, env2)
                finally:
                    closure[0] -= 1
                return env
            if isinstance(st, ast.ClassDef):
                return env
            if isinstance(st, ast.Assign):
                visit_expr(st.value, env)
                s = srcs_of(st.value, env)
                for t in st.targets:
                    store(t, env, st.lineno, "store to")
                    if isinstance(t, (ast.Subscript, ast.Attribute)):
                        # storing a caller-reachable object INTO a container: the container now aliases it
                        if s:
                            record_store(t.value, s, env)
                            if isinstance(t.value, ast.Name):
                                env = dict(env)
                                add_alias(t.value.id, s, env)
                    else:
                        env = dict(env)
                        bind_assign(t, st.value, env)
                return env
            if isinstance(st, ast.AnnAssign):
                if st.value is not None:
                    visit_expr(st.value, env)
                    env = dict(env)
                    store(st.target, env, st.lineno, "store to")
                    s = srcs_of(st.value, env)
                    if isinstance(st.target, (ast.Subscript, ast.Attribute)):
                        if s:
                            record_store(st.target.value, s, env)
                            if isinstance(st.target.value, ast.Name):
                                add_alias(st.target.value.id, s, env)
                    else:
                        bind(st.target, s, env)
                return env
            if isinstance(st, ast.AugAssign):
                visit_expr(st.value, env)
                store(st.target, env, st.lineno, "augmented store to")
                if isinstance(st.target, ast.Name):
                    s = env.get(st.target.id, set())
                    if s:
                        hit(s, f"augmented assignment to {st.target.id} (in-place for mutable objects)", st.lineno)
                    sv = srcs_of(st.value, env)
                    if sv:
                        env = dict(env)
                        add_alias(st.target.id, sv, env)
                return env
            if isinstance(st, ast.Delete):
                for t in st.targets:
                    store(t, env, st.lineno, "del")
                return env
            if isinstance(st, ast.Expr):
                visit_expr(st.value, env)
                return env
            if isinstance(st, ast.Return):
                if st.value is not None:
                    visit_expr(st.value, env)
                    for p, d in (srcs_of(st.value, env) if not closure[0] else ()):
                        if p not in info.returns:
                            info.returns.add(p)
                            self._summary_changed = True
                        if d not in info.returns_d.setdefault(p, set()):
                            info.returns_d[p].add(d)
                            self._summary_changed = True
                return env
            if isinstance(st, ast.If):
                visit_expr(st.test, env)
                return join(block(st.body, dict(env)), block(st.orelse, dict(env)))
            if isinstance(st, (ast.For, ast.AsyncFor)):
                visit_expr(st.iter, env)
                env2 = dict(env)
                bind(st.target, elements(srcs_of(st.iter, env)), env2)
                e1 = block(st.body, env2)
                e1 = block(st.body, join(env2, e1))       # more rounds for loop-carried aliases
                e1 = block(st.body, join(env2, e1))
                return join(join(env, e1), block(st.orelse, dict(env)))
            if isinstance(st, ast.While):
                visit_expr(st.test, env)
                e1 = block(st.body, dict(env))
                e1 = block(st.body, join(env, e1))
                e1 = block(st.body, join(env, e1))
                return join(join(env, e1), block(st.orelse, dict(env)))
            if isinstance(st, (ast.Try, getattr(ast, "TryStar", ast.Try))):
                e1 = block(st.body, dict(env))
                acc = e1
                for h in st.handlers:
                    acc = join(acc, block(h.body, join(env, e1)))
                acc = join(acc, block(st.orelse, dict(e1)))
                return block(st.finalbody, acc)
            if isinstance(st, (ast.With, ast.AsyncWith)):
                env = dict(env)
                for it in st.items:
                    visit_expr(it.context_expr, env)
                    if it.optional_vars is not None:
                        bind(it.optional_vars, srcs_of(it.context_expr, env), env)
                return block(st.body, env)
            if isinstance(st, ast.Match):
                visit_expr(st.subject, env)
                subj = elements(srcs_of(st.subject, env))
                acc2 = dict(env)
                for case in st.cases:
                    envc = dict(env)
                    for nd in ast.walk(case.pattern):
                        nm = getattr(nd, "name", None)
                        if isinstance(nm, str):
                            envc[nm] = set(subj)          # capture patterns bind (parts of) the subject
                        rest = getattr(nd, "rest", None)
                        if isinstance(rest, str):
                            envc[rest] = set(subj)
                    if case.guard is not None:
                        visit_expr(case.guard, envc)
                    acc2 = join(acc2, block(case.body, envc))
                return acc2
            if isinstance(st, ast.Raise):
                if st.exc is not None:
                    visit_expr(st.exc, env)
                return env
            for ch in ast.iter_child_nodes(st):
                if isinstance(ch, ast.expr):
                    visit_expr(ch, env)
            return env

        env0: Env = {p: {(p, SELF)} for p in info.params if p not in ("self", "cls")}
        if info.vararg:
            env0[info.vararg] = {(info.vararg, SELF)}
        block(info.node.body, env0)
        return out, out_deep


def _qual(node: ast.AST) -> str:
    parts: List[str] = []
    cur: Optional[ast.AST] = node
    while cur is not None:
        if isinstance(cur, (ast.FunctionDef, ast.ClassDef)):
            parts.append(cur.name)
        cur = getattr(cur, "_parent", None)
    return ".".join(reversed(parts))
