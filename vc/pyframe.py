"""E3 `pyframe`: frame (assigns) contracts — which PARAMETERS may a function mutate?

For every function of the analysed modules the analysis computes `mutates(f) ⊆ params(f)`: parameter p is in the set
when some path may modify an object reachable from the argument passed for p (the caller's object), i.e.
  * store / delete / augmented assignment through a name that may alias (an element of) p:
        p[k] = v, p.attr = v, del p[k], p[k] += v, p.columns = ..., alias = p; alias[k] = v, for x in p.values(): x[k] = v
  * call of a known mutator method on such a name (.append .update .pop .clear .insert .extend .remove .sort .setdefault
    .add .discard .popitem .drop(inplace=True) .rename(inplace=True) ... any method with inplace=True)
  * passing such a name to a function whose own clause says it mutates that parameter (inter-procedural fixpoint
    over the analysed modules)
Aliasing is may-alias and flow-sensitive along straight-line code (a re-binding `p = p.copy()` / `p = f(p)` ends the
alias for the code after it; branches are joined by union).  Shallow copies (dict(p), list(p), p.copy() on containers,
{**p}) give a fresh container whose ELEMENTS still alias the caller's elements.
Assumed external clauses (listed in the evidence): calls into pandas / pysdmx / json / pathlib / copy / jsonschema do
not mutate their arguments unless they are one of the mutators above; copy.deepcopy returns a fresh object.
"""
from __future__ import annotations

import ast
from dataclasses import dataclass, field
from typing import Any, Dict, List, Optional, Sequence, Set, Tuple

from .pysrc import module_ast

MUTATORS = {"append", "extend", "insert", "remove", "pop", "clear", "sort", "reverse", "update", "setdefault",
            "popitem", "add", "discard", "difference_update", "intersection_update", "symmetric_difference_update",
            "__setitem__", "__delitem__", "write", "writelines", "drop_duplicates_inplace"}
FRESH_DEEP = {"deepcopy"}
FRESH_SHALLOW = {"dict", "list", "set", "tuple", "sorted", "copy", "frozenset"}


@dataclass
class FnInfo:
    rel: str
    qualname: str
    node: ast.FunctionDef
    params: List[str]
    mutates: Dict[str, List[str]] = field(default_factory=dict)    # param -> reasons (with line numbers)
    returns: Set[str] = field(default_factory=set)                 # params (an element of) which may be returned


class FrameAnalysis:
    def __init__(self, modules: Sequence[str]) -> None:
        self.modules = list(modules)
        self.fns: Dict[Tuple[str, str], FnInfo] = {}
        self.by_name: Dict[str, List[FnInfo]] = {}
        self.imports: Dict[str, Dict[str, str]] = {}
        for rel in self.modules:
            tree = module_ast(rel)
            self.imports[rel] = {}
            for st in tree.body:
                if isinstance(st, ast.ImportFrom):
                    for a in st.names:
                        self.imports[rel][a.asname or a.name] = a.name
            for st in ast.walk(tree):
                if isinstance(st, ast.FunctionDef):
                    qn = _qual(st)
                    a = st.args
                    params = [p.arg for p in a.posonlyargs + a.args + a.kwonlyargs]
                    if a.vararg:
                        params.append(a.vararg.arg)
                    if a.kwarg:
                        params.append(a.kwarg.arg)
                    info = FnInfo(rel, qn, st, params)
                    self.fns[(rel, qn)] = info
                    self.by_name.setdefault(st.name, []).append(info)
        self.assumed_externals: Set[str] = set()
        self._solve()

    def callee(self, rel: str, call: ast.Call) -> Optional[FnInfo]:
        f = call.func
        name = f.id if isinstance(f, ast.Name) else f.attr if isinstance(f, ast.Attribute) else None
        if name is None:
            return None
        real = self.imports.get(rel, {}).get(name, name)
        cands = self.by_name.get(real, [])
        if isinstance(f, ast.Name):
            same = [c for c in cands if c.rel == rel and "." not in c.qualname]
            if same:
                return same[0]
            top = [c for c in cands if "." not in c.qualname]
            return top[0] if len(top) == 1 else None
        return None

    def _solve(self) -> None:
        changed = True
        rounds = 0
        while changed and rounds < 12:
            changed = False
            rounds += 1
            self._returns_changed = False
            for info in self.fns.values():
                new = self._analyse(info)
                if self._returns_changed:
                    changed = True
                for p, reasons in new.items():
                    if p not in info.mutates:
                        info.mutates[p] = reasons
                        changed = True

    # alias state: name -> set of (param, depth) ; depth 0 = the object itself, 1 = an element of it / shallow copy
    def _analyse(self, info: FnInfo) -> Dict[str, List[str]]:
        out: Dict[str, List[str]] = {}

        def hit(srcs: Set[Tuple[str, int]], why: str, line: int, container_level: bool) -> None:
            for p, depth in srcs:
                if depth >= 1 and container_level and (p, 0) not in srcs:
                    # mutation of a fresh shallow copy's own slots is not a caller mutation
                    continue
                out.setdefault(p, []).append(f"line {line}: {why}")

        def srcs_of(e: ast.AST, env: Dict[str, Set[Tuple[str, int]]]) -> Set[Tuple[str, int]]:
            """Objects (param, depth) the VALUE of expression e may be or may be an element of."""
            if isinstance(e, ast.Name):
                return set(env.get(e.id, set()))
            if isinstance(e, (ast.Subscript, ast.Attribute)):
                base = srcs_of(e.value, env)
                return {(p, 0) for p, _d in base}      # an element / attribute of the caller's object is the caller's
            if isinstance(e, ast.Starred):
                return srcs_of(e.value, env)
            if isinstance(e, ast.IfExp):
                return srcs_of(e.body, env) | srcs_of(e.orelse, env)
            if isinstance(e, ast.BoolOp):
                s: Set[Tuple[str, int]] = set()
                for v in e.values:
                    s |= srcs_of(v, env)
                return s
            if isinstance(e, ast.NamedExpr):
                return srcs_of(e.value, env)
            if isinstance(e, ast.Call):
                f = e.func
                name = f.id if isinstance(f, ast.Name) else f.attr if isinstance(f, ast.Attribute) else ""
                if name in FRESH_DEEP:
                    return set()
                if name == "cast" and len(e.args) == 2:
                    return srcs_of(e.args[1], env)     # typing.cast is the identity
                if name in FRESH_SHALLOW or name in ("items", "values", "keys", "get"):
                    base: Set[Tuple[str, int]] = set()
                    if isinstance(f, ast.Attribute):
                        base |= srcs_of(f.value, env)
                    if not isinstance(f, ast.Attribute):
                        for a in e.args:                       # dict(x), list(x), sorted(x) ...
                            base |= srcs_of(a, env)
                    elif name == "get" and len(e.args) > 1:
                        base |= srcs_of(e.args[1], env)        # the default may be returned
                    if name in ("items", "values", "get"):
                        return {(p, 0) for p, _ in base}      # elements themselves
                    return {(p, 1) for p, _ in base}          # fresh container, elements alias
                cal = self.callee(info.rel, e)
                if cal is not None:
                    # summary: the callee may return (an element of) some of its parameters
                    res: Set[Tuple[str, int]] = set()
                    for i, a in enumerate(e.args):
                        if i < len(cal.params) and cal.params[i] in cal.returns:
                            res |= {(p, 0) for p, _ in srcs_of(a, env)}
                    for k in e.keywords:
                        if k.arg in cal.returns:
                            res |= {(p, 0) for p, _ in srcs_of(k.value, env)}
                    return res
                return set()
            if isinstance(e, (ast.Dict, ast.List, ast.Tuple, ast.Set)):
                s2: Set[Tuple[str, int]] = set()
                vals = e.values if isinstance(e, ast.Dict) else e.elts
                for v in vals:
                    if v is not None:
                        s2 |= {(p, 1) for p, _ in srcs_of(v, env)}
                if isinstance(e, ast.Dict):
                    for k in e.keys:
                        if k is None:
                            pass
                return s2
            if isinstance(e, (ast.DictComp, ast.ListComp, ast.SetComp, ast.GeneratorExp)):
                env2 = dict(env)
                for g in e.generators:
                    bind(g.target, {(p, 0) for p, _ in srcs_of(g.iter, env2)}, env2)
                inner = e.value if isinstance(e, ast.DictComp) else e.elt
                return {(p, 1) for p, _ in srcs_of(inner, env2)}
            return set()

        def bind(t: ast.AST, s: Set[Tuple[str, int]], env: Dict[str, Set[Tuple[str, int]]]) -> None:
            if isinstance(t, ast.Name):
                env[t.id] = set(s)
            elif isinstance(t, (ast.Tuple, ast.List)):
                for x in t.elts:
                    bind(x, s, env)

        def visit_expr(e: ast.AST, env: Dict[str, Set[Tuple[str, int]]]) -> None:
            # comprehensions bind their targets to ELEMENTS of what they iterate over
            if isinstance(e, (ast.ListComp, ast.SetComp, ast.GeneratorExp, ast.DictComp)):
                env2 = dict(env)
                for g in e.generators:
                    visit_expr(g.iter, env2)
                    bind(g.target, {(p, 0) for p, _ in srcs_of(g.iter, env2)}, env2)
                    for c in g.ifs:
                        visit_expr(c, env2)
                for part in ([e.key, e.value] if isinstance(e, ast.DictComp) else [e.elt]):
                    visit_expr(part, env2)
                return
            for ch in ast.iter_child_nodes(e):
                if isinstance(ch, (ast.expr, ast.keyword, ast.comprehension)):
                    visit_expr(ch, env)
            for n in [e]:
                if isinstance(n, ast.Call):
                    f = n.func
                    if isinstance(f, ast.Attribute):
                        recv = srcs_of(f.value, env)
                        inplace = any(k.arg == "inplace" and isinstance(k.value, ast.Constant) and k.value.value is True
                                      for k in n.keywords)
                        if recv and (f.attr in MUTATORS or inplace):
                            hit(recv, f".{f.attr}({'inplace=True' if inplace else ''}) on an object reachable from the "
                                      "argument", n.lineno, True)
                    cal = self.callee(info.rel, n)
                    if cal is not None and cal.mutates:
                        for i, a in enumerate(n.args):
                            if i < len(cal.params) and cal.params[i] in cal.mutates:
                                s = srcs_of(a, env)
                                if s:
                                    hit(s, f"passed to {cal.qualname}() which may mutate its parameter {cal.params[i]!r} "
                                           f"({cal.mutates[cal.params[i]][0]})", n.lineno, True)
                        for k in n.keywords:
                            if k.arg in cal.mutates:
                                s = srcs_of(k.value, env)
                                if s:
                                    hit(s, f"passed to {cal.qualname}() which may mutate its parameter {k.arg!r} "
                                           f"({cal.mutates[k.arg][0]})", n.lineno, True)

        def block(stmts: Sequence[ast.stmt], env: Dict[str, Set[Tuple[str, int]]]) -> Dict[str, Set[Tuple[str, int]]]:
            for st in stmts:
                env = stmt(st, env)
            return env

        def join(a: Dict[str, Set[Tuple[str, int]]], b: Dict[str, Set[Tuple[str, int]]]) -> Dict[str, Set[Tuple[str, int]]]:
            out2 = {k: set(v) for k, v in a.items()}
            for k, v in b.items():
                out2.setdefault(k, set()).update(v)
            return out2

        def store(t: ast.AST, env: Dict[str, Set[Tuple[str, int]]], line: int, why: str) -> None:
            if isinstance(t, (ast.Subscript, ast.Attribute)):
                s = srcs_of(t.value, env)
                if s:
                    hit(s, why + " " + ast.unparse(t)[:50], line, True)
            elif isinstance(t, (ast.Tuple, ast.List)):
                for x in t.elts:
                    store(x, env, line, why)

        def stmt(st: ast.stmt, env: Dict[str, Set[Tuple[str, int]]]) -> Dict[str, Set[Tuple[str, int]]]:
            if isinstance(st, (ast.FunctionDef, ast.ClassDef, ast.AsyncFunctionDef)):
                return env
            if isinstance(st, ast.Assign):
                visit_expr(st.value, env)
                s = srcs_of(st.value, env)
                for t in st.targets:
                    store(t, env, st.lineno, "store to")
                    if isinstance(t, ast.Subscript) or isinstance(t, ast.Attribute):
                        # storing a caller-reachable object INTO a local container: container now aliases it
                        if isinstance(t.value, ast.Name) and s:
                            env = dict(env)
                            env[t.value.id] = set(env.get(t.value.id, set())) | {(p, 1) for p, _ in s}
                    else:
                        env = dict(env)
                        bind(t, s, env)
                return env
            if isinstance(st, ast.AnnAssign):
                if st.value is not None:
                    visit_expr(st.value, env)
                    env = dict(env)
                    store(st.target, env, st.lineno, "store to")
                    bind(st.target, srcs_of(st.value, env), env)
                return env
            if isinstance(st, ast.AugAssign):
                visit_expr(st.value, env)
                store(st.target, env, st.lineno, "augmented store to")
                if isinstance(st.target, ast.Name):
                    s = env.get(st.target.id, set())
                    if s:
                        hit(s, f"augmented assignment to {st.target.id} (in-place for mutable objects)", st.lineno, True)
                return env
            if isinstance(st, ast.Delete):
                for t in st.targets:
                    store(t, env, st.lineno, "del")
                return env
            if isinstance(st, ast.Expr):
                visit_expr(st.value, env)
                return env
            if isinstance(st, ast.Return):
                if st.value is not None:
                    visit_expr(st.value, env)
                    for p, _d in srcs_of(st.value, env):
                        if p not in info.returns:
                            info.returns.add(p)
                            self._returns_changed = True
                return env
            if isinstance(st, ast.If):
                visit_expr(st.test, env)
                return join(block(st.body, dict(env)), block(st.orelse, dict(env)))
            if isinstance(st, (ast.For, ast.AsyncFor)):
                visit_expr(st.iter, env)
                env2 = dict(env)
                bind(st.target, {(p, 0) for p, _ in srcs_of(st.iter, env)}, env2)
                e1 = block(st.body, env2)
                e1 = block(st.body, join(env2, e1))       # one more round for loop-carried aliases
                return join(join(env, e1), block(st.orelse, dict(env)))
            if isinstance(st, ast.While):
                visit_expr(st.test, env)
                e1 = block(st.body, dict(env))
                e1 = block(st.body, join(env, e1))
                return join(env, e1)
            if isinstance(st, ast.Try):
                e1 = block(st.body, dict(env))
                acc = e1
                for h in st.handlers:
                    acc = join(acc, block(h.body, join(env, e1)))
                acc = join(acc, block(st.orelse, dict(e1)))
                return block(st.finalbody, acc)
            if isinstance(st, (ast.With, ast.AsyncWith)):
                env = dict(env)
                for it in st.items:
                    visit_expr(it.context_expr, env)
                    if it.optional_vars is not None:
                        bind(it.optional_vars, srcs_of(it.context_expr, env), env)
                return block(st.body, env)
            if isinstance(st, ast.Raise):
                if st.exc is not None:
                    visit_expr(st.exc, env)
                return env
            for ch in ast.iter_child_nodes(st):
                if isinstance(ch, ast.expr):
                    visit_expr(ch, env)
            return env

        env0: Dict[str, Set[Tuple[str, int]]] = {p: {(p, 0)} for p in info.params if p not in ("self", "cls")}
        block(info.node.body, env0)
        return out


def _qual(node: ast.AST) -> str:
    parts: List[str] = []
    cur: Optional[ast.AST] = node
    while cur is not None:
        if isinstance(cur, (ast.FunctionDef, ast.ClassDef)):
            parts.append(cur.name)
        cur = getattr(cur, "_parent", None)
    return ".".join(reversed(parts))
