"""Loop-step obligations: ONE iteration of a real loop body, executed by vc.pyvc from an ARBITRARY loop state.

`LoopStep(rel, qualname, ordinal, flatten)` locates the `ordinal`-th outermost `for` loop (source order) of the real
function (re-read from the working tree on every run) and wraps its body - the real statements, untouched - in a
synthetic function whose parameters are every name the body uses that is a parameter or local of the enclosing
function (loop targets included):

    def <fn>.<loop-step#k>(<names>):
        for __once in (0,):            # so that `continue` ends the iteration
            <real loop body>
        return (__snap(<name>), ...)   # the loop state after the iteration

With flatten=True the located loop must consist of exactly one inner `for` over an attribute of the outer target
(`for k, st in D.items(): for x in st.inputs: BODY`); the step is then BODY with the outer AND inner targets as
parameters, i.e. one iteration of the flattened loop over the pairs (k, x) in lexicographic order.
The caller supplies the state (symbolic collections of vc.pycoll, symbolic scalars); names it does not supply are
Opaque (any use that matters aborts the path -> the obligation is undecided, never discharged).
The induction over the iteration sequence is NOT done here: each check states it as a meta-argument.
"""
from __future__ import annotations

import ast
from typing import Any, Callable, Dict, List, Optional, Sequence, Tuple

from .pycoll import SymColl, snap
from .pysrc import find_def
from .pyvc import Engine, FuncV, ObjV, Opaque, PathResult


def outer_loops(fn: ast.FunctionDef) -> List[ast.For]:
    out: List[ast.For] = []

    def rec(stmts: Sequence[ast.stmt]) -> None:
        for st in stmts:
            if isinstance(st, ast.For):
                out.append(st)
                continue
            for fld in ("body", "orelse", "finalbody"):
                sub = getattr(st, fld, None)
                if isinstance(sub, list) and sub and isinstance(sub[0], ast.stmt):
                    rec(sub)
            for h in getattr(st, "handlers", []) or []:
                rec(h.body)
    rec(fn.body)
    return out


def _names(t: ast.expr) -> List[str]:
    return [n.id for n in ast.walk(t) if isinstance(n, ast.Name)]


class LoopStep:
    def __init__(self, rel: str, qualname: str, ordinal: int, flatten: bool = False) -> None:
        self.rel, self.qualname, self.ordinal = rel, qualname, ordinal
        self.ok, self.why = False, ""
        fn = find_def(rel, qualname)
        if not isinstance(fn, ast.FunctionDef):
            self.why = f"{rel}:{qualname} not found"
            return
        self.fn = fn
        # simple initialisations `name = <expr>` / `name: T = <expr>` anywhere in the function (roles of the loop state are
        # resolved by what a local is initialised with, not by its name: a renamed local is still found)
        self.inits: Dict[str, str] = {}
        for n in ast.walk(fn):
            if isinstance(n, ast.Assign) and len(n.targets) == 1 and isinstance(n.targets[0], ast.Name):
                self.inits.setdefault(n.targets[0].id, ast.unparse(n.value))
            elif isinstance(n, ast.AnnAssign) and isinstance(n.target, ast.Name) and n.value is not None:
                self.inits.setdefault(n.target.id, ast.unparse(n.value))
        loops = outer_loops(fn)
        self.n_loops = len(loops)
        if ordinal >= len(loops):
            self.why = f"{qualname} has {len(loops)} outermost loop(s), loop #{ordinal} expected"
            return
        loop = loops[ordinal]
        self.outer = loop
        self.outer_targets = _names(loop.target)
        self.outer_iter = ast.unparse(loop.iter)
        self.inner_iter: Optional[str] = None
        self.inner_targets: List[str] = []
        if flatten:
            if not (len(loop.body) == 1 and isinstance(loop.body[0], ast.For) and not loop.orelse):
                self.why = (f"loop #{ordinal} of {qualname} (line {loop.lineno}) is expected to consist of exactly one inner "
                            f"for-loop; its body is {[type(s).__name__ for s in loop.body]}")
                return
            inner = loop.body[0]
            self.inner_iter = ast.unparse(inner.iter)
            self.inner_targets = _names(inner.target)
            if inner.orelse:
                self.why = f"inner loop of loop #{ordinal} of {qualname} has an else clause"
                return
            body = inner.body
        else:
            body = loop.body
        # "one generic iteration" is only meaningful when the body does not change the collection that is iterated
        # (a list mutated while it is iterated skips / repeats elements): refuse such loops
        iters = [loop.iter] + ([loop.body[0].iter] if flatten else [])  # type: ignore[attr-defined]
        def live_parts(e: ast.expr) -> List[ast.expr]:
            # list(x) / tuple(x) / sorted(x) / set(x) / copy.copy(x) iterate a copy: x may be changed by the body
            if isinstance(e, ast.Call) and ast.unparse(e.func) in ("list", "tuple", "sorted", "set", "frozenset", "dict",
                                                                   "copy.copy", "copy.deepcopy"):
                return []
            out: List[ast.expr] = [e] if isinstance(e, (ast.Name, ast.Attribute)) else []
            for ch in ast.iter_child_nodes(e):
                if isinstance(ch, ast.expr):
                    out += live_parts(ch)
            return out
        roots = {ast.unparse(r) for it in iters for r in live_parts(it) if ast.unparse(r) not in ("self",)}
        for st in body:
            for n in ast.walk(st):
                recv = None
                if isinstance(n, ast.Call) and isinstance(n.func, ast.Attribute) and n.func.attr in (
                        "append", "extend", "add", "update", "discard", "remove", "pop", "clear", "insert", "setdefault",
                        "sort", "reverse", "popitem"):
                    recv = n.func.value
                elif isinstance(n, ast.Subscript) and isinstance(n.ctx, (ast.Store, ast.Del)):
                    recv = n.value
                if recv is not None and ast.unparse(recv) in roots:
                    self.why = (f"the body of loop #{ordinal} of {qualname} (line {n.lineno}) changes `{ast.unparse(recv)}`, the "
                                "collection it iterates over: one generic iteration does not describe such a loop")
                    return
        if loop.orelse:
            self.why = "for ... else"
            return
        bad = [n for st in body for n in ast.walk(st) if isinstance(n, (ast.Break, ast.Return, ast.For, ast.While))]
        self.nested = [n for n in bad if isinstance(n, (ast.For, ast.While))]
        bad = [n for n in bad if isinstance(n, (ast.Break,))]
        if bad:
            self.why = f"loop body contains {type(bad[0]).__name__} (line {bad[0].lineno}): not a plain per-element loop"
            return
        self.body = body
        params = [a.arg for a in fn.args.posonlyargs + fn.args.args + fn.args.kwonlyargs]
        stored = {n.id for n in ast.walk(fn) if isinstance(n, ast.Name) and isinstance(n.ctx, ast.Store)}
        used: List[str] = []
        for st in body:
            for n in ast.walk(st):
                if isinstance(n, ast.Name) and n.id in (set(params) | stored) and n.id not in used:
                    used.append(n.id)
        self.names = sorted(used)
        self.returns_in_body = any(isinstance(n, ast.Return) for st in body for n in ast.walk(st))
        ret = ast.Return(value=ast.Tuple(elts=[ast.Call(func=ast.Name(id="__snap", ctx=ast.Load()),
                                                         args=[ast.Name(id=n, ctx=ast.Load())], keywords=[])
                                               for n in self.names], ctx=ast.Load()))
        step = ast.FunctionDef(
            name=f"{fn.name}__loop_step_{ordinal}",
            args=ast.arguments(posonlyargs=[], args=[ast.arg(arg=n) for n in self.names], kwonlyargs=[], kw_defaults=[],
                               defaults=[]),
            body=[ast.For(target=ast.Name(id="__once", ctx=ast.Store()),
                          iter=ast.Tuple(elts=[ast.Constant(value=0)], ctx=ast.Load()), body=list(body), orelse=[]), ret],
            decorator_list=[])
        ast.fix_missing_locations(step)
        self.fv = FuncV(rel, f"{qualname}.<loop-step#{ordinal}>", step)
        # enclosing class (so that super() / self.method resolve) is not needed: bodies call through `self`
        self.ok = True

    def local_with_init(self, init_src: str, default: str, nth: int = 0) -> str:
        """Name of the nth local initialised with `init_src` (source order); `default` when there is none."""
        if not self.ok and not hasattr(self, "inits"):
            return default
        hits = [n for n, v in self.inits.items() if v == init_src]
        return hits[nth] if nth < len(hits) else default

    def target(self, i: int, default: str, inner: bool = False) -> str:
        ts = getattr(self, "inner_targets" if inner else "outer_targets", [])
        return ts[i] if i < len(ts) else default

    def describe(self) -> str:
        if not self.ok:
            return self.why
        it = self.outer_iter + (f" x {self.inner_iter}" if self.inner_iter else "")
        return f"loop #{self.ordinal} of {self.qualname} (line {self.outer.lineno}): for {','.join(self.outer_targets + self.inner_targets)} in {it}"

    def explore(self, eng: Engine, state: Dict[str, Any]) -> Tuple[List[PathResult], Dict[str, Any]]:
        """Explore one iteration; returns (paths, initial values by name).  Path values become dicts name -> final value."""
        eng.externals["__snap"] = lambda e, v: snap(v)
        init = {n: state.get(n, Opaque(f"local `{n}` of {self.qualname} not supplied by the contract")) for n in self.names}
        colls: List[SymColl] = []
        objs: List[Tuple[ObjV, Dict[str, Any]]] = []
        lists: List[Tuple[list, list]] = []
        dicts: List[Tuple[dict, dict]] = []

        def collect(v: Any, depth: int = 0) -> None:
            if isinstance(v, SymColl):
                colls.append(v)
            elif isinstance(v, ObjV) and depth < 3:
                objs.append((v, dict(v.attrs)))
                for x in v.attrs.values():
                    collect(x, depth + 1)
            elif type(v) is list:
                lists.append((v, list(v)))
            elif type(v) is dict:
                dicts.append((v, dict(v)))
        for v in init.values():
            collect(v)

        def reset(_e: Engine) -> None:
            for c in colls:
                c.reset()
            for o, a in objs:
                o.attrs.clear()
                o.attrs.update(a)
            for l, l0 in lists:
                l[:] = l0
            for d, d0 in dicts:
                d.clear()
                d.update(d0)
        paths = eng.explore(self.fv, [init[n] for n in self.names], setup=reset)
        for p in paths:
            if p.kind == "return" and isinstance(p.value, tuple) and len(p.value) == len(self.names):
                p.value = dict(zip(self.names, p.value))
        reset(eng)
        return paths, init


def same(a: Any, b: Any) -> bool:
    """Identity of a final loop-state value with its initial value (scalars: same term)."""
    if a is b:
        return True
    if getattr(a, "origin", None) is b:
        return True
    from .smt import is_sym
    if is_sym(a) and is_sym(b):
        return a.sx == b.sx
    if isinstance(a, (int, str, bool, type(None))) and type(a) is type(b):
        return a == b
    return False
