"""Python `str` values of CONCRETE LENGTH as vectors of symbolic characters inside vc.pyvc (adapter, additive).

vc.pyvc models `str` as SMT strings; the input validators of vtlengine (DataTypes/_time_checking.py, TimeHandling.py) are
fixed-shape codecs, for which the encoding of C19 (one analysis per string length, characters symbolic) is exact and
cheap.  This module adds, WITHOUT touching vc.pyvc:

  CS            a Python str of concrete length: list of character codes (ints or Int terms); hooks into pyvc
  CEngine       pyvc.Engine whose frames are CFrame, whose feasibility pruning goes through vc.charprune first, and in
                which a call of an UNMODELLED external aborts the path (OutsideSubset) instead of yielding an opaque value
                (an external may raise; silently dropping that would be unsound for accept/reject questions)
  CFrame        pyvc.Frame + slices / == / ordering / `in` / truth / f-strings on CS, dict lookup with a CS key,
                `x in range(a, b)`, `x in obj` via the class's __contains__, and PROPERTY SETTERS (`self.year = v` runs the
                `@year.setter` body found in the class source; plain pyvc stores the attribute directly)
  externals     int / len / str / isinstance on CS;  re.compile / fullmatch / match / search through vc.regexvc, match
                groups by enumerating the backtracking alternatives in CPython's preference order;  assumed contracts
                (CPython 3.12, C implementation) of date.fromisoformat, datetime.fromisoformat, datetime.strptime,
                calendar.isleap, calendar.monthrange written with vc.calendar -- listed by `CONTRACTS`, validated against
                the real functions by the checks that use them (conformance sampling).

Character domain assumed by the users of this module: code points 32..126.
"""
from __future__ import annotations

import ast
import re
from typing import Any, Callable, Dict, List, Optional, Sequence, Tuple

try:  # Python >= 3.11
    import re._constants as sre_c  # type: ignore
    import re._parser as sre_parse  # type: ignore
except ImportError:  # pragma: no cover
    import sre_constants as sre_c  # type: ignore
    import sre_parse  # type: ignore

from . import calendar as cal
from . import regexvc, smt
from .pyvc import (BoundV, BuiltinClass, ClassV, Engine, ExternalV, Frame, FuncV, ModuleV, ObjV, Opaque, OutsideSubset,
                   RaiseSignal, ReturnSignal, _native, builtin_class)
from .smt import Add, And, Eq, FloorDiv, Ge, Gt, Ite, Le, Lt, Mod, Mul, Not, Or, Sub, is_sym
from .sqlvc import CStr, digits_of, digits_value

CONTRACTS = {
    "int(str)": "on ASCII: optional blanks, optional sign, digits with single '_' between digits; a pure digit string has its "
                "decimal value; signed / underscored / padded numerals are outside the model (path aborted); else ValueError",
    "str.strip()": "removes leading/trailing characters 9..13, 28..31, 32 (the ASCII whitespace of str.isspace)",
    "re": "patterns parsed by CPython's own parser; match existence via vc.regexvc (regular subset); groups: the first "
          "matching alternative in backtracking preference order (greedy repeat: longer first; alternation: left first)",
    "datetime.date.fromisoformat": "CPython 3.12 _datetime.c parse_isoformat_date: length 7, 8 or 10; YYYY[-]MM[-]DD (the dash "
                                   "use must be consistent, text after the day of a 10-character undashed string is ignored) "
                                   "or YYYY[-]Www[[-]D] (ISO week 1..weeks(year), day 1..7); the civil date must exist and "
                                   "lie in years 1..9999; otherwise ValueError",
    "datetime.datetime.fromisoformat": "only for texts of shape YYYY-MM-DD[T ]HH:MM:SS[.ffffff][+-HH:MM]: ValueError unless the "
                                       "date exists (year >= 1), hour <= 23, minute <= 59, second <= 59 and the offset is below "
                                       "24 h; any other shape is outside the model",
    "datetime.datetime.strptime": "formats built from %Y %m %d and literal characters, regex per directive as in "
                                  "Lib/_strptime.py; first backtracking alternative; 'unconverted data remains' and calendar "
                                  "range errors are ValueError; year 0 is ValueError",
    "calendar.isleap / monthrange": "Gregorian leap rule; monthrange(y, m)[1] = days of the month (IllegalMonthError outside 1..12)",
}


def _raise(name: str, *args: Any) -> None:
    raise RaiseSignal(ObjV(builtin_class(name), {}, tuple(args)))


def is_dig(c: Any) -> Any:
    return And(Ge(c, 48), Le(c, 57))


def is_space(c: Any) -> Any:
    return Or(Eq(c, 32), And(Ge(c, 9), Le(c, 13)), And(Ge(c, 28), Le(c, 31)))


def num(chars: Sequence[Any]) -> Any:
    """decimal value of digit characters: the SAME term vc.sqlvc builds for the same characters (identical atoms on the
    two sides of a two-engine query keep the solver's work propositional)."""
    return digits_value(chars)


def num_blank0(chars: Sequence[Any]) -> Any:
    """decimal value where a blank counts as 0 (the ' 5' day spelling of strptime)."""
    v: Any = 0
    for c in chars:
        d = c - 48 if isinstance(c, int) else Sub(c, 48)
        if isinstance(c, int):
            d = 0 if c == 32 else d
        else:
            d = Ite(Eq(c, 32), 0, d)
        v = Add(Mul(v, 10), d)
    return v


# ----------------------------------------------------------------------------------------------------------------
# the string value
# ----------------------------------------------------------------------------------------------------------------
class CS(CStr):
    """Python str of concrete length.  Immutable by convention."""

    @staticmethod
    def lit(s: str) -> "CS":
        return CS([ord(c) for c in s])

    def __repr__(self) -> str:
        c = self.concrete()
        return f"CS({c!r})" if c is not None else f"CS<{len(self.chars)} chars>"

    # -- pyvc hooks -------------------------------------------------------------------------------------------------
    def _pyvc_str(self, eng: Any) -> Any:
        return self

    def _pyvc_getitem(self, eng: Any, key: Any) -> Any:
        if isinstance(key, bool) or not isinstance(key, int):
            raise OutsideSubset("string index that is not a concrete int")
        if key >= len(self.chars) or key < -len(self.chars):
            _raise("IndexError", "string index out of range")
        return CS([self.chars[key]])

    def _pyvc_binop(self, eng: Any, op: str, other: Any, refl: bool) -> Any:
        if op == "Add":
            o = as_cs(other)
            if o is None:
                if isinstance(other, Opaque):
                    return Opaque("concatenation with an unmodelled value")
                _raise("TypeError", "can only concatenate str")
            return CS(o.chars + self.chars) if refl else CS(self.chars + o.chars)
        if op == "Mult" and isinstance(other, int) and not isinstance(other, bool):
            return CS(self.chars * other)
        raise OutsideSubset(f"operator {op} on a string")

    def _pyvc_getattr(self, eng: Any, name: str) -> Any:
        h = _METHODS.get(name)
        if h is None:
            raise OutsideSubset(f"str.{name} is not modelled")
        return BoundV(_native(h), self)


def as_cs(x: Any) -> Optional[CS]:
    if isinstance(x, CS):
        return x
    if isinstance(x, str):
        return CS.lit(x)
    return None


def _m_strip(eng: Any, recv: CS, *a: Any) -> Any:
    if a and a[0] is not None:
        raise OutsideSubset("strip(chars)")
    ch = recv.chars
    lo, hi = 0, len(ch)
    while lo < hi and eng.decide(is_space(ch[lo])):
        lo += 1
    while hi > lo and eng.decide(is_space(ch[hi - 1])):
        hi -= 1
    return CS(ch[lo:hi])


def _m_lstrip(eng: Any, recv: CS, *a: Any) -> Any:
    if a and a[0] is not None:
        raise OutsideSubset("lstrip(chars)")
    ch = recv.chars
    lo = 0
    while lo < len(ch) and eng.decide(is_space(ch[lo])):
        lo += 1
    return CS(ch[lo:])


def _m_rstrip(eng: Any, recv: CS, *a: Any) -> Any:
    if a and a[0] is not None:
        raise OutsideSubset("rstrip(chars)")
    ch = recv.chars
    hi = len(ch)
    while hi > 0 and eng.decide(is_space(ch[hi - 1])):
        hi -= 1
    return CS(ch[:hi])


def _case(c: Any, lo: int, hi: int, delta: int) -> Any:
    if isinstance(c, int):
        return c + delta if lo <= c <= hi else c
    return Ite(And(Ge(c, lo), Le(c, hi)), Add(c, delta), c)


def _m_lower(eng: Any, recv: CS) -> Any:
    return CS([_case(c, 65, 90, 32) for c in recv.chars])


def _m_upper(eng: Any, recv: CS) -> Any:
    return CS([_case(c, 97, 122, -32) for c in recv.chars])


def _m_isdigit(eng: Any, recv: CS) -> Any:
    return And(*[is_dig(c) for c in recv.chars]) if recv.chars else False


def _m_startswith(eng: Any, recv: CS, p: Any) -> Any:
    ps = p if isinstance(p, tuple) else (p,)
    alts = []
    for q in ps:
        o = as_cs(q)
        if o is None:
            raise OutsideSubset("startswith argument")
        alts.append(CS(recv.chars[:len(o)]).eq(o) if len(o) <= len(recv) else False)
    return Or(*alts)


def _m_endswith(eng: Any, recv: CS, p: Any) -> Any:
    ps = p if isinstance(p, tuple) else (p,)
    alts = []
    for q in ps:
        o = as_cs(q)
        if o is None:
            raise OutsideSubset("endswith argument")
        alts.append(CS(recv.chars[len(recv) - len(o):]).eq(o) if len(o) <= len(recv) else False)
    return Or(*alts)


def _m_find(eng: Any, recv: CS, sub: Any, *a: Any) -> Any:
    o = as_cs(sub)
    if o is None or a:
        raise OutsideSubset("find arguments")
    k = len(o)
    if k == 0:
        return 0
    for i in range(0, len(recv) - k + 1):
        if eng.decide(CS(recv.chars[i:i + k]).eq(o)):
            return i
    return -1


def _m_split(eng: Any, recv: CS, sep: Any = None, *a: Any) -> Any:
    o = as_cs(sep)
    if o is None or len(o) != 1 or a or o.concrete() is None:
        raise OutsideSubset("split with a separator that is not one concrete character")
    s = o.chars[0]
    parts: List[Any] = []
    cur: List[Any] = []
    for c in recv.chars:
        if eng.decide(Eq(c, s)):
            parts.append(CS(cur))
            cur = []
        else:
            cur.append(c)
    parts.append(CS(cur))
    return parts


def _m_replace(eng: Any, recv: CS, a: Any, b: Any, *rest: Any) -> Any:
    x, y = as_cs(a), as_cs(b)
    if x is None or y is None or rest or x.concrete() is None or len(x) != 1:
        raise OutsideSubset("replace with a pattern that is not one concrete character")
    out: List[Any] = []
    for c in recv.chars:
        if eng.decide(Eq(c, x.chars[0])):
            out.extend(y.chars)
        else:
            out.append(c)
    return CS(out)


def _m_removeprefix(eng: Any, recv: CS, p: Any) -> Any:
    o = as_cs(p)
    if o is None:
        raise OutsideSubset("removeprefix argument")
    if len(o) <= len(recv) and eng.decide(CS(recv.chars[:len(o)]).eq(o)):
        return CS(recv.chars[len(o):])
    return recv


def _m_format_unsupported(eng: Any, recv: CS, *a: Any, **k: Any) -> Any:
    return Opaque("str.format on a symbolic string")


_METHODS: Dict[str, Callable[..., Any]] = {
    "strip": _m_strip, "lstrip": _m_lstrip, "rstrip": _m_rstrip, "lower": _m_lower, "upper": _m_upper,
    "isdigit": _m_isdigit, "startswith": _m_startswith, "endswith": _m_endswith, "find": _m_find, "split": _m_split,
    "replace": _m_replace, "removeprefix": _m_removeprefix, "format": _m_format_unsupported,
}


def int_to_cs(eng: Any, v: Any, width: int = 0) -> CS:
    """str(v) / format(v, '0<width>d') of an int: forks on the number of digits (non-negative values up to 7 digits)."""
    if isinstance(v, bool):
        raise OutsideSubset("bool in a numeric format")
    if isinstance(v, int):
        return CS.lit(format(v, f"0{width}d") if width else str(v))
    if eng.decide(Lt(v, 0)):
        raise OutsideSubset("negative number rendered as text")
    for k in range(1, 8):
        if eng.decide(Lt(v, 10 ** k)):
            w = max(k, width)
            return CS(digits_of(v, w) if w == k else [48] * (w - k) + digits_of(v, k))
    raise OutsideSubset("number with more than 7 digits rendered as text")


# ----------------------------------------------------------------------------------------------------------------
# regular expressions
# ----------------------------------------------------------------------------------------------------------------
class PatV:
    def __init__(self, pattern: str, flags: int = 0) -> None:
        self.pattern = pattern
        self.flags = flags
        try:
            self.parsed = sre_parse.parse(pattern, flags)
        except re.error as e:
            raise OutsideSubset(f"pattern does not parse: {e}") from e
        self.groupdict = dict(self.parsed.state.groupdict)
        self.ngroups = self.parsed.state.groups - 1

    def __repr__(self) -> str:
        return f"PatV({self.pattern!r})"

    def run(self, eng: Any, mode: str, s: Any) -> Any:
        cs = as_cs(s)
        if cs is None:
            if s is None:
                _raise("TypeError", "expected string or bytes-like object")
            raise OutsideSubset(f"regex {mode} on {type(s).__name__}")
        if mode != "search" and getattr(eng, "regex_by_alternatives", True):
            # fork over the structural alternatives (each a conjunction of single-character constraints, which the
            # solver-free pruner decides exactly) instead of one opaque 'matches' formula
            try:
                alt = choose_alternative(eng, self, cs, mode, False, limit=ALT_LIMIT)
            except _TooManyAlternatives:
                alt = _UNSET
            if alt is not _UNSET:
                if alt is None:
                    return None
                mv = MatchV(self, cs, mode)
                mv.alt = alt
                return mv
        try:
            cond = {"fullmatch": regexvc.fullmatch, "match": regexvc.match, "search": regexvc.search}[mode](
                self.pattern, cs.chars, self.flags)
        except regexvc.RegexOutside as x:
            raise OutsideSubset(f"regex: {x}") from x
        if eng.decide(cond):
            return MatchV(self, cs, mode)
        return None

    def _pyvc_getattr(self, eng: Any, name: str) -> Any:
        if name in ("fullmatch", "match", "search"):
            return BoundV(_native(lambda e, recv, s, *a: recv.run(e, name, s)), self)
        if name == "pattern":
            return self.pattern
        raise OutsideSubset(f"Pattern.{name}")


Alt = Tuple[int, Any, Dict[int, Tuple[int, int]]]


class _Alts:
    """Backtracking alternatives of a pattern on a character vector, in CPython's preference order."""

    def __init__(self, chars: Sequence[Any], ignorecase: bool, full: bool = False, budget: int = 200000) -> None:
        self.m = regexvc._M(chars, ignorecase)
        self.n = len(chars)
        self.full = full          # fullmatch: alternatives that cannot end at n are cut while enumerating (width bounds)
        self.budget = budget

    def fits(self, e: int, rl: int, rh: float) -> bool:
        return (not self.full) or (rl <= self.n - e <= rh)

    def width(self, items: Sequence[Any]) -> Tuple[int, float]:
        lo: int = 0
        hi: float = 0
        for op, av in items:
            if op is sre_c.SUBPATTERN:
                a, b = self.width(list(av[3]))
            elif op is sre_c.BRANCH:
                ws = [self.width(list(x)) for x in av[1]]
                a, b = min(w[0] for w in ws), max(w[1] for w in ws)
            elif op in (sre_c.MAX_REPEAT, sre_c.MIN_REPEAT):
                a0, b0 = self.width(list(av[2]))
                a = a0 * av[0]
                b = _INF if (av[1] is sre_c.MAXREPEAT and b0 > 0) else \
                    (0 if (av[1] is sre_c.MAXREPEAT or av[1] == 0 or b0 == 0) else b0 * av[1])
            elif op is sre_c.AT:
                a, b = 0, 0
            else:
                a, b = 1, 1
            lo, hi = lo + a, hi + b
        return lo, hi

    def seq(self, items: Sequence[Any], k: int, i: int, rl: int = 0, rh: float = float("inf")) -> List[Alt]:
        """alternatives of items[k:] from position i; (rl, rh) = width bounds of whatever follows this sequence."""
        if k == len(items):
            return [(i, True, {})] if self.fits(i, rl, rh) else []
        tl, th = self.width(items[k + 1:])
        out: List[Alt] = []
        for e, c, sp in self.one(items[k], i, rl + tl, rh + th):
            for e2, c2, sp2 in self.seq(items, k + 1, e, rl, rh):
                cc = And(c, c2)
                if not is_sym(cc) and not cc:
                    continue
                self.budget -= 1
                if self.budget < 0:
                    raise _TooManyAlternatives()
                out.append((e2, cc, {**sp, **sp2}))
        return out

    @staticmethod
    def _has_group(items: Sequence[Any]) -> bool:
        for op, av in items:
            if op is sre_c.SUBPATTERN:
                if av[0] is not None or _Alts._has_group(list(av[3])):
                    return True
            elif op is sre_c.BRANCH:
                if any(_Alts._has_group(list(a)) for a in av[1]):
                    return True
            elif op in (sre_c.MAX_REPEAT, sre_c.MIN_REPEAT):
                if _Alts._has_group(list(av[2])):
                    return True
        return False

    def one(self, it: Tuple[Any, Any], i: int, rl: int, rh: float) -> List[Alt]:
        op, av = it
        if op is sre_c.SUBPATTERN:
            g, af, df, sub = av
            if af or df:
                raise OutsideSubset("inline regex flags")
            inner = self.seq(list(sub), 0, i, rl, rh)
            if g is None:
                return inner
            return [(e, c, {**sp, g: (i, e)}) for e, c, sp in inner]
        if op is sre_c.BRANCH:
            out: List[Alt] = []
            for alt in av[1]:
                out.extend(self.seq(list(alt), 0, i, rl, rh))
            return out
        if op in (sre_c.MAX_REPEAT, sre_c.MIN_REPEAT):
            lo, hi, sub = av
            sub = list(sub)
            greedy = op is sre_c.MAX_REPEAT      # a group inside a repeat keeps the span of its last iteration
            wl, wh = self.width(sub)

            def rep(k: int, j: int) -> List[Alt]:
                more: List[Alt] = []
                if (hi is sre_c.MAXREPEAT or k < hi) and k <= self.n:
                    # after one more iteration: between max(lo-k-1, 0) and hi-k-1 further iterations, then the rest
                    more_lo = max(lo - k - 1, 0) * wl + rl
                    more_hi = _INF if (hi is sre_c.MAXREPEAT or rh == _INF) else \
                        (rh if hi - k - 1 == 0 else (hi - k - 1) * wh + rh)
                    for e, c, sp in self.seq(sub, 0, j, more_lo, more_hi):
                        if e == j:
                            continue
                        for e2, c2, sp2 in rep(k + 1, e):
                            cc = And(c, c2)
                            if is_sym(cc) or cc:
                                more.append((e2, cc, {**sp, **sp2}))
                stop: List[Alt] = [(j, True, {})] if k >= lo and self.fits(j, rl, rh) else []
                return more + stop if greedy else stop + more
            return rep(0, i)
        if op is sre_c.AT:
            name = str(av)
            if name.endswith("AT_BEGINNING") or name.endswith("AT_BEGINNING_STRING"):
                return [(i, True, {})] if i == 0 and self.fits(i, rl, rh) else []
            if name.endswith("AT_END") or name.endswith("AT_END_STRING"):
                return [(i, True, {})] if i == self.n and self.fits(i, rl, rh) else []
            raise OutsideSubset(f"anchor {name}")
        try:
            ends = self.m.one(it, i)
        except regexvc.RegexOutside as x:
            raise OutsideSubset(f"regex: {x}") from x
        return [(e, c, {}) for e, c in ends.items() if self.fits(e, rl, rh)]


class _TooManyAlternatives(Exception):
    pass


_INF = float("inf")
_UNSET: Any = object()
ALT_LIMIT = 600


def choose_alternative(eng: Any, pattern: PatV, cs: CS, mode: str, must_match: bool, limit: int = 0) -> Optional[Alt]:
    """Fork over the backtracking alternatives: branch k assumes 'alternative k matches and no earlier one does'."""
    if mode == "search":
        raise OutsideSubset("groups of re.search")
    cache = eng.__dict__.setdefault("_alt_cache", {})
    key = (pattern.pattern, pattern.flags, mode, tuple(c.sx if is_sym(c) else c for c in cs.chars))
    hit = cache.get(key)
    if hit is None:
        a = _Alts(cs.chars, bool(pattern.flags & re.IGNORECASE), full=(mode == "fullmatch"))
        try:
            alts = a.seq(list(pattern.parsed), 0, 0, 0, 0 if mode == "fullmatch" else _INF)
        except _TooManyAlternatives:
            cache[key] = "too-many"
            raise
        if mode == "fullmatch":
            alts = [x for x in alts if x[0] == len(cs)]
        conds: List[Any] = []
        earlier: List[Any] = []
        for _e, c, _sp in alts:
            conds.append(And(c, Not(Or(*earlier))) if earlier else c)
            earlier.append(c)
        none = Not(Or(*earlier)) if earlier else True
        hit = cache[key] = (alts, conds, none)
    if hit == "too-many":
        raise _TooManyAlternatives()
    alts, conds, none = hit
    if limit and len(alts) > limit:
        raise _TooManyAlternatives()
    live: List[Tuple[Optional[Alt], Any]] = [(x, c) for x, c in zip(alts, conds) if is_sym(c) or c]
    if not must_match and (is_sym(none) or none):
        live.append((None, none))
    if not live:
        raise OutsideSubset("regex match without alternatives")
    for x, c in live:                      # the options are mutually exclusive: a constant-true one is the answer
        if not is_sym(c):
            return x
    if len(live) == 1:
        eng.pc.append(live[0][1])
        return live[0][0]
    k = eng.choose(len(live), [c for _x, c in live])
    return live[k][0]


class MatchV:
    def __init__(self, pat: PatV, cs: CS, mode: str) -> None:
        self.pat, self.cs, self.mode = pat, cs, mode
        self.alt: Optional[Alt] = None

    def _spans(self, eng: Any) -> Dict[int, Tuple[int, int]]:
        if self.alt is None:
            try:
                self.alt = choose_alternative(eng, self.pat, self.cs, self.mode, True)
            except _TooManyAlternatives:
                raise OutsideSubset("too many regex alternatives to enumerate the groups") from None
        assert self.alt is not None
        return self.alt[2]

    def group(self, eng: Any, key: Any = 0) -> Any:
        if isinstance(key, str):
            if key not in self.pat.groupdict:
                _raise("IndexError", "no such group")
            key = self.pat.groupdict[key]
        if not isinstance(key, int) or key < 0 or key > self.pat.ngroups:
            _raise("IndexError", "no such group")
        sp = self._spans(eng)
        if key == 0:
            assert self.alt is not None
            return CS(self.cs.chars[:self.alt[0]]) if self.mode != "fullmatch" else self.cs
        if key not in sp:
            return None
        a, b = sp[key]
        return CS(self.cs.chars[a:b])

    def _pyvc_getattr(self, eng: Any, name: str) -> Any:
        if name == "group":
            def g(e: Any, recv: "MatchV", *keys: Any) -> Any:
                if len(keys) <= 1:
                    return recv.group(e, *(keys or (0,)))
                return tuple(recv.group(e, k) for k in keys)
            return BoundV(_native(g), self)
        if name == "groups":
            return BoundV(_native(lambda e, recv, default=None: tuple(
                (lambda v: default if v is None else v)(recv.group(e, k)) for k in range(1, recv.pat.ngroups + 1))), self)
        if name == "end":
            def end(e: Any, recv: "MatchV", *a: Any) -> Any:
                if a and a[0] != 0:
                    raise OutsideSubset("Match.end(group)")
                recv._spans(e)
                assert recv.alt is not None
                return recv.alt[0]
            return BoundV(_native(end), self)
        raise OutsideSubset(f"Match.{name}")


# ----------------------------------------------------------------------------------------------------------------
# dates (externals)
# ----------------------------------------------------------------------------------------------------------------
class DateV:
    """datetime.date / datetime.datetime value with a known civil date (time of day not interpreted)."""

    def __init__(self, y: Any, m: Any, d: Any) -> None:
        self.y, self.m, self.d = y, m, d

    def _pyvc_getattr(self, eng: Any, name: str) -> Any:
        if name == "year":
            return self.y
        if name == "month":
            return self.m
        if name == "day":
            return self.d
        if name == "timetuple":
            return BoundV(_native(lambda e, recv: _TimeTuple(recv)), self)
        if name in ("isoformat", "strftime", "date", "isocalendar", "replace", "weekday", "isoweekday", "time", "tzinfo"):
            # total on a valid date (replace / strftime arguments are not interpreted): result not modelled
            return Opaque(f"date.{name}")
        raise OutsideSubset(f"date.{name}")


class _LazyDate(DateV):
    """a date given by its day number; the civil fields are computed on demand."""

    def __init__(self, z: Any) -> None:
        self.z = z
        self._civil: Any = None

    def _pyvc_getattr(self, eng: Any, name: str) -> Any:
        if name in ("year", "month", "day", "timetuple") and self._civil is None:
            self._civil = cal.civil_from_days(self.z)
            self.y, self.m, self.d = self._civil
        return DateV._pyvc_getattr(self, eng, name)


class _TimeTuple:
    def __init__(self, d: DateV) -> None:
        self.d = d

    def _pyvc_getattr(self, eng: Any, name: str) -> Any:
        if name == "tm_yday":
            return cal.day_of_year(cal.days_from_civil(self.d.y, self.d.m, self.d.d, True))
        if name == "tm_year":
            return self.d.y
        if name == "tm_mon":
            return self.d.m
        if name == "tm_mday":
            return self.d.d
        raise OutsideSubset(f"struct_time.{name}")


def _need_cs(x: Any, what: str) -> CS:
    cs = as_cs(x)
    if cs is None:
        if isinstance(x, Opaque):
            raise OutsideSubset(f"{what} of an unmodelled value")
        _raise("TypeError", f"{what}: argument must be str")
    assert cs is not None
    return cs


def x_date_fromisoformat(eng: Any, s: Any) -> Any:
    cs = _need_cs(s, "fromisoformat")
    ch, n = cs.chars, len(cs)

    def bad() -> None:
        _raise("ValueError", "Invalid isoformat string")

    def dig_at(p: int, k: int) -> List[Any]:
        if p + k > n or not eng.decide(And(*[is_dig(c) for c in ch[p:p + k]])):
            bad()
        return ch[p:p + k]
    if n not in (7, 8, 10):
        bad()
    y = num(dig_at(0, 4))
    sep = eng.decide(Eq(ch[4], 45))
    p = 5 if sep else 4
    if p < n and eng.decide(Eq(ch[p], 87)):          # 'W'
        p += 1
        w = num(dig_at(p, 2))
        p += 2
        dow: Any = 1
        if p < n:
            if sep:
                if not eng.decide(Eq(ch[p], 45)):
                    bad()
                p += 1
            dow = num(dig_at(p, 1))
        if not eng.decide(And(Ge(w, 1), Le(w, cal.iso_weeks_in_year(y)), Ge(dow, 1), Le(dow, 7))):
            bad()
        z = Add(cal.iso_week1_monday(y), Add(Mul(Sub(w, 1), 7), Sub(dow, 1)))
        # a day of ISO year y lies in civil year y-1, y or y+1: the range check can only fail for y in {0, 1, 9999}
        if eng.decide(And(Ge(y, 2), Le(y, 9998))):
            return _LazyDate(z)
        y2, m2, d2 = cal.civil_from_days(z)
        if not eng.decide(And(Ge(y2, 1), Le(y2, 9999))):
            _raise("ValueError", "year is out of range")
        return DateV(y2, m2, d2)
    m = num(dig_at(p, 2))
    p += 2
    if sep:
        if p >= n or not eng.decide(Eq(ch[p], 45)):
            bad()
        p += 1
    d = num(dig_at(p, 2))
    if not eng.decide(And(Ge(y, 1), cal.valid_date(y, m, d))):
        _raise("ValueError", "date value out of range")
    return DateV(y, m, d)


_DT_SHAPE = r"\d{4}-\d{2}-\d{2}[T ]\d{2}:\d{2}:\d{2}(\.\d{6})?([+-]\d{2}:\d{2})?"


def x_datetime_fromisoformat(eng: Any, s: Any) -> Any:
    cs = _need_cs(s, "fromisoformat")
    ch, n = cs.chars, len(cs)
    if n not in (19, 25, 26, 32) or not eng.decide(regexvc.fullmatch(_DT_SHAPE, ch)):
        raise OutsideSubset("datetime.fromisoformat on a text that is not YYYY-MM-DD[T ]HH:MM:SS[.ffffff][+-HH:MM]")
    y, m, d = num(ch[0:4]), num(ch[5:7]), num(ch[8:10])
    hh, mi, ss = num(ch[11:13]), num(ch[14:16]), num(ch[17:19])
    ok = And(Ge(y, 1), cal.valid_date(y, m, d), Le(hh, 23), Le(mi, 59), Le(ss, 59))
    if n in (25, 32):
        tz = ch[n - 6:]
        ok = And(ok, Lt(Add(Mul(num(tz[1:3]), 60), num(tz[4:6])), 24 * 60))
    if not eng.decide(ok):
        _raise("ValueError", "datetime field out of range")
    return DateV(y, m, d)


_STRPTIME_DIRECTIVES = {"Y": r"(?P<Y>\d\d\d\d)", "m": r"(?P<m>1[0-2]|0[1-9]|[1-9])",
                        "d": r"(?P<d>3[0-1]|[1-2]\d|0[1-9]|[1-9]| [1-9])"}


def x_strptime(eng: Any, s: Any, fmt: Any) -> Any:
    cs = _need_cs(s, "strptime")
    if not isinstance(fmt, str):
        raise OutsideSubset("strptime with a symbolic format")
    rx = ""
    i = 0
    while i < len(fmt):
        c = fmt[i]
        if c == "%":
            i += 1
            dct = fmt[i] if i < len(fmt) else ""
            if dct not in _STRPTIME_DIRECTIVES:
                raise OutsideSubset(f"strptime directive %{dct}")
            rx += _STRPTIME_DIRECTIVES[dct]
        elif c.isspace():
            raise OutsideSubset("whitespace in a strptime format")
        else:
            rx += re.escape(c)
        i += 1
    pat = PatV(rx, 0)
    try:
        alt = choose_alternative(eng, pat, cs, "match", False)
    except _TooManyAlternatives:
        raise OutsideSubset("too many strptime alternatives") from None
    if alt is None:
        _raise("ValueError", "time data does not match format")
    assert alt is not None
    if alt[0] != len(cs):
        _raise("ValueError", "unconverted data remains")
    val: Dict[str, Any] = {"Y": 1900, "m": 1, "d": 1}
    for name, g in pat.groupdict.items():
        a, b = alt[2][g]
        val[name] = num_blank0(cs.chars[a:b]) if name == "d" else num(cs.chars[a:b])
    if not eng.decide(And(Ge(val["Y"], 1), cal.valid_date(val["Y"], val["m"], val["d"]))):
        _raise("ValueError", "date out of range")
    return DateV(val["Y"], val["m"], val["d"])


def x_isleap(eng: Any, y: Any) -> Any:
    if isinstance(y, Opaque):
        return y
    return cal.is_leap(y)


def x_monthrange(eng: Any, y: Any, m: Any) -> Any:
    if isinstance(y, Opaque) or isinstance(m, Opaque):
        raise OutsideSubset("calendar.monthrange of an unmodelled value")
    if not eng.decide(And(Ge(m, 1), Le(m, 12))):
        _raise("ValueError", "bad month number")
    return (Opaque("weekday of the first day"), cal.days_in_month(y, m))


# ----------------------------------------------------------------------------------------------------------------
# frame and engine
# ----------------------------------------------------------------------------------------------------------------
def _find_setter(cls: ClassV, attr: str) -> Optional[Tuple[ClassV, ast.FunctionDef]]:
    for c in cls.mro():
        if c.node is None:
            continue
        for st in c.node.body:
            if isinstance(st, ast.FunctionDef) and st.name == attr:
                for d in st.decorator_list:
                    if isinstance(d, ast.Attribute) and d.attr == "setter" and isinstance(d.value, ast.Name) and d.value.id == attr:
                        return c, st
    return None


class CFrame(Frame):
    # -- statements -------------------------------------------------------------------------------------------------
    def assign(self, target: ast.expr, v: Any) -> None:
        if isinstance(target, ast.Attribute):
            obj = self.eval(target.value)
            if isinstance(obj, ObjV):
                if isinstance(obj.cls, ClassV):
                    hit = _find_setter(obj.cls, target.attr)
                    if hit is not None:
                        c, st = hit
                        self.eng.call(FuncV(c.rel, f"{c.name}.{target.attr}.setter", st, c, "method"), [obj, v], {})
                        return
                obj.attrs[target.attr] = v
                return
        super().assign(target, v)

    # -- values -----------------------------------------------------------------------------------------------------
    def truth(self, v: Any) -> Any:
        if isinstance(v, CS):
            return len(v) > 0
        if isinstance(v, (MatchV, PatV, DateV)):
            return True
        return super().truth(v)

    def to_str(self, x: Any, spec: Any = None) -> Any:
        if isinstance(x, CS) and spec is None:
            return x
        return super().to_str(x, spec)

    def equals(self, a: Any, b: Any) -> Any:
        if isinstance(a, CS) or isinstance(b, CS):
            if isinstance(a, Opaque) or isinstance(b, Opaque):
                return Opaque("equality of unmodelled value")
            x, y = as_cs(a), as_cs(b)
            if x is None or y is None:
                return False          # a str never equals a non-str
            return x.eq(y)
        return super().equals(a, b)

    def compare(self, op: ast.cmpop, a: Any, b: Any) -> Any:
        if isinstance(op, (ast.Lt, ast.LtE, ast.Gt, ast.GtE)) and (isinstance(a, CS) or isinstance(b, CS)):
            x, y = as_cs(a), as_cs(b)
            if x is None or y is None:
                if isinstance(a, Opaque) or isinstance(b, Opaque):
                    return Opaque("comparison of unmodelled value")
                _raise("TypeError", "ordering of str and non-str")
            assert x is not None and y is not None
            if isinstance(op, ast.Lt):
                return x.lt(y)
            if isinstance(op, ast.LtE):
                return x.lt(y, True)
            if isinstance(op, ast.Gt):
                return y.lt(x)
            return y.lt(x, True)
        return super().compare(op, a, b)

    def contains(self, container: Any, item: Any) -> Any:
        if isinstance(container, range):
            if isinstance(item, Opaque):
                return Opaque("membership on unmodelled value")
            if container.step != 1:
                raise OutsideSubset("range with a step")
            if isinstance(item, (CS, str)) or item is None:
                return False
            return And(Ge(item, container.start), Lt(item, container.stop))
        if isinstance(container, (CS, str)) and isinstance(item, (CS, str)) and (isinstance(container, CS) or isinstance(item, CS)):
            c, i = as_cs(container), as_cs(item)
            assert c is not None and i is not None
            k = len(i)
            return Or(*[CS(c.chars[p:p + k]).eq(i) for p in range(0, len(c) - k + 1)]) if k <= len(c) else False
        if isinstance(container, ObjV) and isinstance(container.cls, ClassV):
            ok, f = self.eng.class_attr(container.cls, "__contains__")
            if ok and isinstance(f, FuncV):
                return self.truth(self.eng.call(f, [container, item], {}))
        return super().contains(container, item)

    def subscript(self, obj: Any, sl: ast.expr) -> Any:
        if isinstance(obj, CS) and isinstance(sl, ast.Slice):
            lo = self.eval(sl.lower) if sl.lower is not None else None
            hi = self.eval(sl.upper) if sl.upper is not None else None
            if sl.step is not None or any(x is not None and (isinstance(x, bool) or not isinstance(x, int)) for x in (lo, hi)):
                raise OutsideSubset("string slice with a step or symbolic bounds")
            return CS(obj.chars[lo:hi])
        if isinstance(obj, dict) and not isinstance(sl, ast.Slice):
            key = self.eval(sl)
            if isinstance(key, CS):
                keys = list(obj.keys())
                conds = [self.equals(key, k) for k in keys]
                live = [(k, c) for k, c in zip(keys, conds) if is_sym(c) or c]
                none = Not(Or(*[c for _k, c in live])) if live else True
                opts = [c for _k, c in live] + [none]
                i = self.eng.choose(len(opts), opts) if any(is_sym(c) for c in opts) else next(j for j, c in enumerate(opts) if c)
                if i == len(live):
                    raise RaiseSignal(ObjV(builtin_class("KeyError"), {}, (key,)))
                return obj[live[i][0]]
            return self._subscript_with_key(obj, key)
        return super().subscript(obj, sl)

    def _subscript_with_key(self, obj: Any, key: Any) -> Any:
        # re-enter the base implementation with the already evaluated key
        node = ast.Name(id="__pycstr_key__", ctx=ast.Load())
        saved = self.locals.get("__pycstr_key__", _MISSING)
        self.locals["__pycstr_key__"] = key
        try:
            return super().subscript(obj, node)
        finally:
            if saved is _MISSING:
                self.locals.pop("__pycstr_key__", None)
            else:
                self.locals["__pycstr_key__"] = saved

    def eval(self, e: ast.expr) -> Any:
        if isinstance(e, ast.JoinedStr):
            parts: List[Any] = []
            opaque = False
            for v in e.values:
                if isinstance(v, ast.Constant):
                    parts.append(CS.lit(str(v.value)))
                    continue
                assert isinstance(v, ast.FormattedValue)
                x = self.eval(v.value)
                if isinstance(x, Opaque) or v.conversion not in (-1, 115):
                    opaque = True        # repr()/ascii() conversions and unmodelled values: text not modelled
                    continue
                spec = self.eval(v.format_spec) if v.format_spec is not None else None
                if isinstance(spec, CS):
                    spec = spec.concrete()
                if isinstance(x, CS):
                    if spec:
                        raise OutsideSubset("format spec on a string")
                    parts.append(x)
                elif isinstance(x, str):
                    parts.append(CS.lit(format(x, spec or "")))
                elif isinstance(x, bool) or x is None:
                    parts.append(CS.lit(format(x, spec or "")))
                elif isinstance(x, int) or (is_sym(x) and x.sort == smt.INT):
                    m = re.fullmatch(r"0?(\d*)d?", spec or "")
                    if m is None or (spec and not spec.startswith("0") and m.group(1)):
                        raise OutsideSubset(f"format spec {spec!r}")
                    parts.append(int_to_cs(self.eng, x, int(m.group(1) or 0)))
                else:
                    s = self.to_str(x, None)
                    if isinstance(s, (CS, str)):
                        parts.append(as_cs(s))
                    else:
                        opaque = True
            if opaque:
                return Opaque("f-string with an unmodelled part")
            out: List[Any] = []
            for p in parts:
                out.extend(p.chars)
            return CS(out)
        return super().eval(e)

    def eval_call(self, e: ast.Call) -> Any:
        if not (isinstance(e.func, ast.Name) and e.func.id == "super"):
            f = None
            if isinstance(e.func, ast.Name) and e.func.id in self.locals:
                f = self.locals[e.func.id]
            if isinstance(f, FuncV) and hasattr(f, "closure"):
                args = [self.eval(a) for a in e.args]
                kwargs = {k.arg: self.eval(k.value) for k in e.keywords if k.arg is not None}
                return call_closure(self.eng, f, args, kwargs)
        return super().eval_call(e)


_MISSING = object()


def call_closure(eng: Any, f: FuncV, args: List[Any], kwargs: Dict[str, Any]) -> Any:
    fr = CFrame(eng, f.rel, dict(getattr(f, "closure", {})), f)
    fr.bind_params(f.node, args, kwargs)
    try:
        fr.exec_block(f.node.body)
    except ReturnSignal as r:
        return r.value
    return None


class CEngine(Engine):
    """pyvc.Engine over character-vector strings.  `pruner` (vc.charprune.CharPruner) and `assume` (preconditions) make
    the feasibility test of a branch solver-free in most cases."""

    def __init__(self, *a: Any, **k: Any) -> None:
        k.setdefault("prune", True)
        super().__init__(*a, **k)
        self.pruner: Any = None
        self.assume: List[Any] = []
        self.solver_prune = True
        X = self.externals
        base_int, base_len, base_str, base_isinstance, base_bool = X["int"], X["len"], X["str"], X["isinstance"], X["bool"]

        def py_int(e: Any, v: Any = 0, *rest: Any) -> Any:
            if isinstance(v, CS):
                if rest:
                    raise OutsideSubset("int() with base")
                ch = v.chars
                if not ch:
                    _raise("ValueError", "invalid literal for int()")
                if e.decide(And(*[is_dig(c) for c in ch])):
                    return num(ch)
                ok = regexvc.fullmatch(r"[ \t-\r\x1c-\x1f]*[+-]?\d+(_\d+)*[ \t-\r\x1c-\x1f]*", ch)
                if e.decide(ok):
                    raise OutsideSubset("int() of a signed / underscored / blank-padded numeral")
                _raise("ValueError", "invalid literal for int()")
            return base_int(e, v, *rest)

        def py_len(e: Any, v: Any) -> Any:
            if isinstance(v, CS):
                return len(v)
            return base_len(e, v)

        def py_str(e: Any, v: Any = "") -> Any:
            if isinstance(v, CS):
                return v
            if isinstance(v, ObjV) and isinstance(v.cls, ClassV):
                ok, f = e.class_attr(v.cls, "__str__")
                if ok and isinstance(f, FuncV) and getattr(e, "run_dunder_str", False):
                    return e.call(f, [v], {})
            return base_str(e, v)

        def py_bool(e: Any, v: Any = False) -> Any:
            return CFrame(e, "", {}, None).truth(v)

        def py_isinstance(e: Any, v: Any, cls: Any) -> Any:
            if isinstance(v, (CS, MatchV, PatV, DateV)):
                classes = cls if isinstance(cls, tuple) else (cls,)
                return isinstance(v, CS) and any(getattr(c, "name", None) == "str" for c in classes)
            return base_isinstance(e, v, cls)

        X.update({"int": py_int, "len": py_len, "str": py_str, "isinstance": py_isinstance, "bool": py_bool})
        X["re.compile"] = lambda e, p, flags=0: PatV(_pat_text(p), _flags(flags))
        for mode in ("fullmatch", "match", "search"):
            X[f"re.{mode}"] = (lambda md: lambda e, p, s, flags=0: (p if isinstance(p, PatV) else PatV(_pat_text(p), _flags(flags))
                                                                     ).run(e, md, s))(mode)
        for nm in ("datetime.date.fromisoformat",):
            X[nm] = x_date_fromisoformat
        X["datetime.datetime.fromisoformat"] = x_datetime_fromisoformat
        X["datetime.datetime.strptime"] = x_strptime
        X["calendar.isleap"] = x_isleap
        X["calendar.monthrange"] = x_monthrange
        self.harmless_externals = {"functools.lru_cache", "typing.Any"}

    # -- frames -----------------------------------------------------------------------------------------------------
    def call(self, f: Any, args: List[Any], kwargs: Dict[str, Any]) -> Any:
        if isinstance(f, BoundV):
            return self.call(f.func, [f.self_value] + args, kwargs)
        if isinstance(f, ExternalV) and f.name not in self.externals:
            raise OutsideSubset(f"call of unmodelled external {f.name}")
        if isinstance(f, FuncV) and (f.rel, f.qualname) not in self.contracts:
            if hasattr(f, "closure"):
                return call_closure(self, f, args, kwargs)
            if self.depth >= self.max_depth:
                raise OutsideSubset(f"inlining depth exceeded at {f.qualname}")
            self.inlined.add(f"{f.rel}:{f.qualname}")
            self.depth += 1
            try:
                frame = CFrame(self, f.rel, {}, f)
                frame.bind_params(f.node, args, kwargs)
                try:
                    frame.exec_block(f.node.body)
                except ReturnSignal as r:
                    return r.value
                return None
            finally:
                self.depth -= 1
        return super().call(f, args, kwargs)

    # -- pruning ----------------------------------------------------------------------------------------------------
    def _feasible(self, cond: Any) -> bool:
        if not is_sym(cond):
            return bool(cond)
        if self.pruner is not None:
            r = self.pruner.feasible(list(self.assume) + list(self.pc), cond)
            if r is not None:
                return r
        if not self.solver_prune:
            return True
        text = smt.query(self.decls, list(self.axioms) + list(self.assume) + list(self.pc) + [cond])
        hit = self._prune_cache.get(text)
        if hit is None:
            from .core import run_smt
            r2 = run_smt(text, timeout=3, tag="pyprune", backends=("z3",))
            hit = r2.status != "unsat"
            self._prune_cache[text] = hit
        return hit


def _pat_text(p: Any) -> str:
    if isinstance(p, CS):
        c = p.concrete()
        if c is not None:
            return c
    if not isinstance(p, str):
        raise OutsideSubset("regex pattern that is not a concrete string")
    return p


def _flags(f: Any) -> int:
    if isinstance(f, int) and not isinstance(f, bool):
        return f
    raise OutsideSubset("regex flags that are not a concrete int")
