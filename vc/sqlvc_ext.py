"""Additive extension of E2 (`vc.sqlvc`) for the SQL emitted by `ViralPropagation/sql.py` (property C28).

`VpEngine` subclasses `SqlEngine` (nothing of vc.sqlvc is changed) and adds, for scalar DuckDB SQL:

  * fork-free evaluation of CASE (nested ite terms instead of one path per WHEN), so that one SMT query decides one
    obligation whatever the number of clauses;
  * LEAST / GREATEST (NULL-skipping, NULL only when every argument is NULL); fork-free COALESCE; `IS [NOT] DISTINCT FROM`;
  * exact real arithmetic (`num` values: python Fractions when concrete, SMT Real terms when symbolic) for `+ - * /`;
  * opaque string values (`atom`): a string is an integer code; DIFFERENT strings have different codes and the only
    operations defined on atoms are `=`, `<>`, `IN`, `IS NULL`.  Any other operator on an atom leaves the model
    (SqlOutside -> the obligation is undecided).  String literals of the SQL text are atoms too: a literal listed in
    `VpEngine.lits` is interpreted as the SV given there (a symbolic code: "some string constant"), every other literal
    gets a concrete code of its own;
  * aggregates over ONE group of fixed length bound in `VpEngine.group` (column key -> list of SV): COUNT(*), COUNT(c),
    MIN, MAX, SUM, AVG (all NULL-skipping, NULL on a group without non-NULL value), `list(c)`; `AGG(c) OVER ()` is the
    aggregate over the whole bound group (a window with PARTITION BY / ORDER BY / frame leaves the model);
  * `list_reduce(list(c), (acc, x) -> body)` unrolled over the bound group: acc := first element, then body for every
    further element in list order (a one-element list yields the element itself).

Every primitive above is compared with the real DuckDB on the concrete grid of checks/C28.py on each run (the model
folds constants, so the same evaluator runs on concrete values); a mismatch is an engine fault, never a verdict.
"""
from __future__ import annotations

import re
from fractions import Fraction
from typing import Any, Dict, List, Optional, Sequence

import sqlglot
from sqlglot import exp

from . import smt
from .smt import BOOL, INT, REAL, T, And, Iff, Not, Or, is_sym
from .sqlvc import NULL, SV, SqlEngine, SqlOutside, sv_int


# ----------------------------------------------------------------------------------------------
# exact reals (Fractions when concrete, SMT Real terms otherwise)
# ----------------------------------------------------------------------------------------------
def rlit(x: Any) -> str:
    f = Fraction(x)
    n, d = f.numerator, f.denominator
    s = f"{abs(n)}.0" if d == 1 else f"(/ {abs(n)}.0 {d}.0)"
    return s if n >= 0 else f"(- {s})"


def rterm(x: Any) -> T:
    if is_sym(x):
        if x.sort == INT:
            return T(REAL, f"(to_real {x.sx})")
        return x
    return T(REAL, rlit(x))


def _rbin(op: str, py: Any, a: Any, b: Any) -> Any:
    if not is_sym(a) and not is_sym(b):
        return py(Fraction(a), Fraction(b))
    return T(REAL, f"({op} {rterm(a).sx} {rterm(b).sx})")


def RAdd(a: Any, b: Any) -> Any:
    return _rbin("+", lambda x, y: x + y, a, b)


def RSub(a: Any, b: Any) -> Any:
    return _rbin("-", lambda x, y: x - y, a, b)


def RMul(a: Any, b: Any) -> Any:
    return _rbin("*", lambda x, y: x * y, a, b)


def RDiv(a: Any, b: Any) -> Any:
    if is_sym(b) or Fraction(b) == 0:
        raise SqlOutside("division by a symbolic or zero divisor")
    return _rbin("/", lambda x, y: x / y, a, b)


def _rcmp(op: str, py: Any, a: Any, b: Any) -> Any:
    if not is_sym(a) and not is_sym(b):
        return py(Fraction(a), Fraction(b))
    return T(BOOL, f"({op} {rterm(a).sx} {rterm(b).sx})")


def REq(a: Any, b: Any) -> Any:
    return _rcmp("=", lambda x, y: x == y, a, b)


def RLt(a: Any, b: Any) -> Any:
    return _rcmp("<", lambda x, y: x < y, a, b)


def RLe(a: Any, b: Any) -> Any:
    return _rcmp("<=", lambda x, y: x <= y, a, b)


def RIte(c: Any, a: Any, b: Any) -> Any:
    if not is_sym(c):
        return a if c else b
    if not is_sym(a) and not is_sym(b) and Fraction(a) == Fraction(b):
        return a
    return T(REAL, f"(ite {c.sx} {rterm(a).sx} {rterm(b).sx})")


# ----------------------------------------------------------------------------------------------
# nullable values: merge / equality
# ----------------------------------------------------------------------------------------------
_DUMMY = {"atom": 0, "int": 0, "num": Fraction(0), "bool": False}


def _unify(x: SV, y: SV) -> Any:
    if x.sort == "null" and y.sort == "null":
        return x, y, "null"
    if x.sort == "null":
        x = SV(y.sort, _DUMMY.get(y.sort), True)
    if y.sort == "null":
        y = SV(x.sort, _DUMMY.get(x.sort), True)
    if x.sort != y.sort:
        if {x.sort, y.sort} == {"int", "num"}:
            return SV("num", x.v, x.null), SV("num", y.v, y.null), "num"
        raise SqlOutside(f"values of sorts {x.sort} / {y.sort} merged")
    if x.sort not in _DUMMY:
        raise SqlOutside(f"merge of {x.sort} values")
    return x, y, x.sort


def val_eq(sort: str, a: Any, b: Any) -> Any:
    if sort == "num":
        return REq(a, b)
    if sort == "bool":
        return Iff(a, b)
    return smt.Eq(a, b)


def val_ite(sort: str, c: Any, a: Any, b: Any) -> Any:
    if sort == "num":
        return RIte(c, a, b)
    return smt.Ite(c, a, b)


def ite_sv(c: Any, x: SV, y: SV) -> SV:
    if not is_sym(c):
        return x if c else y
    x, y, s = _unify(x, y)
    if s == "null":
        return NULL
    return SV(s, val_ite(s, c, x.v, y.v), smt.Ite(c, x.null, y.null))


def sv_same(x: SV, y: SV) -> Any:
    """Both NULL, or both not NULL and equal (SQL `IS NOT DISTINCT FROM`)."""
    x, y, s = _unify(x, y)
    if s == "null":
        return True
    return And(Iff(x.null, y.null), Or(x.null, val_eq(s, x.v, y.v)))


def share_sv(v: SV) -> SV:
    if v.sort == "null":
        return v
    return SV(v.sort, smt.share(v.v) if is_sym(v.v) else v.v, smt.share(v.null) if is_sym(v.null) else v.null)


# ----------------------------------------------------------------------------------------------
# NULL-skipping aggregates over a list of nullable values (used by the engine model; the specification of C28 is
# written separately in the check)
# ----------------------------------------------------------------------------------------------
def _as_num(x: SV) -> SV:
    if x.sort in ("num", "null"):
        return x
    if x.sort == "int":
        return SV("num", x.v, x.null)
    raise SqlOutside(f"numeric aggregate over {x.sort}")


def agg_extreme(xs: Sequence[SV], least: bool) -> SV:
    acc: SV = NULL
    for x in xs:
        if x.sort == "null":
            continue
        if x.sort == "atom":
            raise SqlOutside("ordering of opaque strings (atoms)")
        if acc.sort == "null":
            acc = x
            continue
        a, b, s = _unify(acc, x)
        if s == "num":
            pick_b = RLt(b.v, a.v) if least else RLt(a.v, b.v)
        elif s == "int":
            pick_b = smt.Lt(b.v, a.v) if least else smt.Lt(a.v, b.v)
        else:
            raise SqlOutside(f"LEAST/GREATEST/MIN/MAX over {s}")
        take_b = And(Not(b.null), Or(a.null, pick_b))
        acc = SV(s, val_ite(s, take_b, b.v, a.v), And(a.null, b.null))
    return acc


def agg_sum(xs: Sequence[SV]) -> SV:
    tot: Any = Fraction(0)
    allnull: Any = True
    sort = "int" if all(x.sort in ("int", "null") for x in xs) else "num"
    for x in xs:
        if x.sort == "null":
            continue
        if sort == "num":
            x = _as_num(x)
            tot = RAdd(tot, RIte(x.null, Fraction(0), x.v))
        else:
            tot = smt.Add(tot if not isinstance(tot, Fraction) else int(tot), smt.Ite(x.null, 0, x.v))
        allnull = And(allnull, x.null)
    if allnull is True:
        return NULL
    return SV(sort, tot, allnull)


def agg_count(xs: Sequence[SV]) -> SV:
    n: Any = 0
    for x in xs:
        if x.sort == "null":
            continue
        n = smt.Add(n, smt.Ite(x.null, 0, 1))
    return sv_int(n)


def agg_avg(xs: Sequence[SV]) -> SV:
    s = agg_sum([_as_num(x) for x in xs])
    if s.sort == "null":
        return NULL
    c = agg_count(xs).v
    if not is_sym(c):
        return SV("num", RDiv(s.v, c), s.null) if c else NULL
    out: Any = s.v                      # count = 1
    for k in range(len(xs), 1, -1):
        out = RIte(smt.Eq(c, k), RDiv(s.v, k), out)
    return SV("num", out, s.null)


# ----------------------------------------------------------------------------------------------
# the evaluator
# ----------------------------------------------------------------------------------------------
class VpEngine(SqlEngine):
    def __init__(self, decls: Optional[smt.Decls] = None) -> None:
        super().__init__(decls, macros={})
        self.lits: Dict[str, SV] = {}
        self._codes: Dict[str, int] = {}
        self.group: Optional[Dict[str, List[SV]]] = None
        self.constructs: set = set()
        self._parsed: Dict[str, exp.Expression] = {}      # SQL text -> sqlglot tree (texts are re-evaluated under many envs)

    # -- atoms ------------------------------------------------------------------------------------------
    def code(self, text: str) -> int:
        """Concrete code of a string literal that is not a placeholder (distinct texts -> distinct codes)."""
        if text not in self._codes:
            self._codes[text] = 1000 + len(self._codes)
        return self._codes[text]

    def text_of(self, code: int) -> Optional[str]:
        for t, c in self._codes.items():
            if c == code:
                return t
        return None

    # -- leaves -----------------------------------------------------------------------------------------
    def ev_Literal(self, e: exp.Literal, env: Dict[str, SV]) -> SV:
        if e.is_string:
            if e.this in self.lits:
                return self.lits[e.this]
            return SV("atom", self.code(e.this), False)
        txt = e.this
        if re.fullmatch(r"-?\d+", txt):
            return sv_int(int(txt))
        if re.fullmatch(r"-?\d+\.\d+", txt):
            return SV("num", Fraction(txt), False)
        raise SqlOutside(f"numeric literal {txt}")

    @staticmethod
    def col_key(e: exp.Column) -> str:
        return (f"{e.table}." if e.table else "").lower() + e.name.lower()

    def ev_Column(self, e: exp.Column, env: Dict[str, SV]) -> SV:
        k = self.col_key(e)
        if k in env:
            return env[k]
        raise SqlOutside(f"unbound column {e.sql()}")

    def ev_Identifier(self, e: exp.Identifier, env: Dict[str, SV]) -> SV:
        k = e.name.lower()
        if k in env:
            return env[k]
        raise SqlOutside(f"unbound identifier {e.name}")

    # -- fork-free CASE -----------------------------------------------------------------------------------
    def ev_Case(self, e: exp.Case, env: Dict[str, SV]) -> SV:
        if e.this is not None:
            raise SqlOutside("CASE <subject> WHEN")
        self.constructs.add("CASE")
        res: SV = self.eval(e.args["default"], env) if e.args.get("default") is not None else NULL
        for br in reversed(e.args.get("ifs", [])):
            c = self.truth(self.as_bool(self.eval(br.this, env)))
            res = ite_sv(c, self.eval(br.args["true"], env), res)
        return share_sv(res)

    def ev_If(self, e: exp.If, env: Dict[str, SV]) -> SV:
        c = self.truth(self.as_bool(self.eval(e.this, env)))
        other = self.eval(e.args["false"], env) if e.args.get("false") is not None else NULL
        return share_sv(ite_sv(c, self.eval(e.args["true"], env), other))

    def ev_Coalesce(self, e: exp.Coalesce, env: Dict[str, SV]) -> SV:
        """Fork-free COALESCE: the first non-NULL argument (NULL when all are)."""
        self.constructs.add("COALESCE")
        res: SV = NULL
        for x in reversed([e.this] + list(e.expressions)):
            v = self.eval(x, env)
            if v.sort == "null":
                continue
            res = ite_sv(Not(v.null), SV(v.sort, v.v, False), res) if is_sym(v.null) else (res if v.null else v)
        return share_sv(res)

    def ev_NullSafeEQ(self, e: exp.NullSafeEQ, env: Dict[str, SV]) -> SV:
        """a IS NOT DISTINCT FROM b: never NULL."""
        self.constructs.add("IS NOT DISTINCT FROM")
        a, b = self.eval(e.this, env), self.eval(e.expression, env)
        if "atom" in (a.sort, b.sort) and a.sort != b.sort and "null" not in (a.sort, b.sort):
            raise SqlOutside(f"IS NOT DISTINCT FROM between {a.sort} and {b.sort}")
        return SV("bool", sv_same(a, b), False)

    def ev_NullSafeNEQ(self, e: exp.NullSafeNEQ, env: Dict[str, SV]) -> SV:
        v = self.ev_NullSafeEQ(e, env)     # type: ignore[arg-type]
        return SV("bool", Not(v.v), False)

    # -- comparison / arithmetic -----------------------------------------------------------------------------
    def compare(self, a: SV, b: SV, op: str) -> SV:
        if a.sort == "null" or b.sort == "null":
            return SV("bool", False, True)
        null = Or(a.null, b.null)
        if a.sort == "atom" or b.sort == "atom":
            if a.sort != b.sort or op not in ("=", "<>"):
                raise SqlOutside(f"operator {op} on opaque strings ({a.sort}, {b.sort})")
            v = smt.Eq(a.v, b.v)
            return SV("bool", v if op == "=" else Not(v), null)
        if "num" in (a.sort, b.sort) and {a.sort, b.sort} <= {"num", "int"}:
            f = {"=": REq, "<>": lambda x, y: Not(REq(x, y)), "<": RLt, "<=": RLe, ">": lambda x, y: RLt(y, x),
                 ">=": lambda x, y: RLe(y, x)}[op]
            return SV("bool", f(a.v, b.v), null)
        return super().compare(a, b, op)

    def arith(self, e: Any, env: Dict[str, SV], op: str) -> SV:
        a, b = self.eval(e.this, env), self.eval(e.expression, env)
        if "atom" in (a.sort, b.sort):
            raise SqlOutside(f"arithmetic {op} on an opaque string")
        if "num" in (a.sort, b.sort) or (op == "/" and {a.sort, b.sort} <= {"int", "null"}):
            self.constructs.add(f"real {op}")
            if a.sort == "null" or b.sort == "null":
                return SV("num", Fraction(0), True)
            if not {a.sort, b.sort} <= {"num", "int"}:
                raise SqlOutside(f"arithmetic {a.sort} {op} {b.sort}")
            f = {"+": RAdd, "-": RSub, "*": RMul, "/": RDiv}.get(op)
            if f is None:
                raise SqlOutside(f"real operator {op}")
            return SV("num", f(a.v, b.v), Or(a.null, b.null))
        return super().arith(e, env, op)

    def _nary(self, e: Any, env: Dict[str, SV], least: bool) -> SV:
        self.constructs.add("LEAST" if least else "GREATEST")
        return share_sv(agg_extreme([self.eval(x, env) for x in [e.this] + list(e.expressions)], least))

    def ev_Least(self, e: exp.Least, env: Dict[str, SV]) -> SV:
        return self._nary(e, env, True)

    def ev_Greatest(self, e: exp.Greatest, env: Dict[str, SV]) -> SV:
        return self._nary(e, env, False)

    # -- one bound group ------------------------------------------------------------------------------------
    def _group_col(self, e: Any) -> List[SV]:
        if self.group is None:
            raise SqlOutside("aggregate without a bound group")
        if isinstance(e, exp.Star):
            return list(next(iter(self.group.values())))
        if not isinstance(e, exp.Column):
            raise SqlOutside(f"aggregate over an expression: {e.sql()[:40]}")
        k = self.col_key(e)
        if k not in self.group:
            raise SqlOutside(f"aggregate over unbound column {k}")
        return list(self.group[k])

    def ev_Min(self, e: exp.Min, env: Dict[str, SV]) -> SV:
        self.constructs.add("MIN")
        return share_sv(agg_extreme(self._group_col(e.this), True))

    def ev_Max(self, e: exp.Max, env: Dict[str, SV]) -> SV:
        self.constructs.add("MAX")
        return share_sv(agg_extreme(self._group_col(e.this), False))

    def ev_Sum(self, e: exp.Sum, env: Dict[str, SV]) -> SV:
        self.constructs.add("SUM")
        return share_sv(agg_sum(self._group_col(e.this)))

    def ev_Avg(self, e: exp.Avg, env: Dict[str, SV]) -> SV:
        self.constructs.add("AVG")
        return share_sv(agg_avg(self._group_col(e.this)))

    def ev_Count(self, e: exp.Count, env: Dict[str, SV]) -> SV:
        self.constructs.add("COUNT")
        xs = self._group_col(e.this)
        if isinstance(e.this, exp.Star):
            return sv_int(len(xs))
        return agg_count(xs)

    def ev_Window(self, e: exp.Window, env: Dict[str, SV]) -> SV:
        if e.args.get("partition_by") or e.args.get("order") or e.args.get("spec"):
            raise SqlOutside("window with PARTITION BY / ORDER BY / frame (not a whole-operand aggregate)")
        self.constructs.add("OVER ()")
        return self.eval(e.this, env)

    def ev_Anonymous(self, e: exp.Anonymous, env: Dict[str, SV]) -> SV:
        if e.name.lower() != "list_reduce":
            return super().ev_Anonymous(e, env)
        self.constructs.add("list_reduce")
        lst, lam = e.expressions
        if not (isinstance(lst, exp.ArrayAgg) and isinstance(lam, exp.Lambda) and len(lam.expressions) == 2):
            raise SqlOutside(f"list_reduce shape: {e.sql()[:80]}")
        xs = self._group_col(lst.this)
        if not xs:
            raise SqlOutside("list_reduce over an empty list")
        acc_n, x_n = (i.name.lower() for i in lam.expressions)
        acc = xs[0]
        for x in xs[1:]:
            env2 = dict(env)
            env2[acc_n], env2[x_n] = acc, x
            acc = share_sv(self.eval(lam.this, env2))
        return acc

    # -- driver -----------------------------------------------------------------------------------------------
    def value_of(self, sql: str, env: Dict[str, SV], group: Optional[Dict[str, List[SV]]] = None) -> SV:
        """Fork-free evaluation of one expression (a residual fork = a construct evaluated by the base class that
        splits paths: refused, so that one term always stands for the whole expression)."""
        self.group = {k.lower(): v for k, v in group.items()} if group is not None else None
        tree = self._parsed.get(sql)
        if tree is None:
            tree = self._parsed[sql] = sqlglot.parse_one(sql, read="duckdb")
        env = {k.lower(): v for k, v in env.items()}
        try:
            paths = self.explore(lambda: self.eval(tree, env))
        finally:
            self.group = None
        if len(paths) != 1:
            raise SqlOutside(f"{len(paths)} paths: the expression forks outside the fork-free subset")
        p = paths[0]
        if p.kind != "value":
            raise SqlOutside(f"{p.kind}: {p.value}")
        return p.value
