"""E3b `pyshared`: read / write frames over PROCESS-SHARED state, and which accesses happen under a lock.

Whole-tree static analysis of the real source (re-read on every run).  Shared locations are
  * module globals         <rel>:<NAME>              (rebinding through `global`, `mod.NAME = ..`, in-place mutation)
  * class attributes       <rel>:<Class>.<attr>      (`Class.attr = ..`, `cls.attr = ..`, `cls.attr[k] = ..`; keyed by the
                                                      topmost class of the hierarchy that declares the attribute, so a
                                                      write through a subclass may-aliases the reads of the base)
  * function memo tables   <rel>:<func>[lru_cache]
  * os.environ                                        (writes only through os.environ[..] / setdefault / update / putenv)
  * the C++ parser's parse tree  cpp:g_state          (vtl_cpp_parser.parse writes, every ParseNode traversal reads)
For every function the analysis records its syntactic accesses and its call sites; calls are resolved conservatively:
  f(..)                 module function / imported symbol / class (=> __new__, __init__, __post_init__, metaclass __call__)
  mod.f(..), Cls.m(..)  the named function / the method in the class hierarchy
  self.m / cls.m / super().m   every method of that name in the MRO and in all subclasses
  x.m(..) (unknown x)   every method named m of every class in the tree (class-hierarchy analysis by name)
  getattr(self, <non-constant>)  every method of the hierarchy whose name starts with the constant prefix (all if none)
  a bare reference to a function / class (callback, dispatch table) counts as a call
  dunder methods other than the constructor family are roots of every entry point (operators call them implicitly)
Calls and accesses lexically inside `with <lock>:` are *locked*; an access is effectively locked when it is lexically
locked or its function is reachable from the entry point only through locked call sites.
NOT followed (listed by `Program.caveats`): getattr on a non-self object with a non-constant name, objects that reach a
function only through parameters (an alias of a global passed as an argument is tracked in the callee only by the
by-name rules above), C extensions, threads started by the engine itself.
"""
from __future__ import annotations

import ast
from dataclasses import dataclass, field
from typing import Any, Dict, Iterable, List, Optional, Sequence, Set, Tuple

from .core import SRC
from .pysrc import all_modules, module_ast

MUTATORS = {"append", "extend", "insert", "remove", "pop", "clear", "sort", "reverse", "update", "setdefault",
            "popitem", "add", "discard", "difference_update", "intersection_update", "symmetric_difference_update",
            "__setitem__", "__delitem__", "appendleft", "popleft"}
CTOR_FAMILY = {"__init__", "__new__", "__post_init__", "__init_subclass__", "__class_getitem__", "__set_name__"}
CPP = "cpp:g_state"
ENV = "os.environ"

Loc = str


@dataclass
class ClassInfo:
    rel: str
    name: str
    node: ast.ClassDef
    base_exprs: List[ast.expr]
    bases: List["ClassInfo"] = field(default_factory=list)
    subclasses: List["ClassInfo"] = field(default_factory=list)
    methods: Dict[str, "FnInfo"] = field(default_factory=dict)
    data_attrs: Dict[str, ast.AST] = field(default_factory=dict)
    metaclass: Optional["ClassInfo"] = None

    def mro(self) -> List["ClassInfo"]:
        out: List[ClassInfo] = [self]
        for b in self.bases:
            for c in b.mro():
                if c not in out:
                    out.append(c)
        return out

    def descendants(self) -> List["ClassInfo"]:
        out: List[ClassInfo] = []
        todo = list(self.subclasses)
        while todo:
            c = todo.pop()
            if c not in out:
                out.append(c)
                todo.extend(c.subclasses)
        return out

    def hierarchy(self) -> List["ClassInfo"]:
        out = self.mro()
        for c in self.descendants():
            if c not in out:
                out.append(c)
        return out


@dataclass
class FnInfo:
    rel: str
    qualname: str
    node: ast.AST
    cls: Optional[ClassInfo]
    kind: str = "function"            # function | method | classmethod | staticmethod | property
    cached: bool = False

    @property
    def key(self) -> Tuple[str, str]:
        return (self.rel, self.qualname)

    def __repr__(self) -> str:
        return f"{self.rel}:{self.qualname}"


@dataclass
class Access:
    loc: Loc
    kind: str            # 'R' | 'W'
    fn: Tuple[str, str]
    line: int
    locked: Any          # frozenset of the locks lexically held at the access (empty: none)
    how: str
    content: bool = False   # in-place mutation of the object the location holds (not a rebinding)

    def site(self) -> str:
        return f"{self.fn[0]}:{self.line} in {self.fn[1]} ({self.how})"


@dataclass
class Edge:
    callee: Tuple[str, str]
    locked: Any          # frozenset of the locks lexically held at the call site
    line: int


def resolve_module(dotted: str) -> Optional[str]:
    if not dotted.startswith("vtlengine"):
        return None
    parts = dotted.split(".")[1:]
    base = SRC.joinpath(*parts) if parts else SRC
    if parts and base.with_suffix(".py").exists():
        return "/".join(parts) + ".py"
    if (base / "__init__.py").exists():
        return "/".join(parts + ["__init__.py"]) if parts else "__init__.py"
    return None


class Program:
    def __init__(self, lock_names: Sequence[str] = ("parser_lock",)) -> None:
        self.lock_names = set(lock_names)
        self.rels = [r for r in all_modules()]
        self.bind: Dict[str, Dict[str, Tuple[Any, ...]]] = {}
        self.data_init: Dict[Loc, Optional[ast.AST]] = {}
        self.data_ann: Dict[Loc, Optional[ast.AST]] = {}
        self.classes: Dict[Tuple[str, str], ClassInfo] = {}
        self.fns: Dict[Tuple[str, str], FnInfo] = {}
        self.methods_by_name: Dict[str, List[FnInfo]] = {}
        self.props_by_name: Dict[str, List[FnInfo]] = {}
        self.accesses: Dict[Tuple[str, str], List[Access]] = {}
        self.edges: Dict[Tuple[str, str], List[Edge]] = {}
        self.caveats: List[str] = []
        self.accessors: Dict[Tuple[str, str], Loc] = {}
        self.self_mutating: Set[str] = set()
        self.loc_class: Dict[Loc, ClassInfo] = {}
        self.written_class_attr_names: Dict[str, Set[Loc]] = {}
        self.import_time_writes: List[Access] = []
        self._index()
        self._link_classes()
        self._accessors_and_mutators()
        for _round in (0, 1):       # second round: `x.attr` loads by name need the set of class attrs written
            self.accesses, self.edges = {}, {}
            for fi in list(self.fns.values()):
                _FnWalker(self, fi).run()
            names: Dict[str, Set[Loc]] = {}
            for accs in self.accesses.values():
                for a in accs:
                    if a.kind == "W" and "." in a.loc.split(":")[-1] and not a.loc.startswith(("cpp:", "os.")):
                        names.setdefault(a.loc.rsplit(".", 1)[-1], set()).add(a.loc)
            if names == self.written_class_attr_names:
                break
            self.written_class_attr_names = names

    # ---------------------------------------------------------------------------------------------- indexing
    def _index(self) -> None:
        for rel in self.rels:
            tree = module_ast(rel)
            b: Dict[str, Tuple[Any, ...]] = {}
            self.bind[rel] = b
            pkg = ["vtlengine"] + rel.split("/")[:-1]
            self._bind_block(rel, tree.body, b, pkg, top=True)
            for node in ast.walk(tree):
                if isinstance(node, ast.ClassDef):
                    qn = _qual(node)
                    ci = ClassInfo(rel, qn, node, list(node.bases))
                    self.classes[(rel, qn)] = ci
                    for st in node.body:
                        if isinstance(st, ast.Assign):
                            for t in st.targets:
                                if isinstance(t, ast.Name):
                                    ci.data_attrs[t.id] = st.value
                        elif isinstance(st, ast.AnnAssign) and isinstance(st.target, ast.Name) and st.value is not None:
                            ci.data_attrs[st.target.id] = st.value
            for node in ast.walk(tree):
                if isinstance(node, (ast.FunctionDef, ast.AsyncFunctionDef)):
                    parent = getattr(node, "_parent", None)
                    if isinstance(parent, (ast.FunctionDef, ast.AsyncFunctionDef, ast.Lambda)) or _inside_function(node):
                        continue                    # nested functions are walked as part of their encloser
                    qn = _qual(node)
                    cls = self.classes.get((rel, _qual(parent))) if isinstance(parent, ast.ClassDef) else None
                    kind = "method" if cls else "function"
                    cached = False
                    for d in node.decorator_list:
                        dn = d.id if isinstance(d, ast.Name) else d.attr if isinstance(d, ast.Attribute) else \
                            (d.func.id if isinstance(d.func, ast.Name) else getattr(d.func, "attr", "")) if isinstance(d, ast.Call) else ""
                        if dn in ("classmethod", "staticmethod", "property") and cls:
                            kind = dn
                        if dn in ("lru_cache", "cache", "cached_property"):
                            cached = True
                    fi = FnInfo(rel, qn, node, cls, kind, cached)
                    self.fns[fi.key] = fi
                    if cls is not None:
                        cls.methods[node.name] = fi
                        self.methods_by_name.setdefault(node.name, []).append(fi)
                        if kind == "property":
                            self.props_by_name.setdefault(node.name, []).append(fi)

    def _bind_block(self, rel: str, body: Sequence[ast.stmt], b: Dict[str, Tuple[Any, ...]], pkg: List[str], top: bool) -> None:
        for st in body:
            if isinstance(st, ast.ImportFrom):
                mod = st.module or ""
                if st.level:
                    base = pkg[: len(pkg) - (st.level - 1)]
                    mod = ".".join(base + ([mod] if mod else []))
                target = resolve_module(mod)
                for a in st.names:
                    nm = a.asname or a.name
                    sub = resolve_module(mod + "." + a.name)
                    if target is not None and sub is not None and not self._module_defines(target, a.name):
                        b[nm] = ("module", sub)
                    elif target is not None:
                        b[nm] = ("symbol", target, a.name, mod)
                    else:
                        b[nm] = ("ext", f"{mod}.{a.name}")
            elif isinstance(st, ast.Import):
                for a in st.names:
                    nm = a.asname or a.name.split(".")[0]
                    dotted = a.name if a.asname else a.name.split(".")[0]
                    target = resolve_module(dotted)
                    b[nm] = ("module", target) if target else ("ext", dotted)
            elif isinstance(st, (ast.FunctionDef, ast.AsyncFunctionDef)):
                b[st.name] = ("func", (rel, st.name))
            elif isinstance(st, ast.ClassDef):
                b[st.name] = ("class", (rel, st.name))
            elif isinstance(st, ast.Assign):
                for t in st.targets:
                    for n in _names(t):
                        b[n] = ("data", f"{rel}:{n}")
                        self.data_init[f"{rel}:{n}"] = st.value
            elif isinstance(st, ast.AnnAssign) and isinstance(st.target, ast.Name):
                b[st.target.id] = ("data", f"{rel}:{st.target.id}")
                self.data_init[f"{rel}:{st.target.id}"] = st.value
                self.data_ann[f"{rel}:{st.target.id}"] = st.annotation
            elif isinstance(st, ast.AugAssign) and isinstance(st.target, ast.Name):
                b.setdefault(st.target.id, ("data", f"{rel}:{st.target.id}"))
            elif isinstance(st, (ast.If, ast.Try, ast.With)):
                for blk in ("body", "orelse", "finalbody"):
                    self._bind_block(rel, getattr(st, blk, []) or [], b, pkg, top)
                for h in getattr(st, "handlers", []) or []:
                    self._bind_block(rel, h.body, b, pkg, top)

    def _module_defines(self, rel: str, name: str) -> bool:
        try:
            tree = module_ast(rel)
        except Exception:  # noqa: BLE001
            return False
        for st in tree.body:
            if isinstance(st, (ast.FunctionDef, ast.ClassDef)) and st.name == name:
                return True
            if isinstance(st, ast.Assign) and any(name in _names(t) for t in st.targets):
                return True
            if isinstance(st, ast.AnnAssign) and isinstance(st.target, ast.Name) and st.target.id == name:
                return True
            if isinstance(st, ast.ImportFrom) and any((a.asname or a.name) == name for a in st.names):
                return True
        return False

    def lookup(self, rel: str, name: str, depth: int = 0) -> Optional[Tuple[Any, ...]]:
        """Binding of a module-level name, re-exports followed."""
        b = self.bind.get(rel, {}).get(name)
        if b is None:
            return None
        if b[0] == "symbol" and depth < 8:
            _, target, orig, mod = b
            r = self.lookup(target, orig, depth + 1)
            if r is not None:
                return r
            sub = resolve_module(mod + "." + orig)
            if sub is not None:
                return ("module", sub)
            return ("ext", f"{mod}.{orig}")
        return b

    def _link_classes(self) -> None:
        for ci in self.classes.values():
            for be in ci.base_exprs:
                r = self.resolve_static(ci.rel, be)
                if r and r[0] == "class":
                    base = self.classes.get(r[1])
                    if base is not None:
                        ci.bases.append(base)
                        base.subclasses.append(ci)
            for kw in ci.node.keywords:
                if kw.arg == "metaclass":
                    r = self.resolve_static(ci.rel, kw.value)
                    if r and r[0] == "class":
                        ci.metaclass = self.classes.get(r[1])
        for loc, init in list(self.data_init.items()):
            rel = loc.split(":")[0]
            for e in (self.data_ann.get(loc), init):
                if e is None:
                    continue
                for n in ast.walk(e):
                    if isinstance(n, (ast.Name, ast.Attribute)):
                        r = self.resolve_static(rel, n)
                        if r and r[0] == "class" and r[1] in self.classes and loc not in self.loc_class:
                            if isinstance(e, ast.Call) and e.func is not n and e is init:
                                continue
                            self.loc_class[loc] = self.classes[r[1]]

    def resolve_static(self, rel: str, e: ast.AST) -> Optional[Tuple[Any, ...]]:
        """Resolve a Name / dotted Attribute at module scope to ('module', rel) / ('class', key) / ('func', key) /
        ('data', loc) / ('ext', dotted)."""
        if isinstance(e, ast.Name):
            return self.lookup(rel, e.id)
        if isinstance(e, ast.Attribute):
            base = self.resolve_static(rel, e.value)
            if base is None:
                return None
            return self.member(base, e.attr)
        if isinstance(e, ast.Subscript):      # Optional[X] etc.
            return None
        return None

    def member(self, base: Tuple[Any, ...], attr: str) -> Optional[Tuple[Any, ...]]:
        if base[0] == "module":
            rel = base[1]
            if rel.endswith("__init__.py"):
                pkg = ".".join(["vtlengine"] + rel.split("/")[:-1])
                sub = resolve_module(pkg + "." + attr)
                if sub is not None and not self._module_defines(rel, attr):
                    return ("module", sub)
            r = self.lookup(rel, attr)
            if r is not None:
                return r
            if rel.endswith("__init__.py"):
                pkg = ".".join(["vtlengine"] + rel.split("/")[:-1])
                sub = resolve_module(pkg + "." + attr)
                if sub is not None:
                    return ("module", sub)
                return ("ext", pkg + "." + attr)
            return ("data", f"{rel}:{attr}")
        if base[0] == "ext":
            return ("ext", base[1] + "." + attr)
        if base[0] == "class":
            ci = self.classes.get(base[1])
            if ci is None:
                return None
            for c in ci.mro():
                if attr in c.methods:
                    return ("func", c.methods[attr].key)
            return ("data", self.class_attr_loc(ci, attr))
        return None

    def is_instance_attr(self, ci: ClassInfo, attr: str) -> bool:
        """`self.attr` names per-instance state: a dataclass field of the hierarchy, or an attribute some method of the
        hierarchy assigns through self (the instance attribute then shadows a class-level default)."""
        cache = self.__dict__.setdefault("_inst_attrs", {})
        key = (ci.rel, ci.name)
        if key not in cache:
            s: Set[str] = set()
            for c in ci.hierarchy():
                is_dc = any((isinstance(d, ast.Name) and d.id == "dataclass") or
                            (isinstance(d, ast.Call) and isinstance(d.func, ast.Name) and d.func.id == "dataclass") or
                            (isinstance(d, ast.Attribute) and d.attr == "dataclass") for d in c.node.decorator_list)
                if is_dc:
                    for st in c.node.body:
                        if isinstance(st, ast.AnnAssign) and isinstance(st.target, ast.Name) \
                                and "ClassVar" not in ast.unparse(st.annotation):
                            s.add(st.target.id)
                for m in c.methods.values():
                    if m.kind not in ("method", "property"):
                        continue
                    args = m.node.args.args  # type: ignore[attr-defined]
                    if not args:
                        continue
                    me = args[0].arg
                    for n in ast.walk(m.node):
                        tg: List[ast.AST] = []
                        if isinstance(n, ast.Assign):
                            tg = list(n.targets)
                        elif isinstance(n, (ast.AugAssign, ast.AnnAssign)):
                            tg = [n.target]
                        for t in tg:
                            for x in ([t] if not isinstance(t, (ast.Tuple, ast.List)) else t.elts):
                                if isinstance(x, ast.Attribute) and isinstance(x.value, ast.Name) and x.value.id == me:
                                    s.add(x.attr)
            cache[key] = s
        return attr in cache[key]

    def class_attr_loc(self, ci: ClassInfo, attr: str) -> Loc:
        root = None
        for c in ci.mro():
            if attr in c.data_attrs:
                root = c
        root = root or ci
        return f"{root.rel}:{root.name}.{attr}"

    def _accessors_and_mutators(self) -> None:
        for fi in self.fns.values():
            node = fi.node
            if fi.cached and fi.cls is None:
                # every caller of a memoised function receives the SAME object: mutating it is a shared write
                self.accessors[fi.key] = f"{fi.rel}:{fi.qualname}[lru_cache]"
            declared: Set[str] = set()
            stored: Set[str] = set()
            for n in ast.walk(node):
                if isinstance(n, ast.Global):
                    declared.update(n.names)
                elif isinstance(n, ast.Name) and isinstance(n.ctx, ast.Store):
                    stored.add(n.id)
            for n in ast.walk(node):
                if isinstance(n, ast.Return) and isinstance(n.value, ast.Name):
                    nm = n.value.id
                    if nm in declared or nm not in stored:
                        b = self.lookup(fi.rel, nm)
                        if b and b[0] == "data" and fi.cls is None:
                            self.accessors[fi.key] = b[1]
            if fi.cls is not None and fi.node.name not in CTOR_FAMILY and fi.kind == "method":  # type: ignore[attr-defined]
                args = fi.node.args.args  # type: ignore[attr-defined]
                me = args[0].arg if args else "self"
                for n in ast.walk(node):
                    tgt: List[ast.AST] = []
                    if isinstance(n, (ast.Assign, ast.Delete)):
                        tgt = list(n.targets)
                    elif isinstance(n, (ast.AugAssign, ast.AnnAssign)):
                        tgt = [n.target]
                    elif isinstance(n, ast.Call) and isinstance(n.func, ast.Attribute) and n.func.attr in MUTATORS:
                        tgt = [n.func.value]
                        if not isinstance(n.func.value, (ast.Attribute, ast.Subscript)):
                            tgt = []
                    for t in tgt:
                        root = t
                        while isinstance(root, (ast.Attribute, ast.Subscript)):
                            root = root.value
                        if isinstance(root, ast.Name) and root.id == me and isinstance(t, (ast.Attribute, ast.Subscript)):
                            self.self_mutating.add(fi.node.name)  # type: ignore[attr-defined]

    # ---------------------------------------------------------------------------------------------- queries
    def reach(self, entry: Tuple[str, str], implicit_roots: bool = True) -> Dict[Tuple[str, str], Any]:
        """function -> the set of locks held on EVERY call path from the entry to it (must-hold lockset: intersection
        over the paths of the union of the locks held at the call sites along the path)."""
        held: Dict[Tuple[str, str], Any] = {}
        todo: List[Tuple[Tuple[str, str], Any]] = [(entry, frozenset())]
        if implicit_roots:
            for fi in self.fns.values():
                n = fi.qualname.split(".")[-1]
                if fi.cls is not None and n.startswith("__") and n.endswith("__") and n not in CTOR_FAMILY and n != "__call__":
                    todo.append((fi.key, frozenset()))
        while todo:
            k, locks = todo.pop()
            if k in held:
                new = held[k] & locks
                if new == held[k]:
                    continue
                held[k] = new
            else:
                held[k] = locks
            for e in self.edges.get(k, []):
                todo.append((e.callee, held[k] | e.locked))
        return held

    def immutable_value(self, loc: Loc) -> bool:
        """The location is initialised with an immutable constant (str / number / None / tuple of those) and no function
        ever rebinds it: an `in-place mutation` reported on it by the by-name rules cannot be one."""
        cache = self.__dict__.setdefault("_immutable", {})
        if loc not in cache:
            init: Optional[ast.AST] = self.data_init.get(loc)
            if init is None and ":" in loc and "." in loc.split(":", 1)[1]:
                rel, qn = loc.split(":", 1)
                cname, attr = qn.rsplit(".", 1)
                ci = self.classes.get((rel, cname))
                init = ci.data_attrs.get(attr) if ci is not None else None

            def const(e: Optional[ast.AST]) -> bool:
                if isinstance(e, (ast.Constant, ast.JoinedStr)):
                    return True
                if isinstance(e, ast.Tuple):
                    return all(const(x) for x in e.elts)
                if isinstance(e, ast.UnaryOp):
                    return const(e.operand)
                return False
            rebound = any(a.kind == "W" and not a.content and a.loc == loc for accs in self.accesses.values() for a in accs)
            cache[loc] = const(init) and not rebound
        return cache[loc]

    def thread_local(self, loc: Loc) -> bool:
        """The location holds a threading.local() / ContextVar: its contents are private to each thread."""
        init: Optional[ast.AST] = self.data_init.get(loc)
        if init is None and ":" in loc and "." in loc.split(":", 1)[1]:
            rel, qn = loc.split(":", 1)
            cname, attr = qn.rsplit(".", 1)
            ci = self.classes.get((rel, cname))
            init = ci.data_attrs.get(attr) if ci is not None else None
        return _is_thread_local_ctor(init)

    def entry_accesses(self, entry: Tuple[str, str], implicit_roots: bool = True) -> List[Tuple[Access, Any]]:
        """(access, locks certainly held when it executes) for every access in the transitive frame of the entry point."""
        out: List[Tuple[Access, Any]] = []
        for k, held in self.reach(entry, implicit_roots).items():
            for a in self.accesses.get(k, []):
                if a.kind == "W" and a.content and self.immutable_value(a.loc):
                    continue
                if self.thread_local(a.loc):
                    continue
                out.append((a, a.locked | held))
        return out

    # -- receiver-class-sensitive call graph (reporting precision; the coarse graph above stays the conservative one) -------
    def edges_refined(self, key: Tuple[str, str], rk: Optional[Tuple[str, str]]) -> List[Tuple[Tuple[str, str], Any, Any]]:
        memo = self.__dict__.setdefault("_edges_refined", {})
        if (key, rk) not in memo:
            sink: List[Tuple[Tuple[str, str], Any, Any]] = []
            fi = self.fns[key]
            rcls = self.classes.get(rk) if rk is not None else None
            if rcls is not None and fi.cls is not None and fi.cls not in rcls.hierarchy():
                rcls = None              # receiver class unrelated to the method's class: fall back to `any`
            _FnWalker(self, fi, rcls, sink).run()
            memo[(key, rk)] = sink
        return memo[(key, rk)]

    def reach_refined(self, entry: Tuple[str, str], implicit_roots: bool = True) -> Dict[Tuple[Tuple[str, str], Any], Any]:
        """(function, class of its receiver or None) -> must-hold lockset, with method calls resolved in the hierarchy
        of the receiver's class when that class is known (constructor call / cls() / annotated parameter / self)."""
        held: Dict[Tuple[Tuple[str, str], Any], Any] = {}
        todo: List[Tuple[Tuple[Tuple[str, str], Any], Any]] = [((entry, None), frozenset())]
        if implicit_roots:
            for fi in self.fns.values():
                n = fi.qualname.split(".")[-1]
                if fi.cls is not None and n.startswith("__") and n.endswith("__") and n not in CTOR_FAMILY and n != "__call__":
                    todo.append(((fi.key, None), frozenset()))
        while todo:
            node, locks = todo.pop()
            if node in held:
                new = held[node] & locks
                if new == held[node]:
                    continue
                held[node] = new
            else:
                held[node] = locks
            for callee, rk, elocks in self.edges_refined(node[0], node[1]):
                todo.append(((callee, rk), held[node] | elocks))
        return held

    def entry_accesses_refined(self, entry: Tuple[str, str]) -> List[Tuple[Access, Any]]:
        held_fn: Dict[Tuple[str, str], Any] = {}
        for (key, _rk), locks in self.reach_refined(entry).items():
            held_fn[key] = locks if key not in held_fn else held_fn[key] & locks
        out: List[Tuple[Access, Any]] = []
        for k, held in held_fn.items():
            for a in self.accesses.get(k, []):
                if a.kind == "W" and a.content and self.immutable_value(a.loc):
                    continue
                if self.thread_local(a.loc):
                    continue
                out.append((a, a.locked | held))
        return out

    def call_chain(self, entry: Tuple[str, str], target: Tuple[str, str]) -> List[str]:
        prev: Dict[Tuple[str, str], Optional[Tuple[str, str]]] = {entry: None}
        todo = [entry]
        while todo:
            k = todo.pop(0)
            if k == target:
                break
            for e in self.edges.get(k, []):
                if e.callee not in prev:
                    prev[e.callee] = k
                    todo.append(e.callee)
        if target not in prev:
            return []
        chain: List[str] = []
        cur: Optional[Tuple[str, str]] = target
        while cur is not None:
            chain.append(f"{cur[0]}:{cur[1]}")
            cur = prev[cur]
        return list(reversed(chain))


class _FnWalker:
    """Accesses and call edges of one function (nested functions and lambdas are walked in line)."""

    def __init__(self, prog: Program, fi: FnInfo, rcls: Optional[ClassInfo] = None,
                 sink: Optional[List[Tuple[Tuple[str, str], Optional[Tuple[str, str]], Any]]] = None) -> None:
        """sink is None: the coarse pass (accesses + edges recorded in the Program).  sink given: the receiver-class-
        sensitive pass - only call edges are produced, as (callee, class of the callee's receiver or None, locks);
        `rcls` is the class of THIS invocation's receiver (None: unknown, any class of the defining hierarchy)."""
        self.p = prog
        self.fi = fi
        self.rel = fi.rel
        self.rcls = rcls
        self.sink = sink
        self.local_types: Dict[str, ClassInfo] = {}
        node = fi.node
        self.declared_global: Set[str] = set()
        self.locals: Set[str] = set()
        self.local_bind: Dict[str, Tuple[Any, ...]] = {}
        self.alias: Dict[str, Loc] = {}
        self.me: Optional[str] = None
        self.me_kind = ""
        for n in ast.walk(node):
            if isinstance(n, (ast.Global, ast.Nonlocal)):
                self.declared_global.update(n.names)
        for n in ast.walk(node):
            if isinstance(n, ast.Name) and isinstance(n.ctx, (ast.Store, ast.Del)) and n.id not in self.declared_global:
                self.locals.add(n.id)
            elif isinstance(n, ast.arg):
                self.locals.add(n.arg)
            elif isinstance(n, (ast.FunctionDef, ast.AsyncFunctionDef)) and n is not node:
                self.locals.add(n.name)
            elif isinstance(n, (ast.Import, ast.ImportFrom)):
                b: Dict[str, Tuple[Any, ...]] = {}
                prog._bind_block(self.rel, [n], b, ["vtlengine"] + self.rel.split("/")[:-1], top=False)
                self.local_bind.update(b)
            elif isinstance(n, ast.ExceptHandler) and n.name:
                self.locals.add(n.name)
        self.locals -= set(self.local_bind)
        if fi.cls is not None and fi.kind in ("method", "classmethod", "property"):
            args = node.args.args  # type: ignore[attr-defined]
            if args:
                self.me = args[0].arg
                self.me_kind = "cls" if fi.kind == "classmethod" or fi.qualname.endswith(".__new__") or \
                    (fi.cls is not None and any(b.name == "type" or b.metaclass for b in [])) else "self"
                if fi.cls is not None and _is_metaclass(fi.cls):
                    self.me_kind = "cls"
        # parameter annotated as a parse-tree node => the function dereferences pointers into the C++ parse tree
        self.parse_node_param = False
        self.ext_params: Set[str] = set()
        a = node.args  # type: ignore[attr-defined]
        for p in a.posonlyargs + a.args + a.kwonlyargs:
            if p.annotation is not None:
                # a parameter whose annotation names only classes from OUTSIDE the tree (pysdmx, pandas, duckdb ..):
                # attributes read through it are not attributes of a class of the tree
                kinds = set()
                for n in ast.walk(p.annotation):
                    if isinstance(n, ast.Name) and n.id not in ("Optional", "Union", "List", "Dict", "Sequence", "Tuple",
                                                                "Set", "Iterable", "None", "Literal", "Type"):
                        r0 = self.p.lookup(self.rel, n.id) if n.id not in self.local_bind else self.local_bind[n.id]
                        kinds.add(r0[0] if r0 is not None else "builtin" if n.id in ("str", "int", "bool", "float", "bytes") else "?")
                if kinds and kinds <= {"ext", "builtin"} and "ext" in kinds:
                    self.ext_params.add(p.arg)
            ann = ast.unparse(p.annotation) if p.annotation is not None else ""
            if "ParseNode" in ann or "TerminalNode" in ann or (p.arg == "ctx" and self._module_uses_cpp()):
                self.parse_node_param = True

    def _module_uses_cpp(self) -> bool:
        return any(b[0] in ("ext", "symbol") and "_cpp_parser" in str(b) for b in self.p.bind.get(self.rel, {}).values())

    # -- recording -------------------------------------------------------------------------------------------------------
    def acc(self, loc: Loc, kind: str, node: ast.AST, locked: bool, how: str, content: bool = False) -> None:
        if self.sink is not None:
            return
        self.p.accesses.setdefault(self.fi.key, []).append(
            Access(loc, kind, self.fi.key, getattr(node, "lineno", 0), locked, how, content))

    def edge(self, callee: Tuple[str, str], node: ast.AST, locked: bool, rcls: Optional[ClassInfo] = None) -> None:
        if callee in self.p.fns:
            if self.sink is not None:
                callee_fi = self.p.fns[callee]
                rk = (rcls.rel, rcls.name) if rcls is not None and callee_fi.cls is not None else None
                self.sink.append((callee, rk, locked))
                sites = getattr(self, "sink_sites", None)     # optional parallel list (vc.pyhistory): the AST node
                if sites is not None:                         # of the call / reference that produced the edge
                    sites.append(node)
                return
            self.p.edges.setdefault(self.fi.key, []).append(Edge(callee, locked, getattr(node, "lineno", 0)))

    def edges_to_class(self, ci: ClassInfo, node: ast.AST, locked: bool) -> None:
        for c in ci.mro():
            for m in ("__new__", "__init__", "__post_init__"):
                if m in c.methods:
                    self.edge(c.methods[m].key, node, locked, ci)
            if c.metaclass is not None and "__call__" in c.metaclass.methods:
                self.edge(c.metaclass.methods["__call__"].key, node, locked)

    def receiver_classes(self) -> List[ClassInfo]:
        """Classes the receiver of this invocation may be an instance of."""
        ci = self.rcls if self.rcls is not None else self.fi.cls
        return ci.hierarchy() if ci is not None else []

    # -- resolution ------------------------------------------------------------------------------------------------------
    def resolve(self, e: ast.AST) -> Optional[Tuple[Any, ...]]:
        p = self.p
        if isinstance(e, ast.Name):
            if e.id == self.me and e.id in self.locals:
                return (self.me_kind,)
            if e.id in self.alias:
                return ("data", self.alias[e.id])
            if e.id in self.local_bind:
                b = self.local_bind[e.id]
                if b[0] == "symbol":
                    r = p.lookup(b[1], b[2])
                    if r is None:
                        sub = resolve_module(b[3] + "." + b[2])
                        return ("module", sub) if sub else ("ext", f"{b[3]}.{b[2]}")
                    return r
                return b
            if e.id in self.locals:
                return None
            return p.lookup(self.rel, e.id)
        if isinstance(e, ast.Attribute):
            base = self.resolve(e.value)
            if base is None:
                return None
            if base[0] in ("self", "cls"):
                ci = self.fi.cls
                assert ci is not None
                if base[0] == "self" and e.attr == "__class__":
                    return ("cls",)
                for c in ci.hierarchy():
                    if e.attr in c.methods:
                        return ("method", e.attr, base[0])
                if base[0] == "cls" or (any(e.attr in c.data_attrs for c in ci.mro())
                                        and not p.is_instance_attr(ci, e.attr)):
                    return ("data", p.class_attr_loc(ci, e.attr), base[0])
                return ("instattr", e.attr)
            if base[0] == "data":
                ci2 = p.loc_class.get(base[1])
                if ci2 is not None:
                    for c in ci2.mro():
                        if e.attr in c.methods:
                            return ("objmethod", base[1], e.attr, ci2)
                return ("content", base[1])
            if base[0] == "content":
                return ("content", base[1])
            return p.member(base, e.attr)
        if isinstance(e, ast.Subscript):
            base = self.resolve(e.value)
            if base is not None and base[0] in ("data", "content"):
                return ("content", base[1])
            return None
        if isinstance(e, ast.Call):
            f = self.resolve(e.func)
            if f is not None and f[0] == "func" and f[1] in p.accessors:
                return ("data", p.accessors[f[1]])
            if isinstance(e.func, ast.Name) and e.func.id == "type" and len(e.args) == 1:
                r = self.resolve(e.args[0])
                if r is not None and r[0] == "self":
                    return ("cls",)
            if isinstance(e.func, ast.Name) and e.func.id == "super":
                return ("super",)
            if isinstance(e.func, ast.Name) and e.func.id == "cast" and len(e.args) == 2:
                return self.resolve(e.args[1])
            return None
        return None

    # -- the walk --------------------------------------------------------------------------------------------------------
    def run(self) -> None:
        node = self.fi.node
        if self.fi.cached:
            self.acc(f"{self.rel}:{self.fi.qualname}[lru_cache]", "R", node, frozenset(), "memo lookup")
            self.acc(f"{self.rel}:{self.fi.qualname}[lru_cache]", "W", node, frozenset(), "memo insert")
        if self.parse_node_param:
            self.acc(CPP, "R", node, frozenset(), "dereferences ParseNode pointers into the C++ parse tree")
        # local aliases of shared objects (flow-insensitive)
        for n in ast.walk(node):
            if isinstance(n, ast.Assign) and len(n.targets) == 1 and isinstance(n.targets[0], ast.Name):
                r = self.resolve(n.value)
                if r is not None and r[0] in ("data", "content") and n.targets[0].id not in self.declared_global:
                    init = self.p.data_init.get(r[1])
                    if r[0] == "content" or r[1] in self.p.loc_class or _mutable_init(init) or r[1].startswith(("cpp", "os.")) \
                            or "." in r[1].split(":")[-1]:
                        self.alias[n.targets[0].id] = r[1]
        if self.sink is not None:
            self._infer_local_types()
        for st in node.body:  # type: ignore[attr-defined]
            self.stmt(st, frozenset())

    def _infer_local_types(self) -> None:
        """x = C(...) / x = cls(...) / parameter annotated with an in-tree class C  =>  x is an instance of C (or of a
        subclass).  A local bound to different classes at different places is left untyped."""
        p = self.p
        seen: Dict[str, Set[Tuple[str, str]]] = {}
        node = self.fi.node
        a = node.args  # type: ignore[attr-defined]
        for prm in a.posonlyargs + a.args + a.kwonlyargs:
            if prm.annotation is not None and prm.arg != self.me:
                ann = prm.annotation
                if isinstance(ann, ast.Constant) and isinstance(ann.value, str):
                    try:
                        ann = ast.parse(ann.value, mode="eval").body
                    except SyntaxError:
                        continue
                if isinstance(ann, (ast.Name, ast.Attribute)):
                    r = self.resolve(ann)
                    if r is not None and r[0] == "class" and r[1] in p.classes:
                        seen.setdefault(prm.arg, set()).add(r[1])
        stores: Dict[str, int] = {}
        for n in ast.walk(node):
            if isinstance(n, ast.Name) and isinstance(n.ctx, ast.Store):
                stores[n.id] = stores.get(n.id, 0) + 1
            if isinstance(n, ast.Assign) and len(n.targets) == 1 and isinstance(n.targets[0], ast.Name) \
                    and isinstance(n.value, ast.Call):
                r = self.resolve(n.value.func)
                key: Optional[Tuple[str, str]] = None
                if r is not None and r[0] == "class" and r[1] in p.classes:
                    key = r[1]
                elif r is not None and r[0] == "cls":
                    ci = self.rcls if self.rcls is not None else self.fi.cls
                    key = (ci.rel, ci.name) if ci is not None else None
                if key is not None:
                    seen.setdefault(n.targets[0].id, set()).add(key)
        for name, keys in seen.items():
            n_ctor = len(keys)
            if n_ctor == 1 and stores.get(name, 0) <= 1:
                self.local_types[name] = p.classes[next(iter(keys))]

    def is_lock(self, e: ast.AST) -> Optional[str]:
        """Identity of the lock object named by `e` (a module global initialised with threading.Lock()/RLock(), or one
        of the configured lock names), else None."""
        r = self.resolve(e)
        if r is not None and r[0] == "data":
            if r[1].split(":")[-1] in self.p.lock_names or _is_lock_ctor(self.p.data_init.get(r[1])):
                return r[1]
        if isinstance(e, ast.Name) and e.id in self.p.lock_names:
            return e.id
        return None

    def stmt(self, st: ast.AST, locked: Any) -> None:  # noqa: C901  (`locked`: frozenset of the locks held here)
        if isinstance(st, (ast.With, ast.AsyncWith)):
            inner = locked
            for it in st.items:
                lk = self.is_lock(it.context_expr)
                if lk is not None:
                    inner = inner | {lk}
                else:
                    self.expr(it.context_expr, locked)
                if it.optional_vars is not None:
                    self.store(it.optional_vars, locked)
            for s in st.body:
                self.stmt(s, inner)
            return
        if isinstance(st, ast.Assign):
            self.expr(st.value, locked)
            for t in st.targets:
                self.store(t, locked)
            return
        if isinstance(st, ast.AnnAssign):
            if st.value is not None:
                self.expr(st.value, locked)
                self.store(st.target, locked)
            return
        if isinstance(st, ast.AugAssign):
            self.expr(st.value, locked)
            self.load_of_target(st.target, locked)
            self.store(st.target, locked)
            return
        if isinstance(st, ast.Delete):
            for t in st.targets:
                self.store(t, locked)
            return
        if isinstance(st, (ast.For, ast.AsyncFor)):
            self.expr(st.iter, locked)
            self.store(st.target, locked)
            for s in st.body + st.orelse:
                self.stmt(s, locked)
            return
        if isinstance(st, (ast.FunctionDef, ast.AsyncFunctionDef)):
            for d in st.decorator_list:
                self.expr(d, locked)
            for s in st.body:
                self.stmt(s, locked)
            return
        if isinstance(st, ast.ClassDef):
            for s in st.body:
                self.stmt(s, locked)
            return
        for fld, val in ast.iter_fields(st):
            if isinstance(val, list):
                for v in val:
                    if isinstance(v, ast.stmt):
                        self.stmt(v, locked)
                    elif isinstance(v, ast.ExceptHandler):
                        if v.type is not None:
                            self.expr(v.type, locked)
                        for s in v.body:
                            self.stmt(s, locked)
                    elif isinstance(v, ast.match_case):
                        for s in v.body:
                            self.stmt(s, locked)
                    elif isinstance(v, ast.expr):
                        self.expr(v, locked)
            elif isinstance(val, ast.expr):
                self.expr(val, locked)

    def load_of_target(self, t: ast.AST, locked: bool) -> None:
        import copy
        t2 = copy.copy(t)
        t2.ctx = ast.Load()  # type: ignore[attr-defined]
        self.expr(t2, locked, shallow=True)

    def store(self, t: ast.AST, locked: bool) -> None:
        if isinstance(t, (ast.Tuple, ast.List)):
            for x in t.elts:
                self.store(x, locked)
            return
        if isinstance(t, ast.Starred):
            self.store(t.value, locked)
            return
        if isinstance(t, ast.Name):
            if t.id in self.declared_global:
                b = self.p.lookup(self.rel, t.id)
                loc = b[1] if b and b[0] == "data" else f"{self.rel}:{t.id}"
                self.acc(loc, "W", t, locked, f"global {t.id} = ...")
            return
        if isinstance(t, ast.Attribute):
            self.expr(t.value, locked)
            base = self.resolve(t.value)
            if base is None:
                return
            if base[0] == "module":
                m = self.p.member(base, t.attr)
                loc = m[1] if m and m[0] == "data" else f"{base[1]}:{t.attr}"
                self.acc(loc, "W", t, locked, f"{ast.unparse(t)} = ...")
            elif base[0] == "class":
                ci = self.p.classes.get(base[1])
                if ci is not None:
                    self.acc(self.p.class_attr_loc(ci, t.attr), "W", t, locked, f"{ast.unparse(t)} = ...")
            elif base[0] == "cls":
                assert self.fi.cls is not None
                self.acc(self.p.class_attr_loc(self.fi.cls, t.attr), "W", t, locked, f"{ast.unparse(t)} = ... (class attribute "
                         "of the receiving class)")
            elif base[0] in ("data", "content"):
                self.acc(base[1], "W", t, locked, f"{ast.unparse(t)} = ... (attribute of the shared object)", True)
            elif base[0] == "ext" and base[1].startswith("os.environ"):
                self.acc(ENV, "W", t, locked, ast.unparse(t))
            return
        if isinstance(t, ast.Subscript):
            self.expr(t.value, locked)
            self.expr(t.slice, locked)
            base = self.resolve(t.value)
            if base is not None and base[0] in ("data", "content"):
                self.acc(base[1], "W", t, locked, f"{ast.unparse(t)[:60]} = ... (in-place)", True)
            elif base is not None and base[0] == "ext" and base[1] == "os.environ":
                self.acc(ENV, "W", t, locked, ast.unparse(t)[:60])
            return

    def expr(self, e: ast.AST, locked: bool, shallow: bool = False) -> None:  # noqa: C901
        p = self.p
        if isinstance(e, ast.Lambda):
            self.expr(e.body, locked)
            return
        if isinstance(e, ast.Call):
            self.call(e, locked)
            return
        if isinstance(e, ast.Name):
            if isinstance(e.ctx, ast.Load):
                r = self.resolve(e)
                if r is not None:
                    if r[0] == "data" and e.id not in self.alias:
                        self.acc(r[1], "R", e, locked, f"reads {e.id}")
                    elif r[0] == "func" and e.id != self.fi.qualname:
                        self.edge(r[1], e, locked)                     # reference = potential call
                    elif r[0] == "class":
                        ci = p.classes.get(r[1])
                        if ci is not None and not _is_annotation(e):
                            self.edges_to_class(ci, e, locked)
            return
        if isinstance(e, ast.Attribute):
            if not shallow and not self._names_class_or_module(e.value):
                self.expr(e.value, locked)
            r = self.resolve(e)
            if r is not None:
                if r[0] == "data":
                    self.acc(r[1], "R", e, locked, f"reads {ast.unparse(e)}")
                elif r[0] == "content":
                    self.acc(r[1], "R", e, locked, f"reads {ast.unparse(e)[:50]}")
                elif r[0] == "func":
                    fi = p.fns.get(r[1])
                    if fi is not None:
                        self.edge(fi.key, e, locked)
                elif r[0] == "method":
                    self.dispatch(r[1], r[2], e, locked)
                elif r[0] == "objmethod":
                    for c in r[3].hierarchy():
                        if r[2] in c.methods:
                            self.edge(c.methods[r[2]].key, e, locked)
                elif r[0] == "instattr" and e.attr in p.written_class_attr_names:
                    for loc in p.written_class_attr_names[e.attr]:
                        self.acc(loc, "R", e, locked, f"reads {ast.unparse(e)} (may resolve to the class attribute)")
            else:
                root: ast.AST = e.value
                while isinstance(root, (ast.Attribute, ast.Subscript, ast.Call)):
                    root = root.value if not isinstance(root, ast.Call) else root.func
                external_receiver = isinstance(root, ast.Name) and root.id in self.ext_params
                if e.attr in p.written_class_attr_names and isinstance(e.ctx, ast.Load) and not external_receiver:
                    for loc in p.written_class_attr_names[e.attr]:
                        self.acc(loc, "R", e, locked, f"reads .{e.attr} of an object of unknown class")
            for fi in p.props_by_name.get(e.attr, []):
                self.edge(fi.key, e, locked)
            return
        if isinstance(e, ast.Subscript):
            self.expr(e.value, locked)
            self.expr(e.slice, locked)
            r = self.resolve(e.value)
            if r is not None and r[0] == "ext" and r[1] == "os.environ":
                self.acc(ENV, "R", e, locked, ast.unparse(e)[:50])
            return
        if isinstance(e, (ast.ListComp, ast.SetComp, ast.GeneratorExp, ast.DictComp)):
            for g in e.generators:
                self.expr(g.iter, locked)
                for c in g.ifs:
                    self.expr(c, locked)
            for part in ([e.key, e.value] if isinstance(e, ast.DictComp) else [e.elt]):
                self.expr(part, locked)
            return
        for ch in ast.iter_child_nodes(e):
            if isinstance(ch, ast.expr):
                self.expr(ch, locked)
            elif isinstance(ch, ast.keyword):
                self.expr(ch.value, locked)
            elif isinstance(ch, ast.comprehension):
                self.expr(ch.iter, locked)

    def _names_class_or_module(self, e: ast.AST) -> bool:
        """`Cls.attr` / `mod.attr`: the receiver is only named, not instantiated or called."""
        if isinstance(e, (ast.Name, ast.Attribute)):
            r = self.resolve(e)
            return r is not None and r[0] in ("class", "module")
        return False

    def dispatch(self, name: str, how: str, node: ast.AST, locked: bool) -> None:
        ci = self.fi.cls
        if ci is None:
            return
        classes = ci.mro()[1:] if how == "super" else self.receiver_classes()
        for c in classes:
            if name in c.methods:
                self.edge(c.methods[name].key, node, locked, self.rcls if self.rcls is not None else None)

    def call(self, e: ast.Call, locked: bool) -> None:  # noqa: C901
        p = self.p
        for a in e.args:
            self.expr(a.value if isinstance(a, ast.Starred) else a, locked)
        for k in e.keywords:
            self.expr(k.value, locked)
        f = e.func
        # getattr(self, <non-constant>) / getattr(x, <non-constant>)
        if isinstance(f, ast.Name) and f.id == "getattr" and len(e.args) >= 2 and f.id not in self.locals:
            nm = e.args[1]
            if not (isinstance(nm, ast.Constant) and isinstance(nm.value, str)):
                prefix = _const_prefix(nm)
                recv = self.resolve(e.args[0])
                if recv is not None and recv[0] in ("self", "cls") and self.fi.cls is not None:
                    for c in self.receiver_classes():
                        for mn, mf in c.methods.items():
                            if mn.startswith(prefix):
                                self.edge(mf.key, e, locked, self.rcls)
                else:
                    par = getattr(e, "_parent", None)
                    called = isinstance(par, ast.Call) and par.func is e
                    msg = (f"{self.rel}:{e.lineno} getattr({ast.unparse(e.args[0])[:30]}, <non-constant>) on an object that is not "
                           "self: " + ("its result is CALLED - callee unknown" if called else "treated as a data read"))
                    if msg not in p.caveats:
                        p.caveats.append(msg)
            else:
                r = self.resolve(ast.Attribute(value=e.args[0], attr=nm.value, ctx=ast.Load()))
                if r is not None and r[0] == "method":
                    self.dispatch(r[1], r[2], e, locked)
            return
        if isinstance(f, ast.Name):
            r = self.resolve(f)
            if r is None:
                if f.id in self.locals:
                    return
                return
            if r[0] == "func":
                self.edge(r[1], e, locked)
                fi = p.fns.get(r[1])
                if fi is not None and fi.key in p.accessors:
                    self.acc(p.accessors[fi.key], "R", e, locked, f"{f.id}() returns the shared object")
            elif r[0] == "class":
                ci = p.classes.get(r[1])
                if ci is not None:
                    self.edges_to_class(ci, e, locked)
            elif r[0] == "ext":
                self.ext_call(r[1], e, locked)
            elif r[0] == "data":
                self.acc(r[1], "R", e, locked, f"calls the shared object {f.id}")
            return
        if isinstance(f, ast.Attribute):
            if not self._names_class_or_module(f.value):
                self.expr(f.value, locked)
            base = self.resolve(f.value)
            name = f.attr
            if base is not None:
                if base[0] == "module":
                    m = p.member(base, name)
                    if m is not None and m[0] == "func":
                        self.edge(m[1], e, locked)
                        if m[1] in p.accessors:
                            self.acc(p.accessors[m[1]], "R", e, locked, f"{name}() returns the shared object")
                    elif m is not None and m[0] == "class":
                        ci = p.classes.get(m[1])
                        if ci is not None:
                            self.edges_to_class(ci, e, locked)
                    elif m is not None and m[0] == "ext":
                        self.ext_call(m[1], e, locked)
                    return
                if base[0] == "ext":
                    self.ext_call(base[1] + "." + name, e, locked)
                    return
                if base[0] == "class":
                    ci = p.classes.get(base[1])
                    if ci is not None:
                        found = False
                        for c in ci.hierarchy():
                            if name in c.methods:
                                self.edge(c.methods[name].key, e, locked, ci)
                                found = True
                        if not found and name in MUTATORS:
                            pass
                    return
                if base[0] in ("self", "cls", "super"):
                    self.dispatch(name, base[0], e, locked)
                    if base[0] in ("self", "cls") and self.fi.cls is not None and not any(
                            name in c.methods for c in self.fi.cls.hierarchy()):
                        # a callable stored in an attribute: by-name fallback
                        for fi in p.methods_by_name.get(name, []):
                            self.edge(fi.key, e, locked)
                    return
                if base[0] in ("data", "content"):
                    loc = base[1]
                    ci2 = p.loc_class.get(loc)
                    targets = []
                    if ci2 is not None:
                        for c in ci2.hierarchy():
                            if name in c.methods:
                                targets.append(c.methods[name])
                    for t in targets:
                        self.edge(t.key, e, locked, ci2)
                    mut = name in MUTATORS or (name in p.self_mutating and (ci2 is None or any(
                        t.qualname.split(".")[-1] in p.self_mutating for t in targets)))
                    self.acc(loc, "W" if mut else "R", e, locked,
                             f"{ast.unparse(f)[:50]}() {'mutates' if mut else 'reads'} the shared object", mut)
                    if not targets and ci2 is None:
                        for fi in p.methods_by_name.get(name, []):
                            self.edge(fi.key, e, locked)
                    return
            # receiver-class-sensitive pass: a local bound to `C(...)` / `cls()` / a parameter annotated with class C
            tci: Optional[ClassInfo] = None
            if self.sink is not None and isinstance(f.value, ast.Name) and f.value.id in self.local_types:
                tci = self.local_types[f.value.id]
            elif self.sink is not None and isinstance(f.value, ast.Call):        # C(...).m()
                rc = self.resolve(f.value.func)
                if rc is not None and rc[0] == "class":
                    tci = p.classes.get(rc[1])
            if tci is not None:
                hits = [c.methods[name] for c in tci.hierarchy() if name in c.methods]
                if hits:
                    for t in hits:
                        self.edge(t.key, e, locked, tci)
                    return
            # unknown receiver: class-hierarchy analysis by method name
            for fi in p.methods_by_name.get(name, []):
                self.edge(fi.key, e, locked)
            if isinstance(f.value, ast.Call) and isinstance(f.value.func, ast.Name) and f.value.func.id == "super":
                self.dispatch(name, "super", e, locked)
            return
        self.expr(f, locked)

    def ext_call(self, dotted: str, e: ast.Call, locked: bool) -> None:
        last = dotted.split(".")[-1]
        if "vtl_cpp_parser" in dotted or "_cpp_parser." in dotted:
            if last == "parse":
                self.acc(CPP, "W", e, locked, f"{last}() replaces the process-global parse tree")
            elif last[:1].islower():
                self.acc(CPP, "R", e, locked, f"{last}() reads the process-global parser state")
        elif dotted in ("os.getenv", "os.environ.get", "os.environ.items", "os.environ.keys", "os.environ.copy"):
            self.acc(ENV, "R", e, locked, dotted)
        elif dotted in ("os.putenv", "os.unsetenv", "os.environ.setdefault", "os.environ.update", "os.environ.pop",
                        "os.environ.clear", "os.environ.popitem"):
            self.acc(ENV, "W", e, locked, dotted)


# ------------------------------------------------------------------------------------------------------------------
def _qual(node: Any) -> str:
    parts: List[str] = []
    cur = node
    while cur is not None:
        if isinstance(cur, (ast.FunctionDef, ast.AsyncFunctionDef, ast.ClassDef)):
            parts.append(cur.name)
        cur = getattr(cur, "_parent", None)
    return ".".join(reversed(parts))


def _inside_function(node: ast.AST) -> bool:
    cur = getattr(node, "_parent", None)
    while cur is not None:
        if isinstance(cur, (ast.FunctionDef, ast.AsyncFunctionDef, ast.Lambda)):
            return True
        cur = getattr(cur, "_parent", None)
    return False


def _names(t: ast.AST) -> List[str]:
    if isinstance(t, ast.Name):
        return [t.id]
    if isinstance(t, (ast.Tuple, ast.List)):
        return [n for x in t.elts for n in _names(x)]
    return []


def _mutable_init(e: Optional[ast.AST]) -> bool:
    if e is None:
        return True
    if isinstance(e, (ast.Dict, ast.List, ast.Set, ast.ListComp, ast.DictComp, ast.SetComp, ast.Call)):
        return True
    return False


def _is_annotation(e: ast.AST) -> bool:
    cur: Any = e
    par = getattr(cur, "_parent", None)
    while par is not None:
        if isinstance(par, ast.arg) and par.annotation is cur:
            return True
        if isinstance(par, ast.AnnAssign) and par.annotation is cur:
            return True
        if isinstance(par, (ast.FunctionDef, ast.AsyncFunctionDef)) and par.returns is cur:
            return True
        if isinstance(par, ast.stmt):
            return False
        cur, par = par, getattr(par, "_parent", None)
    return False


def _is_lock_ctor(e: Optional[ast.AST]) -> bool:
    if isinstance(e, ast.Call):
        f = e.func
        name = f.attr if isinstance(f, ast.Attribute) else f.id if isinstance(f, ast.Name) else ""
        return name in ("Lock", "RLock")
    return False


def _is_thread_local_ctor(e: Optional[ast.AST]) -> bool:
    if isinstance(e, ast.Call):
        f = e.func
        return (isinstance(f, ast.Attribute) and f.attr == "local" and ast.unparse(f.value).endswith("threading")) or \
            (isinstance(f, ast.Name) and f.id in ("local", "ContextVar")) or \
            (isinstance(f, ast.Attribute) and f.attr == "ContextVar")
    return False


def _is_metaclass(ci: ClassInfo) -> bool:
    return any(isinstance(b, ast.Name) and b.id == "type" for c in ci.mro() for b in c.base_exprs)


def _const_prefix(e: ast.AST) -> str:
    if isinstance(e, ast.JoinedStr) and e.values and isinstance(e.values[0], ast.Constant):
        return str(e.values[0].value)
    if isinstance(e, ast.BinOp) and isinstance(e.op, ast.Add) and isinstance(e.left, ast.Constant) and isinstance(e.left.value, str):
        return e.left.value
    return ""
