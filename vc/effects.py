"""Models of effectful externals for exceptional-path verification (assumed contracts, listed in evidence).

An effectful external call appends an event to the path's effect trace and forks: it either succeeds or raises
an exception of a stated class.  Resources are then tracked over the trace of every explored path.
"""
from __future__ import annotations

from typing import Any, Callable, Dict, List, Optional, Tuple

from . import smt
from .pyvc import Engine, ObjV, OutsideSubset, RaiseSignal, builtin_class
from .smt import STR, T, is_sym


def native(fn: Callable[..., Any]) -> Any:
    fn._pyvc_native = True  # type: ignore[attr-defined]
    return fn


def may_fail(eng: Engine, what: str, exc_class: str = "ExternalError", detail: Any = None) -> None:
    """Fork: the external operation `what` succeeds (effect ok:<what>) or raises `exc_class` (effect fail:<what>)."""
    eng.effects.append(("call", what, detail))
    if eng.choose(2) == 1:
        eng.effects.append(("fail", what, detail))
        raise RaiseSignal(ObjV(builtin_class(exc_class), {"_site": what}, (f"{what} failed",)))
    eng.effects.append(("ok", what, detail))


class PathV:
    """pathlib.Path over a (possibly symbolic) string."""

    def __init__(self, s: Any) -> None:
        self.s = s

    def __repr__(self) -> str:
        return f"PathV({self.s})"

    def _pyvc_str(self, eng: Engine) -> Any:
        return self.s

    def _pyvc_binop(self, eng: Engine, op: str, other: Any, refl: bool) -> Any:
        if op != "Div" or refl:
            raise OutsideSubset(f"Path {op}")
        o = other.s if isinstance(other, PathV) else other
        return PathV(smt.Concat(self.s, "/", o))

    def _pyvc_getattr(self, eng: Engine, name: str) -> Any:
        me = self
        if name == "mkdir":
            def mkdir(e: Engine, *a: Any, **k: Any) -> Any:
                may_fail(e, "Path.mkdir", "OSError", me)
                e.effects.append(("acquire", "dir", me))
                return None
            return native(mkdir)
        if name in ("exists", "is_dir", "is_file"):
            return native(lambda e, *a, **k: e.decls.fresh(f"path.{name}", smt.BOOL))
        if name == "name":
            return eng.decls.fresh("path.name", STR)
        if name == "parent":
            return PathV(eng.decls.fresh("path.parent", STR))
        raise OutsideSubset(f"Path.{name}")


class ConnV:
    """A DuckDB connection: every statement may fail; close() releases it."""

    def __init__(self, database: Any) -> None:
        self.database = database
        self.n_exec = 0

    def __repr__(self) -> str:
        return f"ConnV({self.database})"

    def _pyvc_getattr(self, eng: Engine, name: str) -> Any:
        me = self
        if name in ("execute", "sql", "register", "unregister", "create_function", "remove_function", "executemany"):
            def run(e: Engine, *a: Any, **k: Any) -> Any:
                me.n_exec += 1
                may_fail(e, f"conn.{name}#{me.n_exec}", "DuckDBError", a[0] if a else None)
                return me
            return native(run)
        if name == "close":
            def close(e: Engine, *a: Any, **k: Any) -> Any:
                e.effects.append(("release", "conn", me))
                return None
            return native(close)
        if name in ("fetchone", "fetchall", "fetchdf", "df"):
            return native(lambda e, *a, **k: __import__("vc.pyvc", fromlist=["Opaque"]).Opaque("query result"))
        raise OutsideSubset(f"connection.{name}")


def install_config_externals(eng: Engine) -> None:
    """Externals used by duckdb_transpiler/Config/config.py."""
    X = eng.externals

    def path_ctor(e: Engine, s: Any = ".") -> Any:
        if isinstance(s, PathV):
            return s
        return PathV(s)

    def gettempdir(e: Engine) -> Any:
        return e.decls.const("tempfile.gettempdir()", STR)

    class UUID:
        def _pyvc_getattr(self, eng2: Engine, name: str) -> Any:
            if name == "hex":
                return eng2.decls.const("uuid4.hex", STR)
            raise OutsideSubset(f"uuid.{name}")

    def connect(e: Engine, database: Any = ":memory:", **k: Any) -> Any:
        may_fail(e, "duckdb.connect", "DuckDBError", database)
        c = ConnV(database)
        e.effects.append(("acquire", "conn", c))
        return c

    def rmtree(e: Engine, path: Any, ignore_errors: Any = False, **k: Any) -> Any:
        if ignore_errors is not True:
            may_fail(e, "shutil.rmtree", "OSError", path)
        e.effects.append(("release", "dir", path))
        return None

    X["pathlib.Path"] = path_ctor
    X["tempfile.gettempdir"] = gettempdir
    X["uuid.uuid4"] = lambda e: UUID()
    X["duckdb.connect"] = connect
    X["shutil.rmtree"] = rmtree


def leaked(effects: List[Tuple[Any, ...]]) -> List[Tuple[str, Any]]:
    """Resources acquired and not released later on the same trace."""
    out = []
    for i, ev in enumerate(effects):
        if ev[0] == "acquire":
            if not any(e2[0] == "release" and e2[1] == ev[1] and e2[2] is ev[2] for e2 in effects[i + 1:]):
                out.append((ev[1], ev[2]))
    return out


def failure_sites(effects: List[Tuple[Any, ...]]) -> List[str]:
    return [ev[1] for ev in effects if ev[0] == "fail"]
