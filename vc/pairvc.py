"""Pairs of load programs: two `vc.loadvc.LoadProgram`s (extracted from the REAL loaders for two input forms of the same
structure) evaluated on the SAME source cell, and the condition "the two forms behave identically on this cell".

Additive helper module for property C18 (nothing of vc.loadvc / vc.sqlvc / vc.sqlcast is changed):

  * `split_program`      a LoadProgram cut in two stages that are still run by `vc.loadvc.run_row`:
                         INSERT expression  |  NOT NULL constraints + UPDATE steps + row-level temporal check.
  * `joint`              both programs on one symbolic row inside ONE path exploration.  When the two INSERT stages yield
                         the *same term* (same character terms, same null flag) and the second stages are textually
                         identical, equality of the outcomes follows from determinism and the second stage is not
                         explored at all (this is what makes Time_Period affordable); otherwise both second stages are run
                         and the outcomes are compared by the solver.
  * `differs`            the condition "outcome A is not equivalent to outcome B" of a joint path (reject/accept mismatch,
                         NULL/value mismatch, different stored value; DATE vs TIMESTAMP columns are compared on the denoted
                         instant: same day and no time of day other than midnight).
  * `TextEngine`         vc.loadvc.LoadEngine + CAST(VARCHAR AS BOOLEAN) (DuckDB's TryCastStringBool, validated by the check
                         against the real DuckDB on every run).
  * `NumEngine`          LoadEngine + vc.sqlcast.CastSqlEngine (DOUBLE as exact reals) + FLOOR + CAST(VARCHAR AS BIGINT) on
                         decimal numerals (rounds half away from zero; validated on a grid on every run) + error() messages
                         that splice a DOUBLE.
  * `date_override_rule` the rule of `_io._detect_date_type_overrides` ("this text makes the Date column a TIMESTAMP"),
                         read mechanically from the function's AST (shape-checked; another shape -> RuleOutside).
  * `csv_read_types`     the `columns={...}` argument of the real read_csv call (the source types of the CSV program).
"""
from __future__ import annotations

import ast as pyast
import dataclasses
import re
from dataclasses import dataclass
from fractions import Fraction
from typing import Any, Callable, Dict, List, Optional, Sequence, Tuple

from sqlglot import exp

from . import core, loadvc, regexvc, smt
from .loadvc import LoadEngine, LoadProgram, RowOutcome
from .smt import INT, REAL, T, Add, And, Eq, Ge, Iff, Le, Lt, Mul, Neg, Not, Or, Sub, is_sym
from .sqlcast import CastSqlEngine, r_add, r_div_const, r_eq, r_lt, r_neg, r_of_int
from .sqlvc import SV, CStr, SqlError, SqlOutside, digits_value, is_digit


class RuleOutside(Exception):
    """A piece of Python glue is not of the shape the extractor understands: the obligation is undecided."""


# ----------------------------------------------------------------------------------------------------------------
# extraction helpers
# ----------------------------------------------------------------------------------------------------------------
def csv_read_types(prog: LoadProgram) -> Dict[str, str]:
    """{column: DuckDB type} of the `columns={...}` argument of the read_csv call the real CSV loader issued."""
    for s in prog.statements:
        if "read_csv" in s and "INSERT" in s.upper():
            m = re.search(r"columns=\{(.*?)\}", " ".join(s.split()))
            if m:
                return {k: v.upper() for k, v in re.findall(r"'([^']+)':\s*'([^']+)'", m.group(1))}
    raise RuleOutside("no read_csv(columns={...}) call among the statements of the CSV loader")


def csv_read_options(prog: LoadProgram) -> str:
    for s in prog.statements:
        if "read_csv" in s and "INSERT" in s.upper():
            t = " ".join(s.split())
            m = re.search(r"auto_detect=false,(.*?)\)\s*(WHERE|$)", t)
            return m.group(1).strip() if m else t
    return ""


def _regex_rule(tree: pyast.Module, fn: pyast.FunctionDef) -> Optional[Tuple[str, str, str]]:
    """Second accepted shape:  if isinstance(val, str): flag = NAME.match(val) is not None  [else: ...]; if flag: -> TIMESTAMP
    with NAME = re.compile(<constant>) at module level.  -> ('regex', method, pattern)."""
    for node in pyast.walk(fn):
        if not (isinstance(node, pyast.If) and isinstance(node.test, pyast.Call) and getattr(node.test.func, "id", "") == "isinstance"
                and len(node.test.args) == 2 and getattr(node.test.args[1], "id", "") == "str"):
            continue
        for st in node.body:
            if isinstance(st, pyast.Assign) and isinstance(st.value, pyast.Compare) and len(st.value.ops) == 1 \
                    and isinstance(st.value.ops[0], pyast.IsNot) and isinstance(st.value.left, pyast.Call) \
                    and isinstance(st.value.left.func, pyast.Attribute) and isinstance(st.value.left.func.value, pyast.Name) \
                    and st.value.left.func.attr in ("match", "search", "fullmatch") \
                    and isinstance(st.value.comparators[0], pyast.Constant) and st.value.comparators[0].value is None:
                name = st.value.left.func.value.id
                flag = st.targets[0].id if isinstance(st.targets[0], pyast.Name) else None
                uses = [n for n in pyast.walk(fn) if isinstance(n, pyast.If) and isinstance(n.test, pyast.Name) and n.test.id == flag]
                if flag is None or len(uses) != 1 or "TIMESTAMP" not in pyast.unparse(uses[0]):
                    return None
                for top in tree.body:
                    if isinstance(top, pyast.Assign) and any(isinstance(t, pyast.Name) and t.id == name for t in top.targets) \
                            and isinstance(top.value, pyast.Call) and pyast.unparse(top.value.func) == "re.compile" \
                            and len(top.value.args) == 1 and isinstance(top.value.args[0], pyast.Constant):
                        return ("regex", st.value.left.func.attr, str(top.value.args[0].value))
    return None


def date_override_rule() -> Tuple[Any, ...]:
    """The rule of `_detect_date_type_overrides` for a str value v ("v makes the Date column a TIMESTAMP"), read from the
    AST of the working tree.  Two shapes are understood:
        (min_len, index, separators)      len(v) > min_len and v[index] in separators
        ('regex', method, pattern)        NAME.<method>(v) is not None, NAME = re.compile(pattern) at module level
    anything else raises RuleOutside (the obligations that need the rule are then undecided)."""
    src = core.src_text("duckdb_transpiler/io/_io.py")
    tree = pyast.parse(src)
    fn = next((n for n in tree.body if isinstance(n, pyast.FunctionDef) and n.name == "_detect_date_type_overrides"), None)
    if fn is None:
        raise RuleOutside("_detect_date_type_overrides not found")
    tests = [n.test for n in pyast.walk(fn) if isinstance(n, pyast.If) and isinstance(n.test, pyast.BoolOp)
             and isinstance(n.test.op, pyast.And) and any(isinstance(v, pyast.Call) and getattr(v.func, "id", "") == "isinstance"
                                                          for v in n.test.values)]
    if not tests:
        rr = _regex_rule(tree, fn)
        if rr is not None:
            return rr
    if len(tests) != 1:
        raise RuleOutside("_detect_date_type_overrides: expected exactly one `isinstance(val, str) and ...` test")
    vals = tests[0].values
    min_len = idx = None
    seps: Optional[Tuple[str, ...]] = None
    for v in vals:
        if isinstance(v, pyast.Call):
            continue
        if isinstance(v, pyast.Compare) and len(v.ops) == 1 and isinstance(v.ops[0], pyast.Gt) \
                and isinstance(v.left, pyast.Call) and getattr(v.left.func, "id", "") == "len" \
                and isinstance(v.comparators[0], pyast.Constant):
            min_len = int(v.comparators[0].value)
        elif isinstance(v, pyast.Compare) and len(v.ops) == 1 and isinstance(v.ops[0], pyast.In) \
                and isinstance(v.left, pyast.Subscript) and isinstance(v.left.slice, pyast.Constant) \
                and isinstance(v.comparators[0], (pyast.Tuple, pyast.List, pyast.Set)):
            idx = int(v.left.slice.value)
            seps = tuple(e.value for e in v.comparators[0].elts if isinstance(e, pyast.Constant))
        else:
            raise RuleOutside(f"_detect_date_type_overrides: conjunct of another shape: {pyast.unparse(v)}")
    if min_len is None or idx is None or not seps or idx > min_len:
        raise RuleOutside("_detect_date_type_overrides: rule not of the form len(v) > K and v[i] in (..)")
    # the loop must break on the first hit and the override must be TIMESTAMP
    if "TIMESTAMP" not in pyast.unparse(fn):
        raise RuleOutside("_detect_date_type_overrides: no TIMESTAMP override")
    return min_len, idx, seps


def override_applies(rule: Tuple[Any, ...], chars: Sequence[Any]) -> Any:
    if rule[0] == "regex":
        _k, method, pattern = rule
        try:
            f = {"match": regexvc.match, "search": regexvc.search, "fullmatch": regexvc.fullmatch}[method]
            return f(pattern, list(chars))
        except regexvc.RegexOutside as e:
            raise RuleOutside(f"pattern of _detect_date_type_overrides outside the regex subset: {e}") from e
    min_len, idx, seps = rule
    if len(chars) <= min_len:
        return False
    return Or(*[Eq(chars[idx], ord(s)) for s in seps])


def override_sample(rule: Tuple[Any, ...]) -> str:
    """A concrete text on which the rule fires (fed to the real register_dataframes to obtain its TIMESTAMP program)."""
    for s in ("2020-01-01T00:00:00", "2020-01-01 00:00:00", "2020-1-1 00:00:00"):
        if override_applies(rule, [ord(c) for c in s]) is True:
            return s
    if rule[0] != "regex":
        min_len, idx, seps = rule
        return "2020-01-01"[:idx].ljust(idx, "0") + seps[0] + "0" * (min_len - idx)
    raise RuleOutside("no sample text satisfies the override rule")


def has_time_not_midnight(chars: Sequence[Any]) -> Any:
    """the text carries a time of day other than 00:00:00[.000]: after the date and the [ T] separator a non-zero digit
    occurs before any timezone sign (digits of a timezone suffix do not count: the offset is discarded)."""
    return regexvc.match(r"\d{4}-\d{1,2}-\d{1,2}[ T][0:.]*[1-9]", list(chars))


# ----------------------------------------------------------------------------------------------------------------
# engines
# ----------------------------------------------------------------------------------------------------------------
BOOL_TRUE = ("true", "t", "yes", "y", "1")
BOOL_FALSE = ("false", "f", "no", "n", "0")


def _ci_word(chars: Sequence[Any], w: str) -> Any:
    if len(chars) != len(w):
        return False
    cs = []
    for c, ch in zip(chars, w):
        cs.append(Or(Eq(c, ord(ch)), Eq(c, ord(ch.upper()))) if ch.isalpha() else Eq(c, ord(ch)))
    return And(*cs)


class _BoolTextMixin:
    """CAST(VARCHAR AS BOOLEAN): DuckDB's non-strict TryCastStringBool - the words below, case-insensitive, nothing
    trimmed; every other text is a conversion error."""

    def cstr_to_bool(self, s: CStr) -> SV:
        t = Or(*[_ci_word(s.chars, w) for w in BOOL_TRUE])
        f = Or(*[_ci_word(s.chars, w) for w in BOOL_FALSE])
        i = self.choose([t, f, And(Not(t), Not(f))])      # type: ignore[attr-defined]
        if i == 0:
            return SV("bool", True, False)
        if i == 1:
            return SV("bool", False, False)
        raise SqlError("Conversion Error: Could not convert string to BOOL", "conversion")


class TextEngine(_BoolTextMixin, LoadEngine):
    def cast(self, a: SV, to: exp.DataType, try_cast: bool, env: Dict[str, SV]) -> SV:
        tname = to.sql(dialect="duckdb").upper()
        if tname == "BOOLEAN" and a.sort == "str":
            if self.decide(a.null):
                return SV("bool", False, True)
            return self.cstr_to_bool(a.v)
        if tname == "BOOLEAN" and a.sort == "bool":
            return a
        return super().cast(a, to, try_cast, env)


_MACROS: Optional[Dict[str, Any]] = None


def make(cls: Any) -> Any:
    """An engine of class `cls`; the macro files of the working tree are parsed once per process (not once per engine)."""
    global _MACROS
    if _MACROS is None:
        from .sqlvc import load_macros
        _MACROS = load_macros()
    return cls(macros=_MACROS)


def r_floor_int(a: Any) -> Any:
    if not is_sym(a):
        import math
        return math.floor(Fraction(a))
    return T(INT, f"(to_int {a.sx})")            # SMT-LIB to_int is floor


class NumEngine(_BoolTextMixin, LoadEngine, CastSqlEngine):
    """Numeric cells: DOUBLE values are exact reals (vc.sqlcast), texts are decimal numerals of a FIXED shape
    [-]d..d[.d..d] whose digit characters are symbolic."""

    def ev_Floor(self, e: exp.Floor, env: Dict[str, SV]) -> SV:
        a = self.eval(e.this, env)
        if a.sort == "null":
            return SV("dbl", Fraction(0), True)
        if a.sort == "int":
            return a
        if a.sort != "dbl":
            raise SqlOutside(f"FLOOR of {a.sort}")
        return SV("dbl", r_of_int(r_floor_int(a.v)), a.null)

    def ev_DPipe(self, e: exp.DPipe, env: Dict[str, SV]) -> SV:
        a, b = self.eval(e.this, env), self.eval(e.expression, env)
        if "dbl" in (a.sort, b.sort) or "opaque" in (a.sort, b.sort):
            na = True if a.sort == "null" else a.null
            nb = True if b.sort == "null" else b.null
            return SV("opaque", "text with a DOUBLE spliced in (rendering not modelled)", Or(na, nb))
        a, b = self.as_str(a), self.as_str(b)
        return SV("str", a.v + b.v, Or(a.null, b.null))

    def numeral_value(self, s: CStr) -> Optional[Tuple[bool, List[Any], List[Any]]]:
        """(negative, integer digit chars, fraction digit chars) when the text is a decimal numeral [-]d+[.d+] on this
        path; None otherwise (decided with forks on the sign / point positions only when they are symbolic)."""
        ch = list(s.chars)
        neg = False
        if ch and self.decide(Eq(ch[0], 45)):
            neg, ch = True, ch[1:]
        ip: List[Any] = []
        while ch and self.decide(is_digit(ch[0])):
            ip.append(ch.pop(0))
        if not ip:
            return None
        fp: List[Any] = []
        if ch:
            if not self.decide(Eq(ch[0], 46)):
                return None
            fp = ch[1:]
            if not fp or not self.decide(And(*[is_digit(c) for c in fp])):
                return None
        return neg, ip, fp

    def cstr_to_int(self, s: CStr, try_cast: bool) -> SV:
        """CAST(VARCHAR AS BIGINT) on decimal numerals: the integer nearest to the numeral, halves away from zero
        ('2.5' -> 3, '-2.5' -> -3, '0.4' -> 0); validated against the real DuckDB on a grid by the check."""
        nv = self.numeral_value(s)
        if nv is None:
            return super().cstr_to_int(s, try_cast)
        neg, ip, fp = nv
        if len(ip) > 15 or len(fp) > 9:
            raise SqlOutside("numeral wider than 15+9 digits")
        n = digits_value(ip)
        if fp:
            fv: Any = 0
            for c in fp:
                fv = Add(Mul(fv, 10), Sub(c, 48))
            up = Ge(Mul(fv, 2), 10 ** len(fp))
            n = smt.Ite(up, Add(n, 1), n)
        return SV("int", Neg(n) if neg else n, False)

    def cstr_to_dbl(self, s: CStr) -> SV:
        nv = self.numeral_value(s)
        if nv is None:
            return super().cstr_to_dbl(s)
        neg, ip, fp = nv
        val: Any = r_of_int(digits_value(ip))
        if fp:
            fv: Any = 0
            for c in fp:
                fv = Add(Mul(fv, 10), Sub(c, 48))
            val = r_add(val, r_div_const(r_of_int(fv), 10 ** len(fp)))
        return SV("dbl", r_neg(val) if neg else val, False)

    def cast(self, a: SV, to: exp.DataType, try_cast: bool, env: Dict[str, SV]) -> SV:
        tname = to.sql(dialect="duckdb").upper()
        if tname == "BOOLEAN" and a.sort == "str":
            if self.decide(a.null):
                return SV("bool", False, True)
            return self.cstr_to_bool(a.v)
        if tname in ("VARCHAR", "TEXT") and a.sort == "dbl":
            # only ever spliced into error() messages here: the text is not modelled, the fact that it is a value is
            return SV("opaque", "DOUBLE rendered as text (not modelled)", a.null)
        m = re.fullmatch(r"DECIMAL\((\d+),\s*(\d+)\)", tname)
        if m and a.sort in ("str", "dbl", "int"):
            # DECIMAL(p, s) as an exact real: sound for integers / reals of the stated magnitude and for numerals with at
            # most s fraction digits (more digits would be rounded: outside the model)
            if self.decide(a.null):
                return SV("dbl", Fraction(0), True)
            if a.sort == "int":
                return SV("dbl", r_of_int(a.v), False)
            if a.sort == "dbl":
                return SV("dbl", a.v, False)
            nv = self.numeral_value(a.v)
            if nv is None:
                bad = Or(*[Not(Or(is_digit(c), Eq(c, 32), Eq(c, 43), Eq(c, 45), Eq(c, 46), Eq(c, 95), Eq(c, 101), Eq(c, 69)))
                           for c in a.v.chars]) if len(a.v) else True
                if self.decide(bad):
                    raise SqlError("Conversion Error: Could not convert string to DECIMAL", "conversion")
                raise SqlOutside("CAST(VARCHAR AS DECIMAL) on a numeric-looking text that is not a plain decimal numeral")
            if len(nv[2]) > int(m.group(2)):
                raise SqlOutside("numeral with more fraction digits than the DECIMAL scale")
            return self.cstr_to_dbl(a.v)
        return super().cast(a, to, try_cast, env)


# ----------------------------------------------------------------------------------------------------------------
# two-stage programs and joint evaluation
# ----------------------------------------------------------------------------------------------------------------
def split_program(prog: LoadProgram) -> Tuple[LoadProgram, LoadProgram]:
    # the first stage is the INSERT expression alone: none of the later steps (LoadProgram.steps is what run_row executes)
    first = dataclasses.replace(prog, updates=[], temporal_cases=[], steps=[], not_null={c: False for c in prog.not_null})
    ident = {c: exp.column(c, quoted=True) for c in prog.col_types}
    second = dataclasses.replace(prog, insert=ident, insert_where=None)
    return first, second


def second_stage_text(prog: LoadProgram, col: Optional[str] = None) -> str:
    """Text of everything that happens to a stored row after the INSERT expression (per column when `col` is given)."""
    cols = [col] if col else list(prog.col_types)
    return repr(([(c, prog.not_null.get(c)) for c in cols],
                 [(c, e.sql(dialect="duckdb"), w.sql(dialect="duckdb") if w is not None else None)
                  for c, e, w in prog.updates if col is None or c == col],
                 [c.sql(dialect="duckdb") for c in prog.temporal_cases],
                 # ... and the ORDER in which the loader executed the steps
                 [(s[0], s[1]) if s[0] == "update" else (s[0], len(s[1])) for s in prog.steps
                  if col is None or s[0] != "update" or s[1] == col]))


def _same_term(x: Any, y: Any) -> bool:
    if is_sym(x) and is_sym(y):
        return x.sx == y.sx
    if is_sym(x) or is_sym(y):
        return False
    return type(x) is type(y) and x == y


def sv_null(a: SV) -> Any:
    return True if a.sort == "null" else a.null


def identical_sv(a: SV, b: SV) -> bool:
    """The two values are the same TERM (not merely provably equal)."""
    na, nb = sv_null(a), sv_null(b)
    if not _same_term(na, nb):
        return False
    if na is True:
        return True
    if a.sort != b.sort:
        return False
    if a.sort == "str":
        return len(a.v) == len(b.v) and all(_same_term(p, q) for p, q in zip(a.v.chars, b.v.chars))
    if a.sort in ("int", "bool", "date", "ts", "dbl"):
        return _same_term(a.v, b.v)
    return False


@dataclass
class Joint:
    a: RowOutcome
    b: RowOutcome
    same_by_determinism: bool
    prog_a: LoadProgram
    prog_b: LoadProgram


_SORT_OF_COLUMN = {"BIGINT": "int", "INTEGER": "int", "INT": "int", "TEXT": "str", "VARCHAR": "str", "BOOLEAN": "bool",
                   "DATE": "date", "TIMESTAMP": "ts"}


def insert_stage(eng: Any, first: LoadProgram, row: Dict[str, SV]) -> RowOutcome:
    """INSERT expression, then DuckDB's implicit cast of the value to the type of the table column (an expression of
    another sort than the column - e.g. a DOUBLE selected into a BIGINT column - is cast as by CAST)."""
    r = loadvc.run_row(eng, first, row)
    if not r.accepted or not r.stored:
        return r
    try:
        for c, t in first.col_types.items():
            v = r.stored[c]
            want = _SORT_OF_COLUMN.get(t.upper())
            if want is None or v.sort in (want, "null"):
                continue
            r.stored[c] = eng.cast(v, exp.DataType.build(t, dialect="duckdb"), False, {})
    except SqlError as e:
        return RowOutcome(False, r.stored, f"DuckDB error on the implicit cast to the column type: {str(e.msg)[:60]} [{e.kind}]")
    return r


def joint(eng: Any, prog_a: LoadProgram, prog_b: LoadProgram, row_a: Dict[str, SV], row_b: Dict[str, SV], col: str) -> Joint:
    """Both programs on one row (the rows differ only when the two forms deliver the cell as different sorts)."""
    a1, a2 = split_program(prog_a)
    b1, b2 = split_program(prog_b)
    ra = insert_stage(eng, a1, row_a)
    rb = insert_stage(eng, b1, row_b)
    if not ra.accepted and not rb.accepted:
        return Joint(ra, rb, True, prog_a, prog_b)
    if ra.accepted and rb.accepted and ra.stored and rb.stored:
        same_rest = second_stage_text(prog_a) == second_stage_text(prog_b) and \
            prog_a.col_types.get(col) == prog_b.col_types.get(col)
        if same_rest and all(identical_sv(ra.stored[c], rb.stored[c]) for c in prog_a.col_types):
            return Joint(ra, rb, True, prog_a, prog_b)
    oa = loadvc.run_row(eng, a2, ra.stored) if ra.accepted and ra.stored else ra
    ob = loadvc.run_row(eng, b2, rb.stored) if rb.accepted and rb.stored else rb
    return Joint(oa, ob, False, prog_a, prog_b)


def value_equal(a: SV, b: SV) -> Any:
    if a.sort == "str" and b.sort == "str":
        return a.v.eq(b.v)
    if a.sort in ("int", "date", "ts") and b.sort in ("int", "date", "ts"):
        return Eq(a.v, b.v)
    if a.sort == "bool" and b.sort == "bool":
        return Iff(a.v, b.v)
    if "dbl" in (a.sort, b.sort) and a.sort in ("dbl", "int") and b.sort in ("dbl", "int"):
        x = a.v if a.sort == "dbl" else r_of_int(a.v)
        y = b.v if b.sort == "dbl" else r_of_int(b.v)
        return r_eq(x, y)
    return False


def differs(j: Joint, col: str, chars: Optional[Sequence[Any]] = None) -> Any:
    """Condition (under the path condition of the joint path) that the two forms do NOT behave identically."""
    if j.same_by_determinism:
        return False
    if j.a.accepted != j.b.accepted:
        return True
    if not j.a.accepted:
        return False
    if not j.a.stored or not j.b.stored:          # a row filtered out by one form only
        return bool(j.a.stored) != bool(j.b.stored)
    sa, sb = j.a.stored[col], j.b.stored[col]
    na, nb = sv_null(sa), sv_null(sb)
    if sa.sort == "null" or sb.sort == "null":
        return Not(And(na, nb))
    veq = value_equal(sa, sb)
    ta, tb = j.prog_a.col_types.get(col, ""), j.prog_b.col_types.get(col, "")
    if {sa.sort, sb.sort} <= {"date", "ts"} and ta != tb and chars is not None:
        # one form keeps the time of day (TIMESTAMP column), the other cannot (DATE column): same instant only when
        # the text carries no time of day other than midnight
        veq = And(veq, Not(has_time_not_midnight(chars)))
    same = Or(And(na, nb), And(Not(na), Not(nb), veq))
    return Not(same)


def statement_skeleton(prog: LoadProgram) -> List[str]:
    """The statements of a load program with the source relation and the metadata probes removed: what remains must be
    the same text for two forms that claim to load identically."""
    out = []
    for s in prog.statements:
        t = " ".join(s.split())
        up = t.upper()
        if up.startswith("DESCRIBE") or (up.startswith("SELECT * FROM READ_") and up.endswith("LIMIT 0")):
            continue
        if up.startswith("INSERT INTO"):
            t = re.sub(r"\(\s*(\"[^\"]+\"\s*,?\s*)+\)\s*SELECT", " SELECT", t, count=1)
            t = re.sub(r"FROM read_parquet\('[^']*'\)", "FROM <source>", t)
            t = re.sub(r"FROM read_csv\(.*?\)(?= WHERE|\s*$)", "FROM <source>", t)
            t = re.sub(r'FROM "_temp_[^"]+"', "FROM <source>", t)
            t = " ".join(t.split())
        out.append(t)
    return out


def unrecognised_statements(prog: LoadProgram) -> List[str]:
    bad = []
    for s in prog.statements:
        t = " ".join(s.split())
        up = t.upper()
        ok = (up.startswith(("CREATE TABLE", "INSERT INTO", "UPDATE", "DESCRIBE", "DROP TABLE")) or "COUNT(DISTINCT" in up
              or re.match(r'SELECT COUNT\(\*\) FROM "', t) is not None or "AS INVALID" in up
              or (up.startswith("SELECT * FROM READ_") and up.endswith("LIMIT 0")))
        if not ok:
            bad.append(t[:160])
    return bad
