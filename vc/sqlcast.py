"""Extension of vc.sqlvc for the scalar SQL emitted by SQLTranspiler._cast_expr (C09).

`CastSqlEngine` is a subclass of `SqlEngine` (nothing of sqlvc is changed) that adds what the cast templates need:

  * sort `dbl`  : DOUBLE values as mathematical reals (SMT Real terms, python Fractions when concrete).  ASSUMPTION:
                  no floating-point rounding - exact for the domains the obligations state (integers below 2**53,
                  TRUNC of any finite double, decimal numerals of a few digits up to the nearest-double rounding of
                  the numeral itself).
  * TRUNC(dbl)  : rounding towards zero; the result remembers its integer so that CAST(.. AS BIGINT) is exact.
  * CAST between BOOLEAN / BIGINT / DOUBLE / VARCHAR:  bool -> 1/0, 1.0/0.0, 'true'/'false';  int/dbl -> BOOLEAN is
                  `<> 0`;  VARCHAR -> DOUBLE only on canonical numerals  -?d{1,9}(.d{1,6})?  (anything else leaves the
                  model: SqlOutside, the obligation must exclude it by its precondition);  DOUBLE -> VARCHAR is NOT
                  modelled (DuckDB's shortest-round-trip rendering).
  * LOWER, and SPLIT_PART that knows that a character rendered from a digit is not the delimiter.

Every added primitive is compared with the real DuckDB on a grid by `expr_conformance` on each run.
"""
from __future__ import annotations

import datetime
import math
import re
from fractions import Fraction
from typing import Any, Dict, List, Optional, Sequence, Tuple

from sqlglot import exp

from . import smt, sqlconf
from .smt import BOOL, INT, REAL, T, Add, And, Eq, Ge, Ite, Le, Lt, Neg, Not, Or, Sub, is_sym
from .sqlvc import _PROV, NULL, SV, CStr, SqlEngine, SqlError, SqlOutside, digits_value, is_digit, sv_str


# ----------------------------------------------------------------------------------------------------------------
# reals
# ----------------------------------------------------------------------------------------------------------------
def rlit(fr: Fraction) -> str:
    n, d = abs(fr.numerator), fr.denominator
    body = f"{n}.0" if d == 1 else f"(/ {n}.0 {d}.0)"
    return body if fr >= 0 else f"(- {body})"


def rterm(x: Any) -> T:
    if is_sym(x):
        assert x.sort == REAL, x
        return x
    return T(REAL, rlit(Fraction(x)))


def r_of_int(i: Any) -> Any:
    if is_sym(i):
        return T(REAL, f"(to_real {i.sx})")
    return Fraction(int(i))


def r_add(a: Any, b: Any) -> Any:
    if not is_sym(a) and not is_sym(b):
        return Fraction(a) + Fraction(b)
    return T(REAL, f"(+ {rterm(a).sx} {rterm(b).sx})")


def r_neg(a: Any) -> Any:
    if not is_sym(a):
        return -Fraction(a)
    return T(REAL, f"(- {a.sx})")


def r_div_const(a: Any, k: int) -> Any:
    if not is_sym(a):
        return Fraction(a) / k
    return T(REAL, f"(/ {a.sx} {k}.0)")


def r_eq(a: Any, b: Any) -> Any:
    if not is_sym(a) and not is_sym(b):
        return Fraction(a) == Fraction(b)
    return T(BOOL, f"(= {rterm(a).sx} {rterm(b).sx})")


def r_ge0(a: Any) -> Any:
    if not is_sym(a):
        return Fraction(a) >= 0
    return T(BOOL, f"(>= {a.sx} 0.0)")


def r_lt(a: Any, b: Any) -> Any:
    if not is_sym(a) and not is_sym(b):
        return Fraction(a) < Fraction(b)
    return T(BOOL, f"(< {rterm(a).sx} {rterm(b).sx})")


def r_trunc_int(a: Any) -> Any:
    """Integer part towards zero, as an Int."""
    if not is_sym(a):
        return math.trunc(Fraction(a))
    return T(INT, f"(ite (>= {a.sx} 0.0) (to_int {a.sx}) (- (to_int (- {a.sx}))))")


def r_round_int(a: Any) -> Any:
    """Nearest integer, halves to even (DuckDB CAST(DOUBLE AS BIGINT) = nearbyint), as an Int."""
    if not is_sym(a):
        h = Fraction(a) + Fraction(1, 2)
        f = math.floor(h)
        return f - 1 if (h == f and f % 2 == 1) else f
    f = f"(to_int (+ {a.sx} 0.5))"
    return T(INT, f"(ite (and (= (to_real {f}) (+ {a.sx} 0.5)) (= (mod {f} 2) 1)) (- {f} 1) {f})")


def smt_real(v: str) -> Fraction:
    """Value of a Real in a z3 / cvc5 model: 1.5 | (- 1.5) | (/ 3.0 2.0) | (- (/ 3 2)) | 2 ..."""
    toks = re.findall(r"\(|\)|[^\s()]+", v.strip())
    pos = 0

    def parse() -> Fraction:
        nonlocal pos
        t = toks[pos]
        pos += 1
        if t != "(":
            return Fraction(t)
        op = toks[pos]
        pos += 1
        args = []
        while toks[pos] != ")":
            args.append(parse())
        pos += 1
        if op == "-":
            return -args[0] if len(args) == 1 else args[0] - args[1]
        if op == "/":
            return args[0] / args[1]
        if op == "+":
            return sum(args, Fraction(0))
        raise ValueError(v)
    return parse()


_TRUNC_INT: Dict[str, Any] = {}       # sx of a real term produced by TRUNC -> its integer term


def iso_year_week_fields(y: Any, m: Any, d: Any, z: Any) -> Tuple[Any, Any]:
    """ISO-8601 (year, week) of the valid civil date (y, m, d) whose day number is z, written on the civil fields:
    the Thursday of the date's week is day d + 4 - w of month m (w = ISO weekday); it leaves the year only from the
    last days of December / first days of January.  Folds on ints; validated against datetime.isocalendar by
    `selfcheck_iso_fields` on every run (all days around every year boundary of 1000..9998 plus a stride sample)."""
    from . import calendar as cal
    w = cal.iso_dow(z)
    t = Add(d, Sub(4, w))
    nxt = And(Eq(m, 12), smt.Gt(t, 31))
    prv = And(Eq(m, 1), Lt(t, 1))
    iy = Ite(nxt, Add(y, 1), Ite(prv, Sub(y, 1), y))
    doy = Add(Sub(z, cal.days_from_civil(y, 1, 1)), 1)
    base = Add(Sub(doy, w), 10)
    wk = Ite(nxt, 1, Ite(prv, smt.FloorDiv(Add(base, cal.days_in_year(Sub(y, 1))), 7), smt.FloorDiv(base, 7)))
    return smt.share(iy), smt.share(wk)


def selfcheck_iso_fields(lo_year: int = 1000, hi_year: int = 9998, stride: int = 61) -> Optional[str]:
    epoch = datetime.date(1970, 1, 1)

    def one(dt: datetime.date) -> Optional[str]:
        z = (dt - epoch).days
        got = iso_year_week_fields(dt.year, dt.month, dt.day, z)
        want = tuple(dt.isocalendar()[:2])
        return None if tuple(got) == want else f"{dt}: field formula {got}, datetime {want}"
    for yy in range(lo_year, hi_year + 1):
        for mm, days_ in ((1, range(1, 9)), (12, range(24, 32))):
            for dd in days_:
                r = one(datetime.date(yy, mm, dd))
                if r:
                    return r
    dt, end = datetime.date(lo_year, 1, 1), datetime.date(hi_year, 12, 31)
    step = datetime.timedelta(days=stride)
    while dt <= end:
        r = one(dt)
        if r:
            return r
        dt += step
    return None


# ----------------------------------------------------------------------------------------------------------------
class CastSqlEngine(SqlEngine):
    MAX_INT_DIGITS_IN_TEXT = 9
    MAX_FRAC_DIGITS_IN_TEXT = 6
    PRUNE_BACKENDS: Tuple[str, ...] = ("cvc5", "z3")     # cvc5 starts ~5x faster than z3 5.1; z3 takes its unknowns
    hints: List[List[Any]] = []                          # see _feasible
    hint_calls = 0

    def choose(self, conds: Sequence[Any]) -> int:
        """n-way fork over a PARTITION (as in the base class).  Under a precondition the live alternatives of a wide
        fork (digit counts of a rendered integer) are found by model enumeration: ask for a model, see which
        alternative it takes, exclude it, repeat until unsat - (#live + 1) solver calls instead of one per alternative.
        Sound for partitions: when no state avoids all found alternatives, every other alternative is infeasible."""
        live = [i for i, c in enumerate(conds) if is_sym(c) or c]
        if self.assume is not None and len(live) > 1:
            found = self._live_by_models(conds, live) if len(live) > 2 else None
            if found is None:
                found = [i for i in live if self._feasible(conds[i])]
            live = found or live
        if len(live) == 1 and (not is_sym(conds[live[0]]) or self.assume is not None):
            if is_sym(conds[live[0]]):
                self.pc.append(conds[live[0]])
            return live[0]
        if not live:
            raise SqlOutside("no feasible alternative")
        k = len(self.decisions)
        c = self.prefix[k][0] if k < len(self.prefix) else 0
        self.decisions.append((c, len(live)))
        i = live[c]
        if is_sym(conds[i]):
            self.pc.append(conds[i])
        return i

    def _live_by_models(self, conds: Sequence[Any], live: Sequence[int]) -> Optional[List[int]]:
        from .core import run_solver_once
        sym = [i for i in live if is_sym(conds[i])]
        if len(sym) != len(live):
            return None
        key = "models|" + smt.query(self.decls, list(self.axioms) + list(self.assume or []) + list(self.pc)
                                    + [conds[i] for i in sym], logic="ALL")
        if key in self._prune_cache:
            return self._prune_cache[key]      # type: ignore[return-value]
        found: List[int] = []
        res: Optional[List[int]] = None
        for _ in range(len(sym) + 1):
            text = smt.query(self.decls, list(self.axioms) + list(self.assume or []) + list(self.pc)
                             + [Not(conds[i]) for i in found], get=[conds[i].sx for i in sym], logic="ALL")
            self.prune_calls += 1
            r = None
            for b in self.PRUNE_BACKENDS:
                r = run_solver_once(text, b, 2.0 if b == "cvc5" else 3.0, "prune")
                if r.status in ("sat", "unsat"):
                    break
            if r is None or r.status == "unknown":
                break
            if r.status == "unsat":
                res = found
                break
            vals = list(r.model.values())
            if len(vals) != len(sym):
                break
            hit = [i for i, v in zip(sym, vals) if v.strip() == "true" and i not in found]
            if not hit:
                break
            found.append(hit[0])
        if res is not None:
            res = sorted(res)
        self._prune_cache[key] = res           # type: ignore[assignment]
        return res

    def decide(self, cond: Any) -> bool:
        """Binary decision.  Under a precondition (self.assume) the second feasibility query is skipped when the first
        alternative is infeasible: the current path is feasible, so the other alternative then is (same result as the
        base class, one solver call less)."""
        if not is_sym(cond):
            return bool(cond)
        if cond in self.pc:
            return True
        if Not(cond) in self.pc:
            return False
        if self.assume is not None:
            # forced alternatives are not recorded as decisions (as in the base class); on re-execution of a decision
            # prefix the same (cached) feasibility answers make the same alternatives forced again
            if not self._feasible(cond):
                self.pc.append(Not(cond))
                return False
            if not self._feasible(Not(cond)):
                self.pc.append(cond)
                return True
        k = len(self.decisions)
        c = self.prefix[k][0] if k < len(self.prefix) else 0
        self.decisions.append((c, 2))
        self.pc.append(cond if c == 0 else Not(cond))
        return c == 0

    def _feasible(self, cond: Any) -> bool:
        """Same contract as SqlEngine._feasible (only `unsat` prunes); quick solver first."""
        if not is_sym(cond):
            return bool(cond)
        text = smt.query(self.decls, list(self.axioms) + list(self.assume or []) + list(self.pc) + [cond], logic="ALL")
        hit = self._prune_cache.get(text)
        if hit is None:
            from .core import run_solver_once
            # witnesses first: `self.hints` are total assignments meant to satisfy the precondition; when one of them
            # also satisfies pc /\ cond the alternative is feasible and the solver only had to evaluate ground terms
            # (finding a model of a calendar precondition from scratch takes the solvers seconds).  A hint can only
            # answer "feasible" (which never prunes), so a wrong hint costs time, not soundness.
            for h in self.hints:
                r = run_solver_once(smt.query(self.decls, list(self.axioms) + list(self.assume or []) + list(self.pc)
                                              + [cond] + list(h), logic="ALL"), "cvc5", 2.0, "prune")
                self.hint_calls += 1
                if r.status == "sat":
                    self._prune_cache[text] = True
                    return True
            hit = True
            for b in self.PRUNE_BACKENDS:
                r = run_solver_once(text, b, 2.0 if b == "cvc5" else 3.0, "prune")
                if r.status == "unsat":
                    hit = False
                    break
                if r.status == "sat":
                    break
            self._prune_cache[text] = hit
            self.prune_calls += 1
        return hit

    # -- VARCHAR -> DOUBLE on canonical numerals ---------------------------------------------------------------------
    def cstr_to_dbl(self, s: CStr) -> SV:
        ch = list(s.chars)
        if not ch:
            raise SqlError("Conversion Error: could not convert string '' to DOUBLE", "conversion")
        neg = False
        if self.decide(Eq(ch[0], 45)):
            neg = True
            ch = ch[1:]
        ip: List[Any] = []
        while ch and self.decide(is_digit(ch[0])):
            ip.append(ch.pop(0))
        if not ip or len(ip) > self.MAX_INT_DIGITS_IN_TEXT:
            raise SqlOutside("CAST(VARCHAR AS DOUBLE) outside the canonical numerals -?d{1,9}(.d{1,6})?")
        val: Any = r_of_int(digits_value(ip))
        if ch:
            if not self.decide(Eq(ch[0], 46)):
                raise SqlOutside("CAST(VARCHAR AS DOUBLE) outside the canonical numerals -?d{1,9}(.d{1,6})?")
            fp = ch[1:]
            if not fp or len(fp) > self.MAX_FRAC_DIGITS_IN_TEXT or not self.decide(And(*[is_digit(c) for c in fp])):
                raise SqlOutside("CAST(VARCHAR AS DOUBLE) outside the canonical numerals -?d{1,9}(.d{1,6})?")
            fv: Any = 0
            for c in fp:          # not digits_value: leading zeros of the fraction are significant
                fv = Add(smt.Mul(fv, 10), Sub(c, 48))
            val = r_add(val, r_div_const(r_of_int(fv), 10 ** len(fp)))
        return SV("dbl", r_neg(val) if neg else val, False)

    # -- casts ------------------------------------------------------------------------------------------------------
    _SORT_OF = {"INT": "int", "INTEGER": "int", "BIGINT": "int", "TEXT": "str", "VARCHAR": "str", "DATE": "date",
                "TIMESTAMP": "ts", "BOOLEAN": "bool", "DOUBLE": "dbl", "FLOAT": "dbl", "REAL": "dbl"}

    def cast(self, a: SV, to: exp.DataType, try_cast: bool, env: Dict[str, SV]) -> SV:  # noqa: C901
        tname = to.sql(dialect="duckdb").upper()
        if a.sort in ("null", "struct-lit"):
            return super().cast(a, to, try_cast, env)
        mine = a.sort in ("dbl", "bool") or tname in ("DOUBLE", "FLOAT", "REAL", "BOOLEAN")
        if not mine:
            return super().cast(a, to, try_cast, env)
        if self.decide(a.null):
            tgt = self._SORT_OF.get(tname)
            if tgt is None:
                raise SqlOutside(f"CAST(NULL {a.sort} AS {tname})")
            dflt = {"int": 0, "str": CStr([]), "date": 0, "ts": 0, "bool": False, "dbl": Fraction(0)}[tgt]
            return SV(tgt, dflt, True)
        if tname in ("DOUBLE", "FLOAT", "REAL"):
            if a.sort == "int":
                return SV("dbl", r_of_int(a.v), False)
            if a.sort == "dbl":
                return SV("dbl", a.v, False)
            if a.sort == "bool":
                return SV("dbl", Fraction(1) if a.v is True else Fraction(0) if a.v is False else
                          T(REAL, f"(ite {a.v.sx} 1.0 0.0)"), False)
            if a.sort == "str":
                return self.cstr_to_dbl(a.v)
        if tname in ("INT", "INTEGER", "BIGINT"):
            if a.sort == "bool":
                return SV("int", Ite(a.v, 1, 0), False)
            if a.sort == "dbl":
                if is_sym(a.v) and a.v.sx in _TRUNC_INT:
                    return SV("int", _TRUNC_INT[a.v.sx], False)
                # DuckDB rounds a DOUBLE to the nearest integer, halves to even (2.5 -> 2, 3.5 -> 4; conformance grid)
                return SV("int", r_round_int(a.v), False)
        if tname == "BOOLEAN":
            if a.sort == "bool":
                return SV("bool", a.v, False)
            if a.sort == "int":
                return SV("bool", Not(Eq(a.v, 0)), False)
            if a.sort == "dbl":
                return SV("bool", Not(r_eq(a.v, Fraction(0))), False)
        if tname in ("TEXT", "VARCHAR"):
            if a.sort == "bool":
                return SV("str", CStr.lit("true") if self.decide(a.v) else CStr.lit("false"), False)
            if a.sort == "dbl":
                raise SqlOutside("CAST(DOUBLE AS VARCHAR) (DuckDB's shortest round-trip rendering is not modelled)")
        raise SqlOutside(f"CAST({a.sort} AS {tname})")

    def compare(self, a: SV, b: SV, op: str) -> SV:
        """Equality of two dates that were both built from valid civil fields (y, m, d) is equality of the fields:
        days_from_civil is injective on valid dates (round trip civil_from_days(days_from_civil(y,m,d)) = (y,m,d),
        validated against datetime by vc.calendar.selfcheck).  Saves the solver from re-deriving that injectivity."""
        if op in ("=", "<>") and a.sort in ("date", "ts") and b.sort in ("date", "ts") and is_sym(a.v) and is_sym(b.v):
            from . import calendar as cal
            fa, fb = cal._CIVIL.get(a.v.sx), cal._CIVIL.get(b.v.sx)
            if fa is not None and fb is not None:
                same = And(*[Eq(p, q) for p, q in zip(fa, fb)])
                return SV("bool", same if op == "=" else Not(same), Or(a.null, b.null))
        if "dbl" in (a.sort, b.sort) and a.sort in ("dbl", "int") and b.sort in ("dbl", "int"):
            x = a.v if a.sort == "dbl" else r_of_int(a.v)
            y = b.v if b.sort == "dbl" else r_of_int(b.v)
            lt, eq = r_lt(x, y), r_eq(x, y)
            v = {"=": eq, "<>": Not(eq), "<": lt, "<=": Or(lt, eq), ">": And(Not(lt), Not(eq)), ">=": Not(lt)}[op]
            return SV("bool", v, Or(a.null, b.null))
        if "opaque" in (a.sort, b.sort):
            raise SqlOutside("comparison with an unmodelled text")
        return super().compare(a, b, op)

    # a DOUBLE whose text DuckDB would print with decimals: the TEXT is not modelled, the fact that it is a (non-NULL)
    # value is.  Sort `opaque` satisfies no clause about a specific value; clauses of the form "this is an error" are
    # refuted on it and the counter-model is replayed in the real DuckDB, which decides.
    def real_to_str(self, a: SV) -> SV:
        try:
            return super().real_to_str(a)
        except SqlOutside as e:
            if "non-integral DOUBLE" not in str(e):
                raise
            return SV("opaque", "non-integral DOUBLE rendered as text", a.null)

    def ev_DPipe(self, e: exp.DPipe, env: Dict[str, SV]) -> SV:
        a, b = self.eval(e.this, env), self.eval(e.expression, env)
        if "opaque" in (a.sort, b.sort):
            na = True if a.sort == "null" else a.null
            nb = True if b.sort == "null" else b.null
            return SV("opaque", "text with an unmodelled part", Or(na, nb))
        a, b = self.as_str(a), self.as_str(b)
        return SV("str", a.v + b.v, Or(a.null, b.null))

    # ISO year / week of a date built from valid civil fields: the field formulation (same function, simpler terms)
    def _iso_fields(self, a: SV) -> Optional[Tuple[Any, Any]]:
        from . import calendar as cal
        if is_sym(a.v) and a.v.sx in cal._CIVIL:
            y, m, d = cal._CIVIL[a.v.sx]
            return iso_year_week_fields(y, m, d, a.v)
        return None

    def ev_WeekOfYear(self, e: exp.WeekOfYear, env: Dict[str, SV]) -> SV:
        a = self._date_arg(e.this, env)
        f = self._iso_fields(a) if a.sort != "null" else None
        if f is None:
            return super().ev_WeekOfYear(e, env)
        return SV("int", f[1], a.null)

    def ev_Week(self, e: exp.Week, env: Dict[str, SV]) -> SV:
        a = self._date_arg(e.this, env)
        f = self._iso_fields(a) if a.sort != "null" else None
        if f is None:
            return super().ev_Week(e, env)
        return SV("int", f[1], a.null)

    def ev_Anonymous(self, e: exp.Anonymous, env: Dict[str, SV]) -> SV:
        if e.name.lower() == "isoyear":
            a = self._date_arg(e.expressions[0], env)
            f = self._iso_fields(a) if a.sort != "null" else None
            if f is not None:
                self.used_functions.add("isoyear")
                return SV("int", f[0], a.null)
        return super().ev_Anonymous(e, env)

    def field(self, base: SV, name: str) -> SV:
        if base.sort == "null":
            return NULL                    # a field of a NULL struct is NULL
        return super().field(base, name)

    def ev_Trunc(self, e: Any, env: Dict[str, SV]) -> SV:
        if e.args.get("decimals") is not None or e.args.get("expression") is not None:
            raise SqlOutside("TRUNC with a precision argument")
        a = self.eval(e.this, env)
        if a.sort == "null":
            return SV("dbl", Fraction(0), True)
        if a.sort == "int":
            return a
        if a.sort != "dbl":
            raise SqlOutside(f"TRUNC of {a.sort}")
        i = r_trunc_int(a.v)
        r = r_of_int(i)
        if is_sym(r):
            _TRUNC_INT[r.sx] = i
        return SV("dbl", r, a.null)

    def ev_Lower(self, e: exp.Lower, env: Dict[str, SV]) -> SV:
        a = self.eval(e.this, env)
        if a.sort == "null":
            return a
        if a.sort != "str":
            raise SqlOutside(f"LOWER of {a.sort}")
        out = []
        for c in a.v.chars:
            if isinstance(c, int):
                lc = chr(c).lower()
                out.append(ord(lc) if len(lc) == 1 and c < 128 else c)
                if c >= 128:
                    raise SqlOutside("LOWER of a non-ASCII character")
            else:
                out.append(Ite(And(Ge(c, 65), Le(c, 90)), Add(c, 32), c))
        return SV("str", CStr(out), a.null)

    def ev_SplitPart(self, e: exp.SplitPart, env: Dict[str, SV]) -> SV:
        a = self.eval(e.this, env)
        d = self.eval(e.args["delimiter"], env)
        k = self.eval(e.args["part_index"], env)
        if a.sort == "null":
            return SV("str", CStr([]), True)
        ds = d.v.concrete()
        if ds is None or len(ds) != 1 or not isinstance(k.v, int):
            raise SqlOutside("SPLIT_PART shape")
        dc = ord(ds)
        parts: List[List[Any]] = [[]]
        for c in a.v.chars:
            if is_sym(c) and c.sx in _PROV and not (48 <= dc <= 57):
                hit = False        # a character rendered from a decimal digit is not the delimiter
            else:
                hit = self.decide(Eq(c, dc))
            if hit:
                parts.append([])
            else:
                parts[-1].append(c)
        out = parts[k.v - 1] if 1 <= k.v <= len(parts) else []
        return SV("str", CStr(out), a.null)


# ----------------------------------------------------------------------------------------------------------------
# typed operands: VTL type name -> (SV for the model, SQL literal for the real DuckDB)
# ----------------------------------------------------------------------------------------------------------------
def typed_sv(vtl_type: str, value: Any) -> SV:
    if vtl_type in ("Integer",):
        return SV("int", 0 if value is None else int(value), value is None)
    if vtl_type == "Number":
        return SV("dbl", Fraction(0) if value is None else Fraction(value), value is None)
    if vtl_type == "Boolean":
        return SV("bool", bool(value) if value is not None else False, value is None)
    if vtl_type == "Date":
        z = 0 if value is None else (value - sqlconf.EPOCH).days
        return SV("ts", z, value is None)
    return SV("str", CStr.lit("" if value is None else str(value)), value is None)


def typed_sql(vtl_type: str, value: Any) -> str:
    duck = {"Integer": "BIGINT", "Number": "DOUBLE", "Boolean": "BOOLEAN", "Date": "TIMESTAMP"}.get(vtl_type, "VARCHAR")
    if value is None:
        return f"CAST(NULL AS {duck})"
    if vtl_type == "Integer":
        return f"CAST({int(value)} AS BIGINT)"
    if vtl_type == "Number":
        fr = Fraction(value)
        return f"(CAST({fr.numerator} AS DOUBLE) / CAST({fr.denominator} AS DOUBLE))"
    if vtl_type == "Boolean":
        return "TRUE" if value else "FALSE"
    if vtl_type == "Date":
        return f"CAST(DATE '{value.isoformat()}' AS TIMESTAMP)"
    return "CAST('" + str(value).replace("'", "''") + "' AS VARCHAR)"


def model_expr(eng: SqlEngine, sql: str, env: Dict[str, SV]) -> Tuple[str, Any]:
    paths = eng.explore(lambda: eng.eval_sql(sql, env))
    if len(paths) != 1:
        return ("model-forked", len(paths))
    p = paths[0]
    if p.kind == "value":
        v = p.value
        if v.sort == "null" or v.null is True:
            return ("value", None)
        if v.sort == "opaque":
            return ("outside", v.v)      # the model knows it is a value, not which: no conformance question
        if v.sort == "dbl":
            return ("value", float(Fraction(v.v)) if not is_sym(v.v) else ("?",))
        return ("value", sqlconf.from_sv(v))
    if p.kind == "error":
        return ("error", p.value if isinstance(p.value, str) else str(p.value))
    return ("outside", p.value)


def real_expr(sql: str, operand_sql: str, var: str = "x") -> Tuple[str, Any]:
    q = f'SELECT {sql} FROM (SELECT {operand_sql} AS "{var}")'
    try:
        return ("value", sqlconf.conn().execute(q).fetchone()[0])
    except Exception as e:  # noqa: BLE001
        return ("error", str(e).split("\n")[0])


def expr_conformance(eng: SqlEngine, cases: Sequence[Tuple[str, str, Any]], var: str = "x"
                     ) -> Tuple[int, int, List[str]]:
    """cases: (sql over column "x", VTL type of x, python value).  Returns (#checked, #model-declined, mismatches)."""
    bad: List[str] = []
    declined = n = 0
    for sql, vtype, value in cases:
        m = model_expr(eng, sql, {var: typed_sv(vtype, value)})
        r = real_expr(sql, typed_sql(vtype, value), var)
        n += 1
        if m[0] == "outside":
            declined += 1
            continue
        if r[0] == "value" and isinstance(r[1], datetime.datetime) and m[0] == "value" \
                and isinstance(m[1], datetime.date) and not isinstance(m[1], datetime.datetime):
            m = ("value", datetime.datetime.combine(m[1], datetime.time()))
        if not sqlconf.same(m, r):
            bad.append(f"{sql} with x = {value!r}: model {m} != DuckDB {r}")
    return n, declined, bad
