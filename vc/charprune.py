"""Solver-free feasibility pruning for path conditions over *character variables* with a small finite domain.

Used by engines whose symbolic inputs are character vectors (vc.loadvc): most branch conditions mention a single
character (`c5 = 45`, `48 <= c6 <= 57`, ...).  For those, feasibility of `assumptions /\\ pc /\\ cond` is decided exactly
by evaluating each single-variable conjunct on every code point of the domain; conjuncts over several variables are
brute-forced when the product of the remaining candidate sets is small, otherwise the question is handed back to the
SMT solver.  Only ever answers "infeasible" when that is certain (sound pruning); "feasible" answers are exact when no
multi-variable conjunct is left undecided, else the caller falls back to the solver.
"""
from __future__ import annotations

import itertools
import re
from typing import Any, Dict, List, Optional, Sequence, Set, Tuple

from .smt import T, is_sym

_TOK = re.compile(r"\(|\)|[^\s()]+")
_PARSED: Dict[str, Any] = {}


def parse(sx: str) -> Any:
    hit = _PARSED.get(sx)
    if hit is not None:
        return hit
    toks = _TOK.findall(sx)
    pos = 0

    def rd() -> Any:
        nonlocal pos
        t = toks[pos]
        pos += 1
        if t == "(":
            out = []
            while toks[pos] != ")":
                out.append(rd())
            pos += 1
            return out
        return t
    tree = rd()
    _PARSED[sx] = tree
    return tree


class Unsupported(Exception):
    pass


def ev(t: Any, env: Dict[str, int]) -> Any:  # noqa: C901
    if isinstance(t, str):
        if t == "true":
            return True
        if t == "false":
            return False
        if t.lstrip("-").isdigit():
            return int(t)
        if t in env:
            return env[t]
        raise Unsupported(t)
    op = t[0]
    if op == "and":
        return all(ev(x, env) for x in t[1:])
    if op == "or":
        return any(ev(x, env) for x in t[1:])
    if op == "not":
        return not ev(t[1], env)
    if op == "=>":
        return (not ev(t[1], env)) or ev(t[2], env)
    if op == "ite":
        return ev(t[2], env) if ev(t[1], env) else ev(t[3], env)
    a = [ev(x, env) for x in t[1:]]
    if op == "=":
        return all(x == a[0] for x in a[1:])
    if op == "distinct":
        return len(set(a)) == len(a)
    if op == "<=":
        return all(x <= y for x, y in zip(a, a[1:]))
    if op == "<":
        return all(x < y for x, y in zip(a, a[1:]))
    if op == ">=":
        return all(x >= y for x, y in zip(a, a[1:]))
    if op == ">":
        return all(x > y for x, y in zip(a, a[1:]))
    if op == "+":
        return sum(a)
    if op == "-":
        return -a[0] if len(a) == 1 else a[0] - sum(a[1:])
    if op == "*":
        r = 1
        for x in a:
            r *= x
        return r
    if op == "div":
        if a[1] == 0:
            raise Unsupported("div by zero")
        q = abs(a[0]) // abs(a[1])
        # SMT-LIB div: floor for positive divisor, ceiling for negative; remainder non-negative
        r = a[0] - a[1] * (a[0] // a[1])
        if a[1] > 0:
            return a[0] // a[1]
        return -(a[0] // -a[1])
    if op == "mod":
        if a[1] == 0:
            raise Unsupported("mod by zero")
        return a[0] % abs(a[1])
    raise Unsupported(op)


def _vars(t: Any, names: Set[str], out: Set[str]) -> None:
    if isinstance(t, str):
        if t in names:
            out.add(t)
        return
    for x in t:
        _vars(x, names, out)


def nnf(t: Any, neg: bool) -> Any:
    """Negation normal form over and / or / not / => ; everything else is an atom (negated atoms stay `(not atom)`)."""
    if isinstance(t, list) and t:
        op = t[0]
        if op == "not":
            return nnf(t[1], not neg)
        if op in ("and", "or"):
            flip = {"and": "or", "or": "and"}[op] if neg else op
            return [flip] + [nnf(x, neg) for x in t[1:]]
        if op == "=>":
            return nnf(["or", ["not", t[1]], t[2]], neg)
    if t == "true":
        return "false" if neg else "true"
    if t == "false":
        return "true" if neg else "false"
    return ["not", t] if neg else t


def conjuncts(conds: Sequence[Any]) -> Optional[List[Any]]:
    """Flattened list of parsed conjuncts; None when a condition is the constant False."""
    out: List[Any] = []
    for c in conds:
        if not is_sym(c):
            if not c:
                return None
            continue
        stack = [parse(c.sx)]
        while stack:
            t = stack.pop()
            if isinstance(t, list) and t and t[0] == "and":
                stack.extend(t[1:])
            else:
                out.append(t)
    return out


class CharPruner:
    def __init__(self, names: Sequence[str], lo: int = 32, hi: int = 126, product_limit: int = 4000) -> None:
        self.names = set(names)
        self.dom = list(range(lo, hi + 1))
        self.limit = product_limit
        self.cache: Dict[Tuple[str, ...], Optional[bool]] = {}
        self.decided = 0
        self.handed_back = 0
        self._vcache: Dict[str, frozenset] = {}
        self._pcache: Dict[str, frozenset] = {}
        self._ccache: Dict[str, Any] = {}
        self._nodes = 0

    def feasible(self, conds: Sequence[Any], focus: Any = None) -> Optional[bool]:
        """True / False when decided exactly, None when the solver has to look.  `focus` = the newly added condition:
        only the conjuncts connected to it through shared character variables are examined (the rest of the path
        condition was found feasible when it was built, or is examined by the solver at the end; dropping it can only
        turn an 'infeasible' answer into 'feasible', never the other way round)."""
        key = tuple(sorted(c.sx if is_sym(c) else str(bool(c)) for c in conds)) + ((focus.sx,) if is_sym(focus) else ())
        if key in self.cache:
            return self.cache[key]
        r = self._feasible(conds, focus)
        self.cache[key] = r
        if r is None:
            self.handed_back += 1
        else:
            self.decided += 1
        return r

    def _feasible(self, conds: Sequence[Any], focus: Any = None) -> Optional[bool]:
        cj = conjuncts(list(conds) + ([focus] if focus is not None else []))
        if cj is None:
            return False
        cj = [nnf(t, False) for t in cj]
        if is_sym(focus):
            fv: Set[str] = set()
            _vars(parse(focus.sx), self.names, fv)
            vsets = []
            for t in cj:
                vs: Set[str] = set()
                _vars(t, self.names, vs)
                vsets.append(vs)
            reach = set(fv)
            changed = True
            while changed:
                changed = False
                for vs in vsets:
                    if vs & reach and not vs <= reach:
                        reach |= vs
                        changed = True
            cj = [t for t, vs in zip(cj, vsets) if (vs & reach) or not vs]
        self._budget = 400
        return self._solve(cj)

    # -- set-based decision -----------------------------------------------------------------------------------------
    def _key(self, t: Any) -> str:
        return t if isinstance(t, str) else "(" + " ".join(self._key(x) for x in t) + ")"

    def _tvars(self, t: Any, key: str) -> frozenset:
        hit = self._vcache.get(key)
        if hit is None:
            vs: Set[str] = set()
            _vars(t, self.names, vs)
            hit = self._vcache[key] = frozenset(vs)
        return hit

    def _points(self, t: Any, key: str, v: str) -> frozenset:
        """domain points of the single variable v that satisfy t (cached per conjunct text)."""
        hit = self._pcache.get(key)
        if hit is None:
            hit = self._pcache[key] = frozenset(x for x in self.dom if ev(t, {v: x}))
        return hit

    def _as_cube(self, t: Any) -> Optional[Dict[str, frozenset]]:
        """t as a conjunction of single-variable constraints {var: allowed points}; None if it is not of that form."""
        parts = []
        stack = [t]
        while stack:
            x = stack.pop()
            if isinstance(x, list) and x and x[0] == "and":
                stack.extend(x[1:])
            else:
                parts.append(x)
        cube: Dict[str, frozenset] = {}
        for x in parts:
            k = self._key(x)
            vs = self._tvars(x, k)
            if len(vs) == 0:
                if not ev(x, {}):
                    return {"": frozenset()}
                continue
            if len(vs) != 1:
                return None
            v = next(iter(vs))
            pts = self._points(x, k, v)
            cube[v] = cube[v] & pts if v in cube else pts
        return cube

    def _to_cubes(self, t: Any, cap: int) -> Optional[List[Dict[str, frozenset]]]:
        """t in disjunctive normal form over single-variable constraints (a list of cubes), or None when t contains an
        atom over several variables or the expansion exceeds `cap` cubes.  A subformula over ONE variable is a literal
        whatever its boolean structure (it is evaluated pointwise)."""
        key = self._key(t)
        hit = self._ccache.get(key, 0)
        if hit != 0:
            return hit
        vs = self._tvars(t, key)
        res: Optional[List[Dict[str, frozenset]]]
        if len(vs) == 0:
            res = [{}] if ev(t, {}) else []
        elif len(vs) == 1:
            v = next(iter(vs))
            pts = self._points(t, key, v)
            res = [{v: pts}] if pts else []
        elif isinstance(t, list) and t and t[0] == "or":
            res = []
            for d in t[1:]:
                c = self._to_cubes(d, cap)
                if c is None or len(res) + len(c) > cap:
                    res = None
                    break
                res.extend(c)
        elif isinstance(t, list) and t and t[0] == "and":
            res = [{}]
            for d in t[1:]:
                c = self._to_cubes(d, cap)
                if c is None or len(res) * max(len(c), 1) > cap:
                    res = None
                    break
                nxt = []
                for a in res:
                    for b in c:
                        m = dict(a)
                        ok = True
                        for v, s_ in b.items():
                            m[v] = m[v] & s_ if v in m else s_
                            if not m[v]:
                                ok = False
                                break
                        if ok:
                            nxt.append(m)
                res = nxt
        else:
            res = None
        self._ccache[key] = res
        return res

    def _solve(self, cj0: List[Any]) -> Optional[bool]:
        full = frozenset(self.dom)
        cand: Dict[str, frozenset] = {}
        ors: List[List[Dict[str, frozenset]]] = []
        multi: List[Tuple[Any, frozenset]] = []
        stack = list(cj0)
        try:
            while stack:
                t = stack.pop()
                if isinstance(t, list) and t and t[0] == "and":
                    stack.extend(t[1:])
                    continue
                k = self._key(t)
                vs = self._tvars(t, k)
                if len(vs) == 0:
                    if not ev(t, {}):
                        return False
                elif len(vs) == 1:
                    v = next(iter(vs))
                    cand[v] = cand.get(v, full) & self._points(t, k, v)
                    if not cand[v]:
                        return False
                elif isinstance(t, list) and t[0] == "or":
                    ds: List[Any] = []
                    st2 = list(t[1:])
                    while st2:
                        d = st2.pop()
                        if isinstance(d, list) and d and d[0] == "or":
                            st2.extend(d[1:])
                        else:
                            ds.append(d)
                    cubes = self._to_cubes(t, 256)
                    if cubes is None:
                        multi.append((t, vs))
                    else:
                        ors.append(cubes)
                else:
                    multi.append((t, vs))
        except Unsupported:
            return None
        self._nodes = 0
        return self._dpll(cand, ors, multi, full)

    def _dpll(self, cand: Dict[str, frozenset], ors: List[List[Dict[str, frozenset]]],
              multi: List[Tuple[Any, frozenset]], full: frozenset) -> Optional[bool]:
        self._nodes += 1
        if self._nodes > 3000:
            return None
        cand = dict(cand)
        ors = list(ors)
        while True:
            again = False
            rest = []
            for o in ors:
                live = [d for d in o if all(cand.get(v, full) & s_ for v, s_ in d.items())]
                if not live:
                    return False
                if any(all(cand.get(v, full) <= s_ for v, s_ in d.items()) for d in live):
                    continue                      # already satisfied whatever else is chosen
                if len(live) == 1:
                    for v, s_ in live[0].items():
                        cand[v] = cand.get(v, full) & s_
                    again = True
                    continue
                rest.append(live)
            ors = rest
            if not again:
                break
        if ors:
            ors.sort(key=len)
            first, others = ors[0], ors[1:]
            unknown = False
            for d in first:
                c2 = dict(cand)
                for v, s_ in d.items():
                    c2[v] = c2.get(v, full) & s_
                r = self._dpll(c2, others, multi, full)
                if r is True:
                    return True
                if r is None:
                    unknown = True
            return None if unknown else False
        if not multi:
            return True
        # remaining multi-variable atoms: brute force per connected group of variables when small enough
        groups: List[Tuple[Set[str], List[Any]]] = []
        for t, vs in multi:
            g = (set(vs), [t])
            keep = []
            for h in groups:
                if h[0] & g[0]:
                    g = (g[0] | h[0], g[1] + h[1])
                else:
                    keep.append(h)
            groups = keep + [g]
        unknown = False
        for vs_, ts in groups:
            mvars = sorted(vs_)
            size = 1
            for v in mvars:
                size *= len(cand.get(v, full))
            if size > self.limit:
                unknown = True
                continue
            doms = [sorted(cand.get(v, full)) for v in mvars]
            ok = False
            try:
                for vals in itertools.product(*doms):
                    env = dict(zip(mvars, vals))
                    if all(ev(t, env) for t in ts):
                        ok = True
                        break
            except Unsupported:
                unknown = True
                continue
            if not ok:
                return False
        return None if unknown else True
