"""Solver-free feasibility pruning for path conditions over *character variables* with a small finite domain.

Used by engines whose symbolic inputs are character vectors (vc.loadvc): most branch conditions mention a single
character (`c5 = 45`, `48 <= c6 <= 57`, ...).  For those, feasibility of `assumptions /\\ pc /\\ cond` is decided exactly
by evaluating each single-variable conjunct on every code point of the domain; conjuncts over several variables are
brute-forced when the product of the remaining candidate sets is small, otherwise the question is handed back to the
SMT solver.  Only ever answers "infeasible" when that is certain (sound pruning); "feasible" answers are exact when no
multi-variable conjunct is left undecided, else the caller falls back to the solver.
"""
from __future__ import annotations

import itertools
import re
from typing import Any, Dict, List, Optional, Sequence, Set, Tuple

from .smt import T, is_sym

_TOK = re.compile(r"\(|\)|[^\s()]+")
_PARSED: Dict[str, Any] = {}


def parse(sx: str) -> Any:
    hit = _PARSED.get(sx)
    if hit is not None:
        return hit
    toks = _TOK.findall(sx)
    pos = 0

    def rd() -> Any:
        nonlocal pos
        t = toks[pos]
        pos += 1
        if t == "(":
            out = []
            while toks[pos] != ")":
                out.append(rd())
            pos += 1
            return out
        return t
    tree = rd()
    _PARSED[sx] = tree
    return tree


class Unsupported(Exception):
    pass


def ev(t: Any, env: Dict[str, int]) -> Any:  # noqa: C901
    if isinstance(t, str):
        if t == "true":
            return True
        if t == "false":
            return False
        if t.lstrip("-").isdigit():
            return int(t)
        if t in env:
            return env[t]
        raise Unsupported(t)
    op = t[0]
    if op == "and":
        return all(ev(x, env) for x in t[1:])
    if op == "or":
        return any(ev(x, env) for x in t[1:])
    if op == "not":
        return not ev(t[1], env)
    if op == "=>":
        return (not ev(t[1], env)) or ev(t[2], env)
    if op == "ite":
        return ev(t[2], env) if ev(t[1], env) else ev(t[3], env)
    a = [ev(x, env) for x in t[1:]]
    if op == "=":
        return all(x == a[0] for x in a[1:])
    if op == "distinct":
        return len(set(a)) == len(a)
    if op == "<=":
        return all(x <= y for x, y in zip(a, a[1:]))
    if op == "<":
        return all(x < y for x, y in zip(a, a[1:]))
    if op == ">=":
        return all(x >= y for x, y in zip(a, a[1:]))
    if op == ">":
        return all(x > y for x, y in zip(a, a[1:]))
    if op == "+":
        return sum(a)
    if op == "-":
        return -a[0] if len(a) == 1 else a[0] - sum(a[1:])
    if op == "*":
        r = 1
        for x in a:
            r *= x
        return r
    if op == "div":
        if a[1] == 0:
            raise Unsupported("div by zero")
        q = abs(a[0]) // abs(a[1])
        # SMT-LIB div: floor for positive divisor, ceiling for negative; remainder non-negative
        r = a[0] - a[1] * (a[0] // a[1])
        if a[1] > 0:
            return a[0] // a[1]
        return -(a[0] // -a[1])
    if op == "mod":
        if a[1] == 0:
            raise Unsupported("mod by zero")
        return a[0] % abs(a[1])
    raise Unsupported(op)


def _vars(t: Any, names: Set[str], out: Set[str]) -> None:
    if isinstance(t, str):
        if t in names:
            out.add(t)
        return
    for x in t:
        _vars(x, names, out)


def nnf(t: Any, neg: bool) -> Any:
    """Negation normal form over and / or / not / => ; everything else is an atom (negated atoms stay `(not atom)`)."""
    if isinstance(t, list) and t:
        op = t[0]
        if op == "not":
            return nnf(t[1], not neg)
        if op in ("and", "or"):
            flip = {"and": "or", "or": "and"}[op] if neg else op
            return [flip] + [nnf(x, neg) for x in t[1:]]
        if op == "=>":
            return nnf(["or", ["not", t[1]], t[2]], neg)
    if t == "true":
        return "false" if neg else "true"
    if t == "false":
        return "true" if neg else "false"
    return ["not", t] if neg else t


def conjuncts(conds: Sequence[Any]) -> Optional[List[Any]]:
    """Flattened list of parsed conjuncts; None when a condition is the constant False."""
    out: List[Any] = []
    for c in conds:
        if not is_sym(c):
            if not c:
                return None
            continue
        stack = [parse(c.sx)]
        while stack:
            t = stack.pop()
            if isinstance(t, list) and t and t[0] == "and":
                stack.extend(t[1:])
            else:
                out.append(t)
    return out


class CharPruner:
    def __init__(self, names: Sequence[str], lo: int = 32, hi: int = 126, product_limit: int = 4000) -> None:
        self.names = set(names)
        self.dom = list(range(lo, hi + 1))
        self.limit = product_limit
        self.cache: Dict[Tuple[str, ...], Optional[bool]] = {}
        self.decided = 0
        self.handed_back = 0

    def feasible(self, conds: Sequence[Any]) -> Optional[bool]:
        """True / False when decided exactly, None when the solver has to look."""
        key = tuple(sorted(c.sx if is_sym(c) else str(bool(c)) for c in conds))
        if key in self.cache:
            return self.cache[key]
        r = self._feasible(conds)
        self.cache[key] = r
        if r is None:
            self.handed_back += 1
        else:
            self.decided += 1
        return r

    def _feasible(self, conds: Sequence[Any]) -> Optional[bool]:
        cj = conjuncts(conds)
        if cj is None:
            return False
        self._budget = 400
        return self._solve([nnf(t, False) for t in cj])

    def _solve(self, cj0: List[Any]) -> Optional[bool]:
        """Case split on disjunctions (after negation normal form), then the single-/multi-variable decision."""
        cj: List[Any] = []
        stack = list(cj0)
        while stack:
            t = stack.pop()
            if isinstance(t, list) and t and t[0] == "and":
                stack.extend(t[1:])
            else:
                cj.append(t)
        for i, t in enumerate(cj):
            if isinstance(t, list) and t and t[0] == "or":
                vs: Set[str] = set()
                _vars(t, self.names, vs)
                if len(vs) <= 1:
                    continue            # a disjunction over one character is evaluated pointwise below
                rest = cj[:i] + cj[i + 1:]
                unknown = False
                for d in t[1:]:
                    self._budget -= 1
                    if self._budget < 0:
                        return None
                    r = self._solve(rest + [d])
                    if r is True:
                        return True
                    if r is None:
                        unknown = True
                return None if unknown else False
        return self._decide(cj)

    def _decide(self, cj: List[Any]) -> Optional[bool]:
        single: Dict[str, List[Any]] = {}
        multi: List[Tuple[Any, Tuple[str, ...]]] = []
        for t in cj:
            vs: Set[str] = set()
            _vars(t, self.names, vs)
            if len(vs) == 1:
                single.setdefault(next(iter(vs)), []).append(t)
            elif len(vs) == 0:
                try:
                    if not ev(t, {}):
                        return False
                except Unsupported:
                    return None
            else:
                multi.append((t, tuple(sorted(vs))))
        cand: Dict[str, List[int]] = {}
        try:
            for v, ts in single.items():
                cand[v] = [x for x in self.dom if all(ev(t, {v: x}) for t in ts)]
                if not cand[v]:
                    return False
        except Unsupported:
            return None
        if not multi:
            return True
        # brute force the multi-variable conjuncts over the variables they mention, when small enough
        mvars = sorted({v for _t, vs in multi for v in vs})
        size = 1
        for v in mvars:
            size *= len(cand.get(v, self.dom))
            if size > self.limit:
                return None
        doms = [cand.get(v, self.dom) for v in mvars]
        try:
            for vals in itertools.product(*doms):
                env = dict(zip(mvars, vals))
                if all(ev(t, env) for t, _vs in multi):
                    return True
        except Unsupported:
            return None
        return False
