"""vc.charprune.CharPruner with per-condition caching (additive; same answers).

The path conditions of the string engines repeat the same (large) formulas thousands of times: the parsed / NNF'd
conjuncts of a condition, their variable sets and their text keys are computed once per distinct condition text here.
The decision procedure itself (`_solve`, `_dpll`) is inherited unchanged.
"""
from __future__ import annotations

from typing import Any, Dict, List, Optional, Sequence, Set, Tuple

from .charprune import CharPruner, _vars, nnf, parse
from .smt import is_sym


class FastPruner(CharPruner):
    def __init__(self, *a: Any, **k: Any) -> None:
        super().__init__(*a, **k)
        self._cc: Dict[str, List[Tuple[Any, frozenset]]] = {}     # condition text -> [(nnf conjunct, variables)]
        self._kc: Dict[int, str] = {}                              # id(tree) -> text key (trees are kept alive by _cc)

    def _conj(self, sx: str) -> List[Tuple[Any, frozenset]]:
        hit = self._cc.get(sx)
        if hit is None:
            out: List[Tuple[Any, frozenset]] = []
            stack = [nnf(parse(sx), False)]
            while stack:
                t = stack.pop()
                if isinstance(t, list) and t and t[0] == "and":
                    stack.extend(t[1:])
                else:
                    vs: Set[str] = set()
                    _vars(t, self.names, vs)
                    out.append((t, frozenset(vs)))
            hit = self._cc[sx] = out
        return hit

    def _key(self, t: Any) -> str:
        if isinstance(t, str):
            return t
        k = self._kc.get(id(t))
        if k is None:
            k = "(" + " ".join(self._key(x) for x in t) + ")"
            if len(self._kc) < 2_000_000:
                self._kc[id(t)] = k
        return k

    def _feasible(self, conds: Sequence[Any], focus: Any = None) -> Optional[bool]:
        items: List[Tuple[Any, frozenset]] = []
        for c in list(conds) + ([focus] if focus is not None else []):
            if not is_sym(c):
                if not c:
                    return False
                continue
            items.extend(self._conj(c.sx))
        if is_sym(focus):
            reach: Set[str] = set()
            for _t, vs in self._conj(focus.sx):
                reach |= vs
            changed = True
            while changed:
                changed = False
                for _t, vs in items:
                    if vs and not vs <= reach and vs & reach:
                        reach |= vs
                        changed = True
            items = [(t, vs) for t, vs in items if (vs & reach) or not vs]
        self._budget = 400
        return self._solve([t for t, _vs in items])
