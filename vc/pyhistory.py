"""E3c `pyhistory`: strong exception safety of PROCESS-GLOBAL state across API calls ("a later call behaves as if the
failed call never happened").

Structural obligations on the AST of the real tree (re-read on every run) over the shared-state frames and the
receiver-class-sensitive call graph of `vc.pyshared` (reused, not duplicated).  No path of the code is executed; callee
failures are modelled as "every call may raise any exception", i.e. an exception edge leaves every statement.

For a shared location L (module global / class attribute) that some function reachable from the API entry points
REBINDS and some reachable function READS, one of the following must hold.

  (B) re-initialised before every read:  every read of L that an entry point can reach is dominated, within the same API
      call, by a store to L.  Must-analysis over the statement trees:
        pre[s]       L has certainly been stored in this activation before statement s starts (If: both branches;
                     loops: body may run zero times; Try: a handler starts from the state before the try; a branch that
                     ends in raise/return/continue/break does not fall through; a call stores L when EVERY function
                     the call site may reach stores L on each of its normal exits, generator context managers up to
                     their `yield`),
        fresh[f]     greatest fixpoint: every call site of f that an entry reaches lies at a point where L is stored
                     (pre) or in a caller that is itself fresh; entry points and implicitly called dunder methods are
                     never fresh,
      a read in f at statement s is safe iff fresh[f] or pre[s].  The dispatcher `visit(node)` (getattr(self, "visit_" +
      type(node).__name__)) is resolved to `visit_<N>` where the argument's class N is known from the return annotation
      of the function that produced it (create_ast(..) -> Start), so that `interpreter.visit(ast)` is a call of
      visit_Start only.
  (A) reset on every exit:  every store of a non-neutral value (neutral = the initial value in the class / module body)
      lies inside a `try` whose `finally` - not merely an `except <SomeError>` - stores the neutral value again (directly,
      by a function that does nothing but that, or by restoring a local saved from L before the try), or is immediately
      followed by such a try (`L = v; try: .. finally: L = None`), in the storing function itself or at every call site
      on every call chain from the entry points (greatest fixpoint).
Locations that are written but never read on any path from an entry point are not observable and accepted.
In-place mutations of shared containers (memo tables, registries) are NOT part of this clause (see vc.pyshared / C17).
"""
from __future__ import annotations

import ast
from dataclasses import dataclass, field
from typing import Any, Dict, List, Optional, Sequence, Set, Tuple

from .pyshared import CTOR_FAMILY, Access, Program, _FnWalker

Key = Tuple[str, str]
Node = Tuple[Key, Optional[Key]]            # (function, class of its receiver or None)
_TERMINAL = (ast.Return, ast.Raise, ast.Continue, ast.Break)


@dataclass
class Site:
    """One storing function of one location."""
    loc: str
    fn: Key
    lines: List[int]
    status: str = ""              # ok-A | ok-B | ok-no-reader | ok-neutral | refuted
    why: str = ""
    first_store_line: int = 0
    unsafe_reads: List[str] = field(default_factory=list)
    unsafe_chain: List[str] = field(default_factory=list)     # call chain to the first unsafe read with no store on the way
    chain: List[str] = field(default_factory=list)


def _blocks(st: ast.AST) -> List[List[ast.stmt]]:
    out: List[List[ast.stmt]] = []
    for name in ("body", "orelse", "finalbody"):
        v = getattr(st, name, None)
        if isinstance(v, list) and v and isinstance(v[0], ast.stmt):
            out.append(v)
    for h in getattr(st, "handlers", []) or []:
        out.append(h.body)
    for c in getattr(st, "cases", []) or []:
        out.append(c.body)
    return out


def _span(st: ast.AST) -> Tuple[int, int]:
    return getattr(st, "lineno", 0), getattr(st, "end_lineno", getattr(st, "lineno", 0))


def innermost_stmt(fn_node: ast.AST, line: int) -> Optional[ast.stmt]:
    """The innermost statement of the function whose span contains the line (the compound statement itself when the line
    is in its header)."""
    best: Optional[ast.stmt] = None
    todo: List[ast.stmt] = list(getattr(fn_node, "body", []))
    while todo:
        st = todo.pop()
        lo, hi = _span(st)
        if lo <= line <= hi:
            if best is None or (_span(best)[1] - _span(best)[0]) >= (hi - lo):
                best = st
            for b in _blocks(st):
                todo.extend(b)
    return best


def _stmt_of(node: ast.AST, fn_node: ast.AST) -> Optional[ast.stmt]:
    cur: Optional[ast.AST] = node
    while cur is not None and cur is not fn_node:
        if isinstance(cur, ast.stmt):
            return cur
        cur = getattr(cur, "_parent", None)
    return None


def _unconditional_calls(st: ast.stmt) -> Set[int]:
    """ids of the Call nodes that are certainly evaluated when the (header of the) statement is executed."""
    out: Set[int] = set()

    def walk(e: ast.AST, cond: bool) -> None:
        if isinstance(e, (ast.Lambda, ast.FunctionDef, ast.AsyncFunctionDef, ast.ClassDef, ast.ListComp, ast.SetComp,
                          ast.DictComp, ast.GeneratorExp)):
            return
        if isinstance(e, ast.Call) and not cond:
            out.add(id(e))
        if isinstance(e, ast.IfExp):
            walk(e.test, cond)
            walk(e.body, True)
            walk(e.orelse, True)
            return
        if isinstance(e, ast.BoolOp):
            for i, v in enumerate(e.values):
                walk(v, cond or i > 0)
            return
        for ch in ast.iter_child_nodes(e):
            if isinstance(ch, ast.stmt) or isinstance(ch, ast.ExceptHandler):
                continue                           # header only
            walk(ch, cond)

    if isinstance(st, (ast.With, ast.AsyncWith)):
        for it in st.items:
            walk(it.context_expr, False)
    elif isinstance(st, (ast.If, ast.While)):
        walk(st.test, False)
    elif isinstance(st, (ast.For, ast.AsyncFor)):
        walk(st.iter, False)
    elif isinstance(st, (ast.Try, ast.FunctionDef, ast.AsyncFunctionDef, ast.ClassDef)):
        pass
    else:
        walk(st, False)
    return out


class History:
    def __init__(self, prog: Program, entries: Sequence[Key]) -> None:
        self.p = prog
        self.entries = [e for e in entries if e in prog.fns]
        self.out: Dict[Node, List[Tuple[Node, ast.AST]]] = {}
        self.roots: Set[Node] = set()
        self.reachable: Set[Node] = set()
        self.inc: Dict[Node, List[Tuple[Node, ast.AST]]] = {}
        self.notes: List[str] = []
        self._dispatchers: Dict[Key, Optional[str]] = {}
        self._build()

    # ------------------------------------------------------------------------------------------------ call graph
    def _edges(self, node: Node) -> List[Tuple[Node, ast.AST]]:
        if node not in self.out:
            key, rk = node
            fi = self.p.fns[key]
            rcls = self.p.classes.get(rk) if rk is not None else None
            if rcls is not None and fi.cls is not None and fi.cls not in rcls.hierarchy():
                rcls = None
            sink: List[Tuple[Key, Optional[Key], Any]] = []
            w = _FnWalker(self.p, fi, rcls, sink)
            w.sink_sites = []                                    # type: ignore[attr-defined]
            w.run()
            edges = [((callee, crk), site) for (callee, crk, _lk), site in zip(sink, w.sink_sites)]  # type: ignore[attr-defined]
            self.out[node] = self._mro_filter(fi, self._expand_receivers(fi, self._typed_dispatch(fi, edges)))
        return self.out[node]

    def _mro_filter(self, caller: Any, edges: List[Tuple[Node, ast.AST]]) -> List[Tuple[Node, ast.AST]]:
        """`R.m(..)` / `cls.m(..)` with the receiver class R known (R or one of its subclasses) enters the definition of m
        that the MRO of that class selects - not the overridden ones further up, which only `super().m(..)` reaches."""
        out: List[Tuple[Node, ast.AST]] = []
        for (callee, rk), site in edges:
            fi = self.p.fns[callee]
            rcls = self.p.classes.get(rk) if rk is not None else None
            func = site.func if isinstance(site, ast.Call) else None
            is_super = isinstance(func, ast.Attribute) and isinstance(func.value, ast.Call) \
                and isinstance(func.value.func, ast.Name) and func.value.func.id == "super"
            if is_super and rcls is not None and caller.cls is not None and isinstance(func, ast.Attribute) \
                    and caller.cls in rcls.mro():
                # super().m(..) in a method of class D with receiver class R: the next definition of m after D in R's MRO
                mro = rcls.mro()
                nxt = next((k.methods[func.attr] for k in mro[mro.index(caller.cls) + 1:] if func.attr in k.methods), None)
                if nxt is not None and nxt is not fi:
                    continue
            if rcls is not None and fi.cls is not None and not is_super and isinstance(func, ast.Attribute) \
                    and func.attr == fi.node.name and fi.node.name not in CTOR_FAMILY:      # type: ignore[attr-defined]
                selected = False
                for c in [rcls] + rcls.descendants():
                    for k in c.mro():
                        if func.attr in k.methods:
                            selected = selected or k.methods[func.attr] is fi
                            break
                    if selected:
                        break
                if not selected:
                    continue
            out.append(((callee, rk), site))
        return out

    def receiver_set(self, key: Key) -> List[Key]:
        """Classes R for which a call `R.<name>` / `<instance of R>.<name>` is resolved by the MRO to THIS function."""
        memo = self.__dict__.setdefault("_rs", {})
        if key not in memo:
            fi = self.p.fns[key]
            name = fi.node.name                                              # type: ignore[attr-defined]
            out: List[Key] = []
            if fi.cls is not None:
                for c in [fi.cls] + fi.cls.descendants():
                    for k in c.mro():
                        if name in k.methods:
                            if k.methods[name] is fi:
                                out.append((c.rel, c.name))
                            break
            memo[key] = out
        return memo[key]

    def _expand_receivers(self, caller: Any, edges: List[Tuple[Node, ast.AST]]) -> List[Tuple[Node, ast.AST]]:
        """Every method node carries ONE exact receiver class: a method reached through a receiver of unknown class (table
        dispatch, by-name resolution) or of a class known up to subclassing is entered once per class whose MRO resolves
        the name to it; `self.m()` / `cls.m()` / `super().m()` keep the receiver of the caller.  So `cls.attr` / `cls.m()`
        inside it are resolved for exactly that class."""
        out: List[Tuple[Node, ast.AST]] = []
        args = getattr(caller.node, "args", None)
        me = args.args[0].arg if args is not None and args.args and caller.cls is not None \
            and caller.kind in ("method", "classmethod", "property") else None
        for (callee, rk), site in edges:
            fi = self.p.fns[callee]
            if fi.cls is not None and fi.kind in ("method", "classmethod", "property"):
                func = site.func if isinstance(site, ast.Call) else site
                base = func.value if isinstance(func, ast.Attribute) else None
                same_receiver = (isinstance(base, ast.Name) and base.id == me) or (
                    isinstance(base, ast.Call) and isinstance(base.func, ast.Name) and base.func.id == "super")
                if rk is None:
                    rs = self.receiver_set(callee)
                elif same_receiver:
                    rs = [rk]                                   # the caller's own receiver: already one exact class
                else:
                    rcls = self.p.classes.get(rk)
                    mine = set(self.receiver_set(callee))
                    rs = [k for k in ([rk] + [(c.rel, c.name) for c in rcls.descendants()] if rcls else [rk]) if k in mine]
                    if not rs:
                        continue                                # the MRO of no such receiver selects this definition
                if rs:
                    out.extend(((callee, r), site) for r in rs)
                    continue
            out.append(((callee, rk), site))
        return out

    def dispatcher_prefix(self, key: Key) -> Optional[str]:
        """`visit_` when the function is  m = "<prefix>" + type(<param>).__name__ ; getattr(self, m, ..)(<param>)."""
        if key not in self._dispatchers:
            pref: Optional[str] = None
            node = self.p.fns[key].node
            for n in ast.walk(node):
                if isinstance(n, ast.BinOp) and isinstance(n.op, ast.Add) and isinstance(n.left, ast.Constant) \
                        and isinstance(n.left.value, str) and isinstance(n.right, ast.Attribute) and n.right.attr == "__name__" \
                        and isinstance(n.right.value, ast.Call) and isinstance(n.right.value.func, ast.Name) \
                        and n.right.value.func.id == "type":
                    pref = n.left.value
            if pref is not None and not any(isinstance(n, ast.Call) and isinstance(n.func, ast.Name) and n.func.id == "getattr"
                                            for n in ast.walk(node)):
                pref = None
            self._dispatchers[key] = pref
        return self._dispatchers[key]

    def _static_class_name(self, fi: Any, e: ast.AST, depth: int = 0) -> Optional[str]:
        """Name of the class of the value of `e` when it is fixed by a return annotation (through copy / deepcopy)."""
        if depth > 4:
            return None
        if isinstance(e, ast.Call):
            fname = e.func.attr if isinstance(e.func, ast.Attribute) else e.func.id if isinstance(e.func, ast.Name) else ""
            if fname in ("deepcopy", "copy") and len(e.args) == 1:
                return self._static_class_name(fi, e.args[0], depth + 1)
            if isinstance(e.func, ast.Name):
                b = self.p.lookup(fi.rel, e.func.id)
                if b is not None and b[0] == "func" and b[1] in self.p.fns:
                    ret = getattr(self.p.fns[b[1]].node, "returns", None)
                    if isinstance(ret, ast.Name):
                        return ret.id
                    if isinstance(ret, ast.Attribute):
                        return ret.attr
            return None
        if isinstance(e, ast.Name):
            assigns = [n for n in ast.walk(fi.node) if isinstance(n, ast.Assign) and any(
                isinstance(t, ast.Name) and t.id == e.id for t in n.targets)]
            others = [n for n in ast.walk(fi.node) if isinstance(n, ast.Name) and n.id == e.id
                      and isinstance(n.ctx, ast.Store)]
            if len(assigns) == 1 and len(others) == 1:
                return self._static_class_name(fi, assigns[0].value, depth + 1)
        return None

    def _typed_dispatch(self, fi: Any, edges: List[Tuple[Node, ast.AST]]) -> List[Tuple[Node, ast.AST]]:
        out: List[Tuple[Node, ast.AST]] = []
        for (callee, rk), site in edges:
            pref = self.dispatcher_prefix(callee) if isinstance(site, ast.Call) else None
            cname = self._static_class_name(fi, site.args[0]) if pref and isinstance(site, ast.Call) and site.args else None
            rcls = self.p.classes.get(rk) if rk is not None else None
            if pref and cname and rcls is not None:
                target = next((c.methods[pref + cname] for c in rcls.mro() if pref + cname in c.methods), None)
                if target is not None:
                    out.append(((target.key, rk), site))
                    note = f"{fi.rel}:{fi.qualname}:{getattr(site, 'lineno', 0)} {ast.unparse(site)[:50]} -> {target.qualname}"
                    if note not in self.notes:
                        self.notes.append(note)
                    continue
            out.append(((callee, rk), site))
        return out

    def _build(self) -> None:
        todo: List[Node] = []
        for e in self.entries:
            self.roots.add((e, None))
        for fi in self.p.fns.values():
            n = fi.qualname.split(".")[-1]
            if fi.cls is not None and n.startswith("__") and n.endswith("__") and n not in CTOR_FAMILY and n != "__call__":
                rs = self.receiver_set(fi.key) if fi.kind in ("method", "classmethod", "property") else []
                for r in rs or [None]:
                    self.roots.add((fi.key, r))
        todo = list(self.roots)
        while todo:
            nd = todo.pop()
            if nd in self.reachable:
                continue
            self.reachable.add(nd)
            for callee, site in self._edges(nd):
                self.inc.setdefault(callee, []).append((nd, site))
                if callee not in self.reachable:
                    todo.append(callee)
        self.by_fn: Dict[Key, List[Node]] = {}
        for nd in self.reachable:
            self.by_fn.setdefault(nd[0], []).append(nd)

    # ------------------------------------------------------------------------------------------------ locations
    def locations(self) -> Dict[str, Dict[str, List[Access]]]:
        """loc -> {'W': rebinding stores, 'R': reads} over the functions reachable from the entries."""
        out: Dict[str, Dict[str, List[Access]]] = {}
        for key in self.by_fn:
            for a in self.p.accesses.get(key, []):
                if a.loc.startswith(("cpp:", "os.")) or a.loc.endswith("[lru_cache]"):
                    continue
                if a.kind == "W" and a.content:
                    continue
                out.setdefault(a.loc, {"W": [], "R": []})[a.kind].append(a)
        return {k: v for k, v in out.items() if v["W"]}

    def initial_value(self, loc: str) -> Optional[ast.AST]:
        init = self.p.data_init.get(loc)
        if init is None and ":" in loc and "." in loc.split(":", 1)[1]:
            rel, qn = loc.split(":", 1)
            cname, attr = qn.rsplit(".", 1)
            ci = self.p.classes.get((rel, cname))
            init = ci.data_attrs.get(attr) if ci is not None else None
        return init

    # ------------------------------------------------------------------------------------------------ stores
    def _direct_store_stmts(self, key: Key, loc: str) -> List[Tuple[ast.stmt, bool]]:
        """(statement, stores the neutral value) for every rebinding store of loc in the function."""
        fn_node = self.p.fns[key].node
        init = self.initial_value(loc)
        out: List[Tuple[ast.stmt, bool]] = []
        seen: Set[int] = set()
        for a in self.p.accesses.get(key, []):
            if a.loc != loc or a.kind != "W" or a.content:
                continue
            st = innermost_stmt(fn_node, a.line)
            if st is None or id(st) in seen:
                continue
            seen.add(id(st))
            neutral = False
            if isinstance(st, (ast.Assign, ast.AnnAssign)) and st.value is not None and init is not None:
                neutral = isinstance(st.value, ast.Constant) and isinstance(init, ast.Constant) and st.value.value == init.value \
                    and type(st.value.value) is type(init.value)
            out.append((st, neutral))
        return out

    def neutral_fn(self, node: Node, loc: str, depth: int = 0) -> bool:
        """The function does nothing to loc but store its neutral value, unconditionally (e.g. VirtualCounter.reset)."""
        stores = self._direct_store_stmts(node[0], loc)
        if not stores or not all(n for _, n in stores):
            return False
        body = getattr(self.p.fns[node[0]].node, "body", [])
        return any(st in body for st, _ in stores)

    def _resets(self, node: Node, stmts: Sequence[ast.stmt], loc: str, saved: Set[str]) -> bool:
        """The statement list (a `finally` body) certainly stores the neutral / the saved pre-call value into loc."""
        key = node[0]
        direct = {id(st): neutral for st, neutral in self._direct_store_stmts(key, loc)}
        for st in stmts:
            if id(st) in direct:
                if direct[id(st)]:
                    return True
                if isinstance(st, ast.Assign) and isinstance(st.value, ast.Name) and st.value.id in saved:
                    return True
            if isinstance(st, ast.Try):
                if self._resets(node, st.finalbody, loc, saved) or (
                        self._resets(node, st.body, loc, saved) and not st.handlers):
                    return True
            if isinstance(st, (ast.With, ast.AsyncWith)) and self._resets(node, st.body, loc, saved):
                return True
            calls = _unconditional_calls(st)
            by_site: Dict[int, List[Node]] = {}
            for callee, site in self._edges(node):
                if id(site) in calls:
                    by_site.setdefault(id(site), []).append(callee)
            for cs in by_site.values():
                if cs and all(self.neutral_fn(c, loc) for c in cs):
                    return True
        return False

    def _saved_locals(self, key: Key, loc: str) -> Set[str]:
        """Locals assigned from a plain read of loc (`saved = mod.NAME`)."""
        fn_node = self.p.fns[key].node
        out: Set[str] = set()
        rlines = {a.line for a in self.p.accesses.get(key, []) if a.loc == loc and a.kind == "R"}
        for n in ast.walk(fn_node):
            if isinstance(n, ast.Assign) and len(n.targets) == 1 and isinstance(n.targets[0], ast.Name) \
                    and isinstance(n.value, (ast.Name, ast.Attribute)) and n.lineno in rlines:
                out.add(n.targets[0].id)
        return out

    def guarded(self, node: Node, inner: ast.AST, loc: str, is_store: bool = False) -> Optional[int]:
        """Line of a `try` of the function that encloses `inner` (not in its finally) and whose `finally` resets loc."""
        fn_node = self.p.fns[node[0]].node
        saved = self._saved_locals(node[0], loc)
        if is_store and isinstance(inner, ast.stmt):
            # `L = v` immediately followed by `try: .. finally: L = <neutral>`: nothing can fail in between
            parent = getattr(inner, "_parent", None)
            for blk in _blocks(parent) if parent is not None else []:
                for i, st in enumerate(blk[:-1]):
                    nxt = blk[i + 1]
                    if st is inner and isinstance(nxt, ast.Try) and nxt.finalbody and self._resets(node, nxt.finalbody, loc, saved):
                        return nxt.lineno
        prev: ast.AST = inner
        cur: Optional[ast.AST] = getattr(inner, "_parent", None)
        while cur is not None:
            if isinstance(cur, ast.Try) and cur.finalbody and not any(prev is s for s in cur.finalbody):
                if self._resets(node, cur.finalbody, loc, saved):
                    return cur.lineno
            if cur is fn_node:
                break
            prev, cur = cur, getattr(cur, "_parent", None)
        return None

    def protected(self, loc: str) -> Dict[Node, bool]:
        """Greatest fixpoint: every call chain from a root to the function passes a call site inside a try/finally that
        resets loc."""
        prot = {nd: nd not in self.roots for nd in self.reachable}
        changed = True
        memo: Dict[Tuple[Node, int], bool] = {}
        while changed:
            changed = False
            for nd in self.reachable:
                if not prot[nd]:
                    continue
                for caller, site in self.inc.get(nd, []):
                    k = (caller, id(site))
                    if k not in memo:
                        memo[k] = self.guarded(caller, site, loc) is not None
                    if not (memo[k] or prot[caller]):
                        prot[nd] = False
                        changed = True
                        break
        return prot

    # ------------------------------------------------------------------------------------------------ must-store flow
    def flow(self, node: Node, loc: str, can_store: Set[Key]) -> Tuple[Dict[int, bool], bool]:
        """(pre-state of every statement, state on every normal exit / at the first yield of a context manager)."""
        memo = self.__dict__.setdefault("_flow", {})
        k = (node, loc)
        if k in memo:
            return memo[k]
        memo[k] = ({}, False)                       # recursion: assume nothing
        key = node[0]
        fi = self.p.fns[key]
        pre: Dict[int, bool] = {}
        if key not in can_store:
            memo[k] = (pre, False)
            return memo[k]
        direct = {id(st) for st, _ in self._direct_store_stmts(key, loc)}
        by_site: Dict[int, List[Node]] = {}
        for callee, site in self._edges(node):
            if isinstance(site, ast.Call):
                by_site.setdefault(id(site), []).append(callee)
        exits: List[bool] = []
        yields: List[bool] = []

        def header_stores(st: ast.stmt) -> bool:
            if id(st) in direct and not isinstance(st, (ast.If, ast.For, ast.While, ast.Try, ast.With)):
                return True
            for cid in _unconditional_calls(st):
                cs = by_site.get(cid)
                if cs and all(c[0] in can_store and self.summary(c, loc, can_store) for c in cs):
                    return True
            return False

        def has_yield(st: ast.stmt) -> bool:
            return any(isinstance(n, (ast.Yield, ast.YieldFrom)) for n in ast.walk(st)
                       if not isinstance(n, (ast.FunctionDef, ast.Lambda)))

        def seq(stmts: Sequence[ast.stmt], state: bool) -> Tuple[bool, bool]:
            """-> (state after the block, the block can fall through)."""
            implied: Set[str] = set()        # stable tests T of this block with:  T held  ==>  L has been stored
            for st in stmts:
                pre[id(st)] = state
                if isinstance(st, ast.If) and not state and self.stable_test(fi, st.test):
                    # correlated conditions:  if T: <stores L> ... if T: <reads L>   (T cannot change in between)
                    t = ast.dump(st.test)
                    if t in implied:
                        a, fa = seq(st.body, True)
                        b, fb = seq(st.orelse, state)
                        if not fa and not fb:
                            return state, False
                        state = (a or not fa) and (b or not fb)
                        continue
                    a, fa = seq(st.body, state or header_stores(st))
                    if a or not fa:
                        implied.add(t)
                if isinstance(st, (ast.FunctionDef, ast.AsyncFunctionDef, ast.ClassDef)):
                    for n in ast.walk(st):
                        if isinstance(n, ast.stmt) and n is not st:
                            pre[id(n)] = state           # a closure cannot run before its definition
                    continue
                if isinstance(st, ast.Return):
                    exits.append(state or header_stores(st))
                    return state, False
                if isinstance(st, (ast.Raise, ast.Continue, ast.Break)):
                    return state, False
                if isinstance(st, ast.If):
                    s0 = state or header_stores(st)
                    a, fa = seq(st.body, s0)
                    b, fb = seq(st.orelse, s0)
                    if not fa and not fb:
                        return state, False
                    state = (a or not fa) and (b or not fb)
                    continue
                if isinstance(st, (ast.For, ast.AsyncFor, ast.While)):
                    s0 = state or header_stores(st)
                    seq(st.body, s0)
                    seq(st.orelse, s0)
                    state = s0
                    continue
                if isinstance(st, (ast.With, ast.AsyncWith)):
                    s0 = state or header_stores(st)
                    a, fa = seq(st.body, s0)
                    if not fa:
                        return state, False
                    state = a
                    continue
                if isinstance(st, ast.Try):
                    a, fa = seq(st.body, state)
                    if fa and st.orelse:
                        a, fa = seq(st.orelse, a)
                    outs = [(a, fa)]
                    for h in st.handlers:
                        outs.append(seq(h.body, state))
                    falls = [s for s, f in outs if f]
                    merged = all(falls) if falls else False
                    if st.finalbody:
                        f_state, f_fall = seq(st.finalbody, state)      # may run after an exception at any point
                        if not f_fall or not falls:
                            return state, False
                        state = merged or f_state
                    else:
                        if not falls:
                            return state, False
                        state = merged
                    continue
                if isinstance(st, ast.Match):
                    for c in st.cases:
                        seq(c.body, state)
                    continue
                if has_yield(st):
                    yields.append(state)
                state = state or header_stores(st)
            return state, True

        end, falls = seq(getattr(fi.node, "body", []), False)
        if falls:
            exits.append(end)
        is_cm = any((isinstance(d, ast.Name) and d.id == "contextmanager") or (isinstance(d, ast.Attribute) and d.attr == "contextmanager")
                    for d in getattr(fi.node, "decorator_list", []))
        if yields:
            summ = is_cm and yields[0]
        else:
            summ = bool(exits) and all(exits)
        memo[k] = (pre, summ)
        return memo[k]

    def stable_test(self, fi: Any, test: ast.AST) -> bool:
        """The value of the test cannot change during one activation of the function: no calls / subscripts; names that
        the function never assigns; attributes only of the classmethod receiver `cls` and never written anywhere in
        the tree."""
        fn_node = fi.node
        stored = {n.id for n in ast.walk(fn_node) if isinstance(n, ast.Name) and isinstance(n.ctx, (ast.Store, ast.Del))}
        args = getattr(fn_node, "args", None)
        me = args.args[0].arg if args is not None and args.args and fi.cls is not None and fi.kind == "classmethod" else None
        for n in ast.walk(test):
            if isinstance(n, (ast.Call, ast.Subscript, ast.Await, ast.Yield, ast.YieldFrom, ast.NamedExpr, ast.Lambda,
                              ast.ListComp, ast.SetComp, ast.DictComp, ast.GeneratorExp)):
                return False
            if isinstance(n, ast.Name) and n.id in stored:
                return False
            if isinstance(n, ast.Attribute):
                if not (isinstance(n.value, ast.Name) and n.value.id == me):
                    return False
                if n.attr in self.p.written_class_attr_names:
                    return False
        return True

    # ------------------------------------------------------------------------------------------------ class attributes
    def _desc(self, ci: Any) -> Set[Key]:
        return {(c.rel, c.name) for c in [ci] + ci.descendants()}

    def write_classes(self, loc: str, stores: Sequence[Access]) -> Optional[Set[Key]]:
        """Classes whose attribute slot a `cls.attr = ..` / `Class.attr = ..` store of this class-attribute location can
        fill (the receiving class and its subclasses); None when it cannot be told."""
        if ":" not in loc or "." not in loc.split(":", 1)[1]:
            return None
        out: Set[Key] = set()
        for a in stores:
            fi = self.p.fns[a.fn]
            if "receiving class" in a.how and fi.cls is not None:
                for nd in self.by_fn.get(a.fn, []):
                    ci = self.p.classes.get(nd[1]) if nd[1] is not None else None
                    if ci is None or fi.cls not in ci.hierarchy():
                        out |= self._desc(fi.cls)            # receiver unknown: any class of the hierarchy below
                    else:
                        out.add((ci.rel, ci.name))           # exact receiver class of the node
            else:
                return None
        return out

    def read_can_see(self, a: Access, nd: Node, wclasses: Optional[Set[Key]]) -> bool:
        """A read `cls.attr` / `self.attr` in a method whose receiver class cannot be (a subclass of) a class that the
        stores fill reads another slot of the class hierarchy."""
        if wclasses is None:
            return True
        fi = self.p.fns[a.fn]
        args = getattr(fi.node, "args", None)
        me = args.args[0].arg if args is not None and args.args and fi.cls is not None and fi.kind in ("classmethod", "method") else None
        if me is None or not a.how.startswith(f"reads {me}."):
            return True
        ci = self.p.classes.get(nd[1]) if nd[1] is not None else None
        if ci is None or fi.cls not in ci.hierarchy():
            return bool(self._desc(fi.cls) & wclasses) or any((c.rel, c.name) in wclasses for c in fi.cls.mro())
        # exact receiver class: attribute lookup walks its MRO and finds a filled slot only on one of those classes
        return any((c.rel, c.name) in wclasses for c in ci.mro())

    def dead_read(self, a: Access) -> bool:
        """The value read is only handed, as an argument, to a function of the tree whose parameter is never loaded in its
        body (e.g. check_unary_implicit_promotion(.., return_type) ignores return_type): the read cannot influence anything."""
        fi = self.p.fns[a.fn]
        name = a.loc.split(":", 1)[1].rsplit(".", 1)[-1]
        hits = [n for n in ast.walk(fi.node) if getattr(n, "lineno", -1) == a.line and (
            (isinstance(n, ast.Attribute) and n.attr == name) or (isinstance(n, ast.Name) and n.id == name))
            and isinstance(getattr(n, "ctx", None), ast.Load)]
        if not hits:
            return False
        for n in hits:
            call = getattr(n, "_parent", None)
            kwname: Optional[str] = None
            if isinstance(call, ast.keyword):
                kwname = call.arg
                call = getattr(call, "_parent", None)
            if not isinstance(call, ast.Call) or not isinstance(call.func, ast.Name):
                return False
            b = self.p.lookup(fi.rel, call.func.id)
            if b is None or b[0] != "func" or b[1] not in self.p.fns:
                return False
            callee = self.p.fns[b[1]].node
            cargs = callee.args                                              # type: ignore[attr-defined]
            if cargs.vararg is not None or cargs.kwarg is not None:
                return False
            params = [p.arg for p in cargs.posonlyargs + cargs.args]
            if kwname is None:
                if n not in call.args or any(isinstance(x, ast.Starred) for x in call.args):
                    return False
                idx = call.args.index(n)
                if idx >= len(params):
                    return False
                pname = params[idx]
            else:
                pname = kwname
                if pname not in params + [p.arg for p in cargs.kwonlyargs]:
                    return False
            if any(isinstance(x, ast.Name) and x.id == pname for x in ast.walk(callee) if not isinstance(x, ast.arg)):
                return False
        return True

    def summary(self, node: Node, loc: str, can_store: Set[Key]) -> bool:
        return self.flow(node, loc, can_store)[1]

    def can_store(self, loc: str, storing: Set[Key]) -> Set[Key]:
        """Functions from which a rebinding store of loc is reachable (reverse reachability, receiver-insensitive)."""
        rev: Dict[Key, Set[Key]] = {}
        for nd in self.reachable:
            for callee, _site in self._edges(nd):
                rev.setdefault(callee[0], set()).add(nd[0])
        out = set(storing)
        todo = list(storing)
        while todo:
            k = todo.pop()
            for c in rev.get(k, ()):
                if c not in out:
                    out.add(c)
                    todo.append(c)
        return out

    def state_at(self, caller: Node, site: ast.AST, loc: str, can_store: Set[Key]) -> bool:
        memo = self.__dict__.setdefault("_site_state", {})
        k = (caller, id(site), loc)
        if k not in memo:
            pre, _ = self.flow(caller, loc, can_store)
            st = _stmt_of(site, self.p.fns[caller[0]].node)
            memo[k] = bool(st is not None and pre.get(id(st), False))
        return memo[k]

    def unfresh_chain(self, nd: Node, loc: str, can_store: Set[Key], fresh: Dict[Node, bool]) -> List[str]:
        """A call chain from a root to the function along which the location is never stored before the call."""
        out: List[str] = []
        seen: Set[Node] = set()
        cur: Optional[Node] = nd
        while cur is not None and cur not in seen:
            seen.add(cur)
            out.append(f"{cur[0][0]}:{cur[0][1]}" + (f"[{cur[1][1]}]" if cur[1] else ""))
            if cur in self.roots:
                break
            cands = [(caller, site) for caller, site in self.inc.get(cur, [])
                     if not fresh[caller] and not self.state_at(caller, site, loc, can_store) and caller not in seen]
            cands.sort(key=lambda cs: (cs[0] not in self.roots, (cs[0], None) in [(e, None) for e in self.entries]))
            nxt: Optional[Node] = None
            if cands:
                nxt, site = cands[0]
                out[-1] += f" (called at line {getattr(site, 'lineno', 0)} of the previous)"
            cur = nxt
        return list(reversed(out))

    def fresh(self, loc: str, can_store: Set[Key]) -> Dict[Node, bool]:
        fresh = {nd: nd not in self.roots for nd in self.reachable}

        def state_at(caller: Node, site: ast.AST) -> bool:
            return self.state_at(caller, site, loc, can_store)

        changed = True
        while changed:
            changed = False
            for nd in self.reachable:
                if not fresh[nd]:
                    continue
                for caller, site in self.inc.get(nd, []):
                    if not (fresh[caller] or state_at(caller, site)):
                        fresh[nd] = False
                        changed = True
                        break
        return fresh

    def chain(self, target: Key) -> List[str]:
        prev: Dict[Node, Optional[Node]] = {(e, None): None for e in self.entries}
        todo = list(prev)
        hit: Optional[Node] = None
        while todo:
            nd = todo.pop(0)
            if nd[0] == target:
                hit = nd
                break
            for callee, _s in self._edges(nd):
                if callee not in prev:
                    prev[callee] = nd
                    todo.append(callee)
        out: List[str] = []
        while hit is not None:
            out.append(f"{hit[0][0]}:{hit[0][1]}")
            hit = prev[hit]
        return list(reversed(out))

    # ------------------------------------------------------------------------------------------------ verdicts
    def analyse(self) -> List[Site]:
        sites: List[Site] = []
        for loc, acc in sorted(self.locations().items()):
            storing: Dict[Key, List[int]] = {}
            for a in acc["W"]:
                storing.setdefault(a.fn, []).append(a.line)
            readers = acc["R"]
            here: List[Site] = [Site(loc, k, sorted(set(v)), first_store_line=min(v)) for k, v in sorted(storing.items())]
            sites.extend(here)
            if not readers:
                for s in here:
                    s.status, s.why = "ok-no-reader", "written but never read on a path from an entry point: not observable"
                continue
            cs = self.can_store(loc, set(storing))
            fresh = self.fresh(loc, cs)
            unsafe: List[str] = []
            unsafe_chain: List[str] = []
            wclasses = self.write_classes(loc, acc["W"])
            for a in readers:
                fn_node = self.p.fns[a.fn].node
                st = innermost_stmt(fn_node, a.line)
                if self.dead_read(a):
                    continue
                for nd in self.by_fn.get(a.fn, []):
                    if not self.read_can_see(a, nd, wclasses):
                        continue
                    pre, _ = self.flow(nd, loc, cs)
                    if not (fresh[nd] or (st is not None and pre.get(id(st), False))):
                        unsafe.append(f"{a.fn[0]}:{a.line} in {a.fn[1]}")
                        if not unsafe_chain:
                            unsafe_chain = self.unfresh_chain(nd, loc, cs, fresh)
                        break
            unsafe = sorted(set(unsafe))
            if not unsafe:
                for s in here:
                    s.status = "ok-B"
                    s.why = f"re-initialised before every read: all {len(readers)} reads of the location are dominated by a " \
                            "store of the same API call"
                continue
            prot = self.protected(loc)
            for s in here:
                stmts = self._direct_store_stmts(s.fn, loc)
                non_neutral = [st for st, neutral in stmts if not neutral]
                if not non_neutral:
                    s.status, s.why = "ok-neutral", "stores only the neutral (initial) value"
                    continue
                bad: List[int] = []
                for st in non_neutral:
                    ok = all(self.guarded(nd, st, loc, is_store=True) is not None or prot[nd] for nd in self.by_fn.get(s.fn, []))
                    if not ok:
                        bad.append(st.lineno)
                if not bad:
                    s.status = "ok-A"
                    s.why = "every non-neutral store lies inside a try whose finally resets the location (in the function or " \
                            "at every call site up to the entry points)"
                else:
                    s.status = "refuted"
                    s.first_store_line = bad[0]
                    s.unsafe_reads = unsafe[:6]
                    s.unsafe_chain = unsafe_chain[:10]
                    s.chain = self.chain(s.fn)
                    s.why = (f"store(s) at line(s) {bad} of a non-neutral value are not inside a try/finally that resets the "
                             f"location (neither here nor at the call sites), and {len(unsafe)} read(s) are not dominated by "
                             f"a store of the same call, e.g. {unsafe[0]}")
        return sites
