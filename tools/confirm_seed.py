#!/usr/bin/env python3
"""Confirm a seeded change myself: demo passes on the clean tree, patch applies, baseline suite still passes,
demo fails on the mutated tree; then run the given checks on the mutated tree; always revert /repo.
usage: confirm_seed.py <seed-dir> <property> "<needs>" [check ids...]   -> writes <seed-dir>/meta.json"""
import json, subprocess, sys, os
from pathlib import Path
d = Path(sys.argv[1]).resolve(); prop = sys.argv[2]; needs = sys.argv[3]; checks = sys.argv[4:]
def sh(cmd, **kw): return subprocess.run(cmd, shell=True, capture_output=True, text=True, **kw)
assert sh("git -C /repo status --porcelain").stdout.strip() == "", "/repo not clean"
meta = {"property": prop, "needs_to_manifest": needs, "ran": []}
r = sh(f"/venv/bin/python {d}/demo.py /repo/src"); meta["demo_clean_exit"] = r.returncode
meta["ran"].append(f"/venv/bin/python demo.py /repo/src (clean) -> exit {r.returncode}")
ap = sh(f"git -C /repo apply {d}/patch.diff")
assert ap.returncode == 0, ap.stderr
try:
    b = sh("/verif/tools/baseline.sh"); meta["baseline_with_patch"] = b.stdout.strip().splitlines()[0] if b.stdout.strip() else b.stderr[-200:]
    meta["baseline_with_patch_exit"] = b.returncode
    meta["ran"].append(f"tools/baseline.sh with patch -> exit {b.returncode}: {meta['baseline_with_patch']}")
    r = sh(f"/venv/bin/python {d}/demo.py /repo/src"); meta["demo_mutated_exit"] = r.returncode
    meta["ran"].append(f"/venv/bin/python demo.py /repo/src (patched) -> exit {r.returncode}: {(r.stdout.strip().splitlines() or [''])[-1][:200]}")
    meta["checks"] = {}
    for c in checks:
        env = dict(os.environ, VERIF_EVIDENCE_DIR="/tmp/confirm_seed_evidence")
        cr = subprocess.run(f"cd /verif && /venv/bin/python checks/{c}.py", shell=True, capture_output=True, text=True, env=env)
        viol = [l for l in cr.stdout.splitlines() if l.startswith("VIOLATION")]
        fo = [l.strip() for l in cr.stdout.splitlines() if "failed obligation" in l]
        meta["checks"][c] = {"exit": cr.returncode, "violation_lines": len(viol), "failed_obligations": [x[:300] for x in fo][:6]}
        meta["ran"].append(f"checks/{c}.py on patched tree -> exit {cr.returncode}, {len(viol)} VIOLATION line(s)")
finally:
    sh("git -C /repo checkout -- .")
    assert sh("git -C /repo status --porcelain").stdout.strip() == ""
meta["confirmed"] = meta["demo_clean_exit"] == 0 and meta["demo_mutated_exit"] != 0 and meta["baseline_with_patch_exit"] == 0
meta["caught_by"] = [c for c, v in meta.get("checks", {}).items() if v["exit"] == 1 and v["violation_lines"] > 0]
(d / "meta.json").write_text(json.dumps(meta, indent=1) + "\n")
print(json.dumps(meta, indent=1)[:2500])
