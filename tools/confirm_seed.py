#!/usr/bin/env python3
"""Confirm a seeded change myself, in a scratch worktree of /repo's HEAD (never in /repo): demo passes on the clean
tree, patch applies, baseline suite still passes, demo fails on the mutated tree; then run the given checks against the
mutated worktree (VERIF_REPO); the worktree is removed afterwards.
usage: confirm_seed.py <seed-dir> <property> "<needs>" [check ids...]   -> writes <seed-dir>/meta.json"""
import json, subprocess, sys, os, tempfile, shutil
from pathlib import Path
d = Path(sys.argv[1]).resolve(); prop = sys.argv[2]; needs = sys.argv[3]; checks = sys.argv[4:]
def sh(cmd, **kw): return subprocess.run(cmd, shell=True, capture_output=True, text=True, **kw)
wt = tempfile.mkdtemp(prefix="wt_confirm_", dir="/tmp"); os.rmdir(wt)
assert sh(f"git -C /repo worktree add -q --detach {wt} HEAD").returncode == 0
head = sh("git -C /repo rev-parse --short HEAD").stdout.strip()
meta = {"property": prop, "needs_to_manifest": needs, "repo_head": head, "ran": []}
scratch = tempfile.mkdtemp(prefix="confirm_seed_ev_", dir="/tmp")
try:
    r = sh(f"/venv/bin/python {d}/demo.py {wt}/src"); meta["demo_clean_exit"] = r.returncode
    meta["ran"].append(f"/venv/bin/python demo.py <worktree of {head}>/src (clean) -> exit {r.returncode}")
    ap = sh(f"git -C {wt} apply {d}/patch.diff")
    assert ap.returncode == 0, ap.stderr
    b = sh("/verif/tools/baseline.sh", env=dict(os.environ, VERIF_REPO=wt))
    meta["baseline_with_patch"] = b.stdout.strip().splitlines()[0] if b.stdout.strip() else b.stderr[-200:]
    meta["baseline_with_patch_exit"] = b.returncode
    meta["ran"].append(f"tools/baseline.sh with patch -> exit {b.returncode}: {meta['baseline_with_patch']}")
    r = sh(f"/venv/bin/python {d}/demo.py {wt}/src"); meta["demo_mutated_exit"] = r.returncode
    meta["ran"].append(f"/venv/bin/python demo.py <worktree>/src (patched) -> exit {r.returncode}: {(r.stdout.strip().splitlines() or [''])[-1][:200]}")
    meta["checks"] = {}
    for c in checks:
        env = dict(os.environ, VERIF_REPO=wt, VERIF_EVIDENCE_DIR=scratch, VERIF_REPLAY_DIR=scratch + "/replay")
        cr = subprocess.run(f"cd /verif && /venv/bin/python checks/{c}.py", shell=True, capture_output=True, text=True, env=env)
        viol = [l for l in cr.stdout.splitlines() if l.startswith("VIOLATION")]
        fo = [l.strip() for l in cr.stdout.splitlines() if "failed obligation" in l]
        meta["checks"][c] = {"exit": cr.returncode, "violation_lines": len(viol), "failed_obligations": [x[:300] for x in fo][:6]}
        meta["ran"].append(f"checks/{c}.py on patched tree -> exit {cr.returncode}, {len(viol)} VIOLATION line(s)")
finally:
    sh(f"git -C /repo worktree remove --force {wt}")
    shutil.rmtree(scratch, ignore_errors=True)
meta["confirmed"] = meta.get("demo_clean_exit") == 0 and meta.get("demo_mutated_exit") != 0 and meta.get("baseline_with_patch_exit") == 0
meta["caught_by"] = [c for c, v in meta.get("checks", {}).items() if v["exit"] == 1 and v["violation_lines"] > 0]
(d / "meta.json").write_text(json.dumps(meta, indent=1) + "\n")
print(json.dumps(meta, indent=1)[:2500])
