#!/bin/sh
# usage: tools/apply_fix.sh <diff> "<fix: commit message>" [check ids...]
# Applies a proposed repair to /repo, runs the baseline suite and the given checks on /repo; commits it as one unguarded
# "fix:" commit when the baseline passes and no check reports a VIOLATION / fault, otherwise reverts /repo.
D=$(readlink -f "$1"); MSG="$2"; shift 2
cd /verif || exit 2
if [ -n "$(git -C /repo status --porcelain)" ]; then echo "/repo not clean"; exit 2; fi
git -C /repo apply "$D" || { echo "patch does not apply"; exit 2; }
OK=1
/verif/tools/baseline.sh | head -3
/verif/tools/baseline.sh >/dev/null 2>&1 || OK=0
for c in "$@"; do
  VERIF_EVIDENCE_DIR=/tmp/apply_fix_ev VERIF_REPLAY_DIR=/tmp/apply_fix_ev/replay /venv/bin/python checks/$c.py > /tmp/apply_fix_$c.out 2>&1
  rc=$?
  echo "check $c: exit=$rc $(grep -c '^KNOWN-FINDING' /tmp/apply_fix_$c.out) known-finding line(s); $(grep '^\[C' /tmp/apply_fix_$c.out | cut -c1-200)"
  grep -E "^(VIOLATION|UNDECIDED|ENGINE-FAULT)" /tmp/apply_fix_$c.out | cut -c1-300 | head -5
  [ $rc -eq 0 ] || OK=0
done
if [ $OK -eq 1 ]; then
  git -C /repo commit -qam "$MSG" && echo "COMMITTED $(git -C /repo rev-parse --short HEAD)"
else
  git -C /repo checkout -- . ; echo "REVERTED"
fi
