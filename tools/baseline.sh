#!/bin/sh
# Runs the repository's pinned baseline with the verification guard OFF and compares the passing set with
# /root/.vp/BASELINE.json (stable_pass).  Exit 0 iff every stable_pass test passes.
unset MEANINGFUL_DATA_VTLENGINE_VERIF
OUT=$(mktemp /tmp/verif_base_XXXXXX.xml)
cd "${VERIF_REPO:-/repo}" && /venv/bin/python -m pytest -ra -q -p no:cacheprovider --timeout=900 --continue-on-collection-errors --junitxml="$OUT" >/dev/null 2>&1
/venv/bin/python - "$OUT" <<'PY'
import json, sys, xml.etree.ElementTree as ET
base = json.load(open('/root/.vp/BASELINE.json'))
want = set(base.get('stable_pass', []))
got = set()
for tc in ET.parse(sys.argv[1]).getroot().iter('testcase'):
    if not any(ch.tag in ('failure', 'error', 'skipped') for ch in tc):
        got.add(f"{tc.get('classname')}::{tc.get('name')}")
missing = sorted(want - got)
print(f"baseline: {len(want)} expected to pass, {len(want & got)} passed, {len(missing)} missing")
for m in missing[:20]:
    print("  MISSING", m)
sys.exit(1 if missing else 0)
PY
RC=$?
rm -f "$OUT"
exit $RC
