#!/usr/bin/env python3
"""Replay a violation file: print the failed obligation and re-run the owning check (which re-derives the
obligation from /repo's current tree and replays the counter-model on the real code)."""
import json, os, subprocess, sys
from pathlib import Path
p = Path(sys.argv[1])
d = json.loads(p.read_text())
print(json.dumps(d, indent=1)[:4000])
pid = d["property"]
env = dict(os.environ, VERIF_ONLY=d.get("failed_obligation", ""))
sys.exit(subprocess.call(["/venv/bin/python", str(Path(__file__).resolve().parent.parent / "checks" / f"{pid}.py")], env=env))
