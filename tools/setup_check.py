#!/usr/bin/env python3
"""MANIFEST.setup_cmd: nothing to build (pure Python + solver CLIs); verify the toolchain is present offline."""
import shutil, subprocess, sys
ok = True
for tool in ("z3-new", "/usr/bin/cvc5", "/usr/bin/z3"):
    p = shutil.which(tool)
    print(f"{tool}: {p}")
    ok &= p is not None
try:
    import duckdb, sqlglot, pandas, networkx  # noqa
    print("duckdb", duckdb.__version__, "sqlglot", sqlglot.__version__, "pandas", pandas.__version__)
except Exception as e:  # noqa
    print("import failure:", e); ok = False
r = subprocess.run(["z3-new", "-in", "-smt2"], input="(declare-const x Int)(assert (> x 2))(check-sat)\n", capture_output=True, text=True)
print("z3-new smoke:", r.stdout.strip()); ok &= r.stdout.strip() == "sat"
sys.exit(0 if ok else 1)
