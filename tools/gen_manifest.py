#!/usr/bin/env python3
"""Writes /verif/MANIFEST.json from the table below (single place to keep it valid)."""
import json
import sys
from pathlib import Path

VERIF = Path(__file__).resolve().parent.parent
PY = "/venv/bin/python"

# property id -> dict(level, text, note, technique, design_ref, thorough(bool))
CLAIMED = {
    "C26": dict(
        level="proof",
        text="Every constructor call of the four coded exception classes in src/vtlengine/**.py is a call-site "
             "obligation against the constructors' contract (code in catalogue, placeholders <= kwargs); all sites "
             "are decided statically on every run, so sites no test ever reaches are covered.",
        note="Trusts string.Formatter field parsing; syntactic call matching by class name (no aliasing); "
             "flow-insensitive value sets for computed codes. Dynamic 'errors actually raised while running the "
             "corpus' are not observed (parser absent).",
        technique="call-site precondition contracts, static value-set propagation, finite-set inclusion",
        design_ref="§2 C26"),
    "C30": dict(
        level="proof",
        text="set_decimal_config / get_decimal_type / get_decimal_config and the Number column-type selectors are "
             "symbolically executed from the real source; the documented accept/reject ranges (parsed from "
             "docs/environment_variables.rst) are proved for ALL integer settings and ALL pre-states of the module "
             "globals (history independence), not just -5..45. The DECIMAL arithmetic clause of the property is not "
             "proved (DuckDB semantics, floats); it is sampled by one bounded obligation: Number values loaded from "
             "float64 and text DataFrame columns under 5 valid settings are stored as the decimal rounding of the input "
             "at the configured scale and SUM over them is exact.",
        note="Assumes os.getenv / int(str) contracts, mathematical ints; DuckDB DECIMAL rounding/exactness and the "
             "float conversion on fetch (_round_significant) are outside the encoding and stay unchecked.",
        technique="symbolic execution of real Python source to per-path VCs, discharged by z3/cvc5; native replay",
        design_ref="§2 C30"),
    "C11": dict(
        level="proof",
        text="The four promotion functions are symbolically executed from the real source over the finite sort of "
             "scalar type classes; table = documented implicit-cast table, acceptance and result type against that "
             "table for the (type_to_check, return_type) of every operator class found in Operators/*.py, "
             "check_* <=> promotion for all configurations, operand-order independence for commutative classes, and "
             "the dispatcher call sites; complete over the 9x9(x10x10) space because the sort is finite.",
        note="Per-measure loops of dataset/component validation are not under contract (only that the dispatchers "
             "forward cls.type_to_check/return_type); commutativity set is by operator token; spec of the "
             "'documented common type' is my reading of docs/data_types.rst (stated in the check's docstring).",
        technique="symbolic execution of real Python source over a finite enum sort; SMT equivalence with the "
                  "parsed documentation table (z3/cvc5); native replay",
        design_ref="§2 C11"),
    "C27": dict(
        level="proof",
        text="to_vtl_json and _build_component are symbolically executed from the real source with component dtype "
             "ranging over every DataType of the installed pysdmx (enumerated at run time) and role over Role, for "
             "DSD / Schema / Dataflow inputs; role, type, nullability, order and naming are proved equal to the "
             "tables parsed from docs/data_structures.rst, unmapped types must raise InputValidationException, and "
             "a frame clause forbids any mutation of module-level state or of the argument (history independence).",
        note="Component lists of fixed small lengths (shapes listed in evidence); independence of list length rests "
             "on the map-loop argument (no cross-iteration state), not on the solver. pysdmx object model, XML/JSON "
             "readers and run_sdmx URN matching are assumed.",
        technique="symbolic execution of real Python source over finite enum sorts + SMT strings; doc-table oracle; "
                  "frame obligations; native replay with pysdmx objects",
        design_ref="§2 C27"),
    "C16": dict(
        level="proof",
        text="Exhaustive exceptional-path execution of the real configured_connection (with its callees inlined): "
             "every fallible step forks into success/failure and the with-body may end normally, with an Exception "
             "or with a non-Exception BaseException; on EVERY resulting path the session directory is removed and "
             "the connection closed; the file-backed database path is proved (SMT strings) to lie inside the "
             "session directory; run()/run_sdmx acquire a connection only through that context manager; the "
             "history clause is proved as strong exception safety of Exceptions.dataset_output in visit_Start (and "
             "of the decimal globals, see C30).",
        note="Failure points are the fallible call sites and the with-body, not arbitrary asynchronous points; "
             "conn.close()/rmtree(ignore_errors) assumed not to raise; cleanup inside the loaders (DROP/unregister) "
             "is not under contract because those objects die with the connection; VirtualCounter / viral registry "
             "history effects are not covered here.",
        technique="exceptional-path symbolic execution with effect traces (acquire/release obligations per path), "
                  "SMT strings for the path clause, native fault-injection replay",
        design_ref="§2 C16"),
    "C08": dict(
        level="proof",
        text="The time macros of time_operators.sql (timeshift, period start/end, getmonth/dayofmonth/dayofyear, "
             "time_agg on dates and periods, datediff, dateadd, daytoyear/daytomonth) are parsed from the working tree "
             "and evaluated symbolically; each is proved equal to the calendar specification (closed-form Gregorian / "
             "ISO-8601 calendar, cross-checked against datetime) for all years 1000..9998, all period numbers the "
             "calendar has (incl. week 53 / day 366 exactly where they exist) and all shifts. Round trip, successor "
             "and injectivity of timeshift follow from 'shift = translation in calendar order'.",
        note="DuckDB semantics model (vc.sqlvc) is validated against the real DuckDB on a grid every run, not proved; "
             "the civil-date round-trip lemma is validated by exhaustive enumeration; INTEGER overflow not modelled; "
             "dataset-level operators (fill_time_series, flow_to_stock, stock_to_flow, Date timeshift) and the "
             "Python twins in TimeHandling.py are not covered.",
        technique="SQL macro -> SMT (sqlglot AST, 3VL, char-vector strings, closed-form calendar) per-path VCs "
                  "discharged by z3/cvc5; model conformance against real DuckDB; replay in real DuckDB",
        design_ref="§2 C08"),
    **{pid: dict(
        level="exploration",
        text=f"BOUNDED stand-in (not a proof) for {what}: the program family is enumerated (exhaustively per operator "
             "class at depth 1, sampled at depth 2-3) over fixed small tables with nulls, zeros, negatives, partial key "
             "overlap and empty datasets, executed on the real engine and the real DuckDB through API.run with only the "
             "text->AST prologue removed mechanically, and every result is compared as a keyed set of datapoints with an "
             "independent reference semantics (spec/vtlref.py). The transpiler visitors build SQL strings over an open "
             "AST and are outside the reach of the VC generators; the scalar templates they use are candidates for the "
             "deductive tier (not built for this property yet).",
        note="Nothing is proved beyond the enumerated programs and tables. The reference is my reading of VTL 2.1 and "
             "omits every case I am not sure of (null/0, count() without operand, count of all-null groups, aggregates "
             "of empty ungrouped datasets, mod, round, string ordering); programs the engine's semantic analysis rejects "
             "are not counted. ASTs are hand-built (shapes per spec/ast_shapes.md), the parser is not exercised.",
        technique="postcondition 'result = VTL denotation' checked by bounded enumeration of programs on the real engine "
                  "(bounded stand-in)",
        design_ref=f"§2 {pid}") for pid, what in {
            "C01": "element-wise operators (arithmetic, comparison, boolean 3VL, string, in/between/isnull/nvl, "
                   "dataset if-then-else, division by zero)",
            "C02": "clause chains (filter, calc, keep, drop, rename, sub) of length 1-3 (thorough 4), also on join results",
            "C03": "aggregations (sum avg count min max; group by / group except / none; having; aggr clause; Number, "
                   "String and Time_Period measures incl. W53 / D366 boundaries)",
            "C04": "joins (inner / left / full, using, aliases, bodies; 2 and 3 operands in every order with nested "
                   "identifier sets)",
            "C05": "set operators (union / intersect with 2-4 operands in every order, setdiff, symdiff) with conflicting "
                   "and null measures",
        }.items()},
    "C32": dict(
        level="proof",
        text="Exception-flow contracts on the real source: the two DuckDB error mappers are executed symbolically over "
             "ALL message texts (path-exhaustive; unmodelled string surgery over-approximated by both outcomes) and "
             "must return a VTL exception on every path; every error('...') text of the SQL macro files and SQL "
             "templates (extracted each run) must be mapped to the code it names; every DuckDB interaction of "
             "execute_queries and its callees must sit inside a handler that converts duckdb.Error. Refutations are "
             "replayed natively (mapper call / end-to-end run through the extracted API.run).",
        note="Does not prove that the bare ValueError/NotImplementedError/KeyError raise sites inside the transpiler are "
             "unreachable for semantically valid scripts, nor that the load path (map_duckdb_error callers) is "
             "complete; a DuckDB failure is assumed to surface only as duckdb.Error from a connection method.",
        technique="path-exhaustive symbolic execution of the mapper functions + call-site (handler enclosure) contracts "
                  "over the AST + native mapping of extracted SQL error texts",
        design_ref="§2 C32"),
    "C22": dict(
        level="proof",
        text="Inter-procedural frame (assigns) contracts over the real source of the API layer, the pandas/CSV loaders, "
             "the SDMX handler and the DuckDB io package: for every public entry point and caller-facing parameter no "
             "object reachable from the argument is in any write frame, on every path (may-alias, flow-sensitive "
             "re-binding, shallow-copy and return-alias summaries). Refutations are replayed natively with deep "
             "argument snapshots; the snapshot monitor also runs over a pool of valid/invalid calls (bounded tier).",
        note="Static may-alias analysis: sound only under the assumed clauses for externals (pandas non-inplace methods, "
             "pysdmx, json, deepcopy) and without following dynamic dispatch inside the Interpreter/Transpiler (their "
             "inputs are deep copies). prettify/generate_sdmx/run_sdmx: frame clause only (parser / SDMX files needed "
             "to run them).",
        technique="frame (assigns) contracts by inter-procedural may-alias analysis of the real AST; native snapshot "
                  "replay and run-time monitor",
        design_ref="§2 C22"),
    "C21": dict(
        level="proof",
        text="The SQL codec macros (vtl_period_normalize, vtl_period_to_vtl / _sdmx_reporting / _sdmx_gregorian / "
             "_natural, vtl_doy_to_date) are evaluated symbolically from the working tree: every documented input "
             "spelling of every well-formed period normalises to the canonical text, every output format renders the "
             "documented form (error 2-1-19-21 exactly where the docs say 'Not supported'), and rendered values read "
             "back to the same period, for all years 1000..9998. The Python TimePeriodHandler is compared with the SQL "
             "macros and the documented forms exhaustively for 1900..2100 (bounded tier, labelled as such).",
        note="Python side is bounded (native exhaustive comparison), not proved; apply_time_period_representation "
             "(table-level use of the macros) not under contract; DuckDB model validated by conformance + replay only.",
        technique="SQL macro -> SMT over character-vector strings, per-path VCs (z3/cvc5), docs tables as oracle; "
                  "bounded exhaustive native comparison for the Python twin",
        design_ref="§2 C21"),
    "C12": dict(
        level="exploration",
        text="BOUNDED stand-in (not a proof): contracts on DAGAnalyzer.create_dag, API.semantic_analysis and API.run "
             "(order of producers/consumers, cycle error 1-3-2-3 and redefinition error 1-2-2 for every written order, "
             "identical structures and results for every written order) are checked on an exhaustive enumeration of "
             "scripts of up to 3 (thorough 4) statements x all permutations, and a sample of larger ones, executed on "
             "the real code; API functions are the tree's own code with only the text->AST prologue removed "
             "mechanically on every run.",
        note="Nothing is proved beyond the enumerated shapes (assignments of sums, filter clauses reading scalars of "
             "other statements, scalar constants; no UDOs/rulesets/joins). The deductive route (loop invariants over "
             "load_edges/_build_and_sort_graph with networkx contracts) was not built; scripts that are both cyclic "
             "and redefining are excluded (the property does not say which error wins).",
        technique="contract predicates checked over bounded exhaustive enumeration on the real code (bounded stand-in)",
        design_ref="§2 C12"),
    "C13": dict(
        level="exploration",
        text="BOUNDED stand-in (not a proof): the real execute_queries / load_scheduled_datasets / "
             "cleanup_scheduled_datasets are run against a ghost table store on the schedule the real "
             "DAGAnalyzer.ds_structure computes, for every dependency graph of up to 3 statements (sampled at 4-5), all "
             "persistent mixes and both return_only_persistent settings; the load/create/fetch/drop history must keep "
             "every read dataset live, load inputs once, drop each intermediate exactly once after its last reader and "
             "return exactly the selected assignments; sampled scripts also run on the real DuckDB through the "
             "extracted API.run and are compared with an independent evaluation.",
        note="Loaders and fetch_result are replaced by recording stand-ins on the harness side; DuckDB's catalog is "
             "assumed to behave like the ghost set; bounded in graph size and statement kinds.",
        technique="contract predicates over event histories of the real executor on a ghost store; bounded exhaustive "
                  "enumeration (bounded stand-in)",
        design_ref="§2 C13"),
}

NOT_YET = "not built yet in this round; planned per DESIGN.md §2 (no claim until its check exists and is sound)"
NA = {
    "C06": "window-frame semantics live in DuckDB; the code only spells the OVER clause; no contract within reach "
           "defines frames over symbolic orderings",
    "C23": "subject is the C++/ANTLR extension: not built, not buildable offline, no C/C++ deductive verifier installed",
    "C24": "needs the parser as the inverse of the renderer; literal clause depends on float formatting outside the encoding",
    "C31": "SLL vs LL prediction inside the unbuilt C++ extension",
}


def main() -> None:
    props = [json.loads(l)["id"] for l in (VERIF / "properties.jsonl").read_text().splitlines() if l.strip()]
    # further claims, one JSON file per property (same fields as the CLAIMED entries): tools/claims/Cxx.json
    for p in sorted((VERIF / "tools" / "claims").glob("C*.json")):
        c = json.loads(p.read_text())
        assert c["level"] in ("proof", "exploration", "other") and all(k in c for k in ("text", "note", "technique")), p
        CLAIMED[p.stem] = c
    checks = []
    for pid in props:
        if pid not in CLAIMED:
            continue
        c = CLAIMED[pid]
        entry = {
            "property_id": pid,
            "quick_cmd": f"VERIF_TIER=quick {PY} checks/{pid}.py",
            "thorough_cmd": f"VERIF_TIER=thorough {PY} checks/{pid}.py",
            "evidence_file": f"/verif/evidence/{pid}.json",
            "replay_cmd_template": f"{PY} tools/replay.py {{path}}",
            "engine": c.get("engine", "vc"),
            "level_claimed": {"category": c["level"], "text": c["text"], "design_ref": c.get("design_ref", "")},
            "level_note": c["note"],
            "technique": c["technique"],
        }
        checks.append(entry)
    na = []
    for pid in props:
        if pid in CLAIMED:
            continue
        na.append({"property_id": pid, "reason": NA.get(pid, NOT_YET)})
    man = {
        "version": 1,
        "setup_cmd": f"{PY} tools/setup_check.py",
        "hooks": {
            "guard": "MEANINGFUL_DATA_VTLENGINE_VERIF",
            "enable": "no source hooks: contracts are sidecar files under /verif/contracts and checks read /repo's "
                      "working tree directly; checks set MEANINGFUL_DATA_VTLENGINE_VERIF=1 in their own process only",
            "baseline_off_cmd": "/verif/tools/baseline.sh",
            "source_commits": [],
            "add_only": True,
        },
        "engines": [
            {"name": "vc", "path": "/verif/vc", "serves_properties": sorted(CLAIMED),
             "kind_free_text": "self-written VC generators over the real source (Python ast -> SMT-LIB, DuckDB SQL "
                               "macros via sqlglot -> SMT-LIB, frame / call-site contract analysis), discharged by "
                               "z3 5.1 and cvc5 1.0.3 CLIs; counter-models replayed on the real code"},
        ],
        "checks": checks,
        "not_applicable": na,
        "notes": "Contract-based deductive verification; see DESIGN.md. Exit codes of every check: 0 held, "
                 "1 violation (VIOLATION line), 2 undecided, 3 engine fault.",
    }
    (VERIF / "MANIFEST.json").write_text(json.dumps(man, indent=1) + "\n")
    try:
        import jsonschema
        jsonschema.validate(man, json.load(open("/root/.vp/MANIFEST.schema.json")))
        print("MANIFEST.json valid;", len(checks), "checks,", len(na), "not_applicable")
    except ImportError:
        print("jsonschema not importable; not validated")


if __name__ == "__main__":
    main()
