#!/bin/sh
# usage: tools/try_seed.sh <seed-dir> [check ids...]   applies <seed-dir>/patch.diff to /repo, runs the demo and the
# checks, and ALWAYS reverts /repo afterwards.  Nothing is ever committed in /repo.
D=$(readlink -f "$1"); shift
[ -f "$D/patch.diff" ] || { echo "no patch in $D"; exit 2; }
if [ -n "$(git -C /repo status --porcelain)" ]; then echo "/repo not clean"; exit 2; fi
git -C /repo apply "$D/patch.diff" || { echo "patch does not apply"; exit 2; }
trap 'git -C /repo checkout -- . ; git -C /repo status --porcelain' EXIT
if [ -f "$D/demo.py" ]; then /venv/bin/python "$D/demo.py" /repo/src >/tmp/try_seed_demo.out 2>&1; echo "demo on mutated tree: exit=$? ($(tail -1 /tmp/try_seed_demo.out | cut -c1-150))"; fi
for c in "$@"; do
  echo "--- check $c on mutated tree"
  ( cd /verif && VERIF_EVIDENCE_DIR=/tmp/try_seed_evidence /venv/bin/python checks/$c.py 2>&1 | grep -E "^(VIOLATION|UNDECIDED|ENGINE-FAULT|KNOWN|\[C)|failed obligation|replay:" | cut -c1-420 | head -${TRY_LINES:-12} )
done
