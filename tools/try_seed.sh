#!/bin/sh
# usage: tools/try_seed.sh <seed-dir> [check ids...]
# Applies <seed-dir>/patch.diff to a SCRATCH WORKTREE of /repo's HEAD (never to /repo itself, so that other checks
# running against /repo are not disturbed), runs the demo and the given checks against it (VERIF_REPO), and removes
# the worktree afterwards.  NOTE: uncommitted changes of /repo are not in the worktree.
D=$(readlink -f "$1"); shift
[ -f "$D/patch.diff" ] || { echo "no patch in $D"; exit 2; }
WT=$(mktemp -d /tmp/wt_try_XXXXXX); rmdir "$WT"
git -C /repo worktree add -q --detach "$WT" HEAD || exit 2
trap 'git -C /repo worktree remove --force "$WT"; rm -rf /tmp/try_seed_evidence_$$' EXIT
git -C "$WT" apply "$D/patch.diff" || { echo "patch does not apply"; exit 2; }
if [ -f "$D/demo.py" ]; then /venv/bin/python "$D/demo.py" "$WT/src" >/tmp/try_seed_demo_$$.out 2>&1; echo "demo on mutated tree: exit=$? ($(tail -1 /tmp/try_seed_demo_$$.out | cut -c1-150))"; rm -f /tmp/try_seed_demo_$$.out; fi
for c in "$@"; do
  echo "--- check $c on mutated tree"
  ( cd /verif && VERIF_REPO="$WT" VERIF_EVIDENCE_DIR=/tmp/try_seed_evidence_$$ VERIF_REPLAY_DIR=/tmp/try_seed_evidence_$$/replay /venv/bin/python checks/$c.py 2>&1 | grep -E "^(VIOLATION|UNDECIDED|ENGINE-FAULT|KNOWN|\[C)|failed obligation|replay:" | cut -c1-420 | head -${TRY_LINES:-12} )
done
