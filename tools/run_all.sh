#!/bin/sh
# usage: tools/run_all.sh [tier] [jobs]   runs every check registered in MANIFEST.json (quick by default) against /repo,
# rewriting evidence/, and prints one summary line per check.
TIER=${1:-quick}; JOBS=${2:-4}
cd /verif || exit 2
mkdir -p /tmp/run_all
/venv/bin/python -c "
import json
for c in json.load(open('MANIFEST.json'))['checks']: print(c['property_id'])" | \
xargs -P "$JOBS" -I{} sh -c "VERIF_TIER=$TIER /venv/bin/python checks/{}.py > /tmp/run_all/{}.out 2>&1; echo \"{} exit=\$? known=\$(grep -c '^KNOWN-FINDING' /tmp/run_all/{}.out) \$(grep '^\[C' /tmp/run_all/{}.out | cut -c1-170)\""
