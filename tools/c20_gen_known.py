"""Maintenance tool for C20: turn the classes listed by `VERIF_C20_DISCOVER=<file> checks/C20.py` into known_findings.d/C20.jsonl.
usage: c20_gen_known.py <discovered.jsonl> <out.jsonl> [previous.jsonl -> keys that disappeared are appended with status fixed]
Review the generated `what` texts before keeping the file (the table W says which side is wrong w.r.t. docs/data_types.rst)."""
import json, re, sys
rows=[json.loads(l) for l in open(sys.argv[1])]
W = {
 ("Time_Period","blank-padded","run-rejects"): "check_time_period strips the value before parsing, vtl_period_normalize does not (the loader's own format check trims, its normalisation does not): a padded period such as ' 2020Q1' passes validate_dataset and is rejected by run(). docs/data_types.rst lists no padded spelling; the two sides differ.",
 ("Time_Period","blank-padded","validate-rejects"): "a padded hyphen-letter form whose number is unreadable (e.g. '    -Q') is turned into NULL by vtl_period_normalize (TRY_CAST) and loaded by run() into a nullable component; validate_dataset rejects it. run() side is wrong.",
 ("Time_Period","hyphen-letter-with-unreadable-number","validate-rejects"): "RUN SIDE WRONG: vtl_period_normalize uses TRY_CAST in its 'YYYY-L<number>' branch: a value such as '2020-Q', '2020-Mxx', '!!!!-S' becomes NULL and is silently loaded as NULL into a nullable component ('2020-A<anything>' loads as 2020A); validate_dataset rejects all of them.",
 ("Time_Period","lower-case-indicator","validate-rejects"): "run() upper-cases the indicator ('2020q1', '2020-m01', '2020a' load); validate_dataset rejects them. docs/data_types.rst lists upper-case indicators only: the run() side is more permissive than documented.",
 ("Time_Period","annual-with-trailing-text","validate-rejects"): "RUN SIDE WRONG: vtl_period_normalize keeps 'YYYY' + 'A' and drops whatever follows the A: '2020A1', '2020A7', '2020Axyz', '2020-A' load as 2020A; validate_dataset rejects them (documented annual forms: YYYY, YYYYA, YYYY-A1).",
 ("Time_Period","week-00-or-54-to-99","validate-rejects"): "RUN SIDE WRONG: week numbers 00 and 54..99 ('2020W54', '2020-W99', '2020W0') are loaded by run() (TIME_PERIOD_PATTERN W\\d{1,2}); validate_dataset raises (TimePeriodHandler range check, RunTimeError 2-1-19-7 escapes unwrapped for the compact spelling).",
 ("Time_Period","month-00-or-13-to-99","validate-rejects"): "RUN SIDE WRONG: month numbers 00 and 13..99 ('2020M13', '2020-13', '2020-M00') are loaded by run() (M\\d{1,2} / -\\d{1,2}); validate_dataset raises.",
 ("Time_Period","day-000-or-367-to-999","validate-rejects"): "RUN SIDE WRONG: day numbers 000 and 367..999 ('2020D367', '2020-D999', '2020D0') are loaded by run() (D\\d{1,3}); validate_dataset raises.",
 ("Time_Period","day-366-of-common-year","validate-rejects"): "RUN SIDE WRONG: day 366 of a common year ('2021D366', '2021-D366') is loaded by run(); validate_dataset raises RunTimeError 2-1-19-9.",
 ("Time_Period","number-with-too-many-digits","validate-rejects"): "run() reads zero-padded numbers of any width through an INTEGER cast ('2020Q01', '2020M001', '2020-D0001' load); validate_dataset rejects them (documented widths: Q/S one digit, M/W up to two, D up to three). run() side more permissive than documented.",
 ("Time_Period","date-with-trailing-text","validate-rejects"): "RUN SIDE WRONG: vtl_period_normalize reads only the first 10 characters of a date: '2020-01-15garbage', '2020-01-01:' load as the daily period; validate_dataset rejects them.",
 ("Time_Period","date-one-digit-field-with-trailing-text","validate-rejects"): "RUN SIDE WRONG: DuckDB's date cast of the first 10 characters ignores trailing text: '2020-01-1x', '2001-01-2/' load as a daily period; validate_dataset rejects them.",
 ("Time_Period","unknown-indicator-letter-read-as-day","validate-rejects"): "RUN SIDE WRONG: vtl_period_normalize takes ANY character at position 5 that is not A/S/Q/M/W for the day indicator: '2020X15', '2020t0', '2020!0001', '20200115' (-> 2020-D115) load as daily periods; validate_dataset rejects them.",
 ("Time_Period","lenient-integer-cast","validate-rejects"): "RUN SIDE WRONG: the period number goes through DuckDB's VARCHAR->INTEGER cast, which accepts signs, blanks, decimals (rounded), exponents: '2020M+5', '2020M 5', '2020M5.4', '2020--0', '2020-b9' load; validate_dataset rejects them.",
 ("Time_Period","date-in-year-0000","validate-rejects"): "a date of year 0000 ('0000-01-01', '0000-02-29'): DuckDB's DATE has a year 0, Python's datetime does not (MINYEAR = 1): run() loads it as 0000-D001, validate_dataset raises (ValueError: year 0 is out of range). Years below 1000 are outside the proof domain (bounded tier only). The two sides differ; the annual / quarterly ... forms of year 0000 are accepted by both.",
 ("Time_Period","date-one-digit-month-or-day","run-rejects"): "validate_dataset normalises 'YYYY-M-D' / 'YYYY-MM-D' / 'YYYY-M-DD' to a date and accepts; run() rejects (the temporal pattern wants two-digit month and day). docs/data_types.rst lists YYYY-MM-DD only: the validate side is more permissive than documented.",
 ("Date","empty-string","run-rejects"): "an empty string in a Date DataFrame column: _validate_pandas turns '' into NULL for every non-String type and accepts, register_dataframes casts '' to DATE and fails. The two sides differ (CSV: both read '' as NULL).",
 ("Date","blank-padded","run-rejects"): "check_date strips the value, VALID_DATE_REGEX is anchored: ' 2020-01-15' passes validate_dataset and is rejected by run(). Not a documented spelling; the two sides differ.",
 ("Date","timezone-offset-24h-or-more","validate-rejects"): "run() accepts any +-HH:MM suffix (VALID_DATE_REGEX [+-]\\d{2}:\\d{2}), datetime.fromisoformat rejects offsets of 24 h or more ('2020-01-15T10:30:00+24:00'): run() side accepts an invalid timezone.",
 ("Date","year-before-1800","validate-rejects"): "RUN SIDE WRONG: docs/data_types.rst: 'Year range: 1800-9999'. check_date enforces it, the loader does not: '1799-12-31', '0001-01-01' load in run().",
 ("Date","one-digit-month","validate-rejects"): "run() accepts one-digit months/days ('2020-1-5', '2020-1-05'; VALID_DATE_REGEX \\d{1,2}), validate_dataset only accepts YYYY-MM-DD and YYYY-MM-D. docs: ISO 8601 date: run() side more permissive than documented (and the two sides differ).",
 ("Date","one-digit-day-with-time","validate-rejects"): "run() accepts a one-digit day followed by a time ('2020-01-5T10:30:00'); validate_dataset rejects it (check_date pads a one-digit day only for bare dates).",
 ("Date","iso-basic-or-week-date","run-rejects"): "VALIDATE SIDE WRONG: check_date calls date.fromisoformat, which on Python >= 3.11 also reads ISO basic and week dates and ignores text after an undashed date: '20200115', '2020-W10-3', '2020W10', '2020010199' pass validate_dataset; run() rejects them (not documented spellings).",
 ("Time","year-or-month-form","run-rejects"): "RUN SIDE WRONG: docs/data_types.rst: Time 'also accepts \"YYYY\" ... and \"YYYY-MM\"'. check_time accepts '2020', '2020-01' (and '2020-1'); TIME_INTERVAL_PATTERN of the loader rejects them.",
 ("Time","interval-month-or-day-first-digit-out-of-range","validate-rejects"): "neither side checks that the two ends are calendar dates, but check_time bounds the first digit of the month ([0-1]) and of the day ([0-3]) while TIME_INTERVAL_PATTERN takes any two digits: '2020-20-39/2021-36-45' is loaded by run() and rejected by validate_dataset. Both sides accept '2020-13-45/2020-14-00'. RUN SIDE (and partly the validate side) WRONG: no calendar check.",
 ("Time","interval-start-after-end","validate-rejects"): "RUN SIDE WRONG: an interval whose start is after its end ('2020-12-31/2020-01-01') is rejected by check_time and loaded by run() (no order check in the loader).",
 ("Time","lower-case-t","validate-rejects"): "run() upper-cases before matching: '2020-01-01t10:00:00/2020-12-31t00:00:00' loads; validate_dataset rejects the lower-case t. The two sides differ (run() more permissive).",
 ("Time","blank-separator-or-fraction","run-rejects"): "check_time accepts a blank between date and time and fractional seconds ('2020-01-01 10:00:00/...', '...T10:00:00.5/...'); the loader pattern only knows 'T' + HH:MM:SS. Not documented; the two sides differ.",
 ("Time","one-digit-month-or-day","run-rejects"): "check_time accepts one-digit months / days in intervals ('2020-1-5/2020-2-7'); the loader rejects them. validate side more permissive than documented.",
 ("Duration","lower-case-or-blank-padded","validate-rejects"): "RUN SIDE WRONG: the loader checks UPPER(TRIM(x)) against A|S|Q|M|W|D but stores x unchanged: 'a', ' A', 'd ' load in run(); validate_dataset rejects them (docs: single upper-case letter).",
 ("Integer","empty-string","run-rejects"): "an empty string in an Integer DataFrame column: validate_dataset reads it as NULL, register_dataframes fails to cast it. The two sides differ.",
 ("Integer","hexadecimal","validate-rejects"): "RUN SIDE WRONG: register_dataframes loads '0x1F' as 31 (DuckDB cast); validate_dataset rejects it.",
 ("Integer","nan-or-inf","run-rejects"): "VALIDATE SIDE WRONG: 'nan' passes validate_dataset (float('nan') is mapped to NULL by Integer.cast); run() rejects it.",
 ("Integer","decimal-or-exponent-numeral","validate-rejects"): "RUN SIDE WRONG (DataFrame path): CAST(VARCHAR AS BIGINT) rounds: '1.5', '2.50', '.5', '1e-1' load as integers in run(); validate_dataset rejects them (docs: non-integer values are rejected). The CSV path rejects them too.",
 ("Integer","decimal-or-exponent-numeral","run-rejects"): "numerals at the edge of int64 ('-9223372036854775809', '9223372036854775807' on the CSV path): validate_dataset goes through float and accepts or rejects differently from DuckDB's exact cast. validate side wrong (float rounding).",
 ("Number","empty-string","run-rejects"): "an empty string in a Number DataFrame column: validate_dataset reads it as NULL, register_dataframes fails to cast it. The two sides differ.",
 ("Number","nan-or-inf","run-rejects"): "VALIDATE SIDE WRONG: 'nan', 'inf', '-inf', 'Infinity' pass validate_dataset (Python float()); run() rejects them (DECIMAL cast).",
 ("Number","decimal-or-exponent-numeral","run-rejects"): "numbers outside the DECIMAL range of the loader ('1e400', 30-digit integers) pass validate_dataset (double) and are rejected by run().",
 ("Boolean","empty-string","run-rejects"): "an empty string in a Boolean DataFrame column: validate_dataset reads it as NULL, register_dataframes fails to cast it. The two sides differ.",
 ("Boolean","text-that-is-not-a-boolean","run-rejects"): "VALIDATE SIDE WRONG: _parse_boolean maps every text that is not 'true'/'1' to False: 'maybe', '2', ' true', 'on', 'null', '1.0' pass validate_dataset; run() rejects them (documented: true/false/1/0).",
}
N = {
 "null-cell": "VALIDATE SIDE WRONG: _validate_pandas checks identifiers for NULL only: a NULL in a NON-NULLABLE measure passes validate_dataset; run() rejects it (NOT NULL constraint, reported as 'An Identifier cannot be null').",
}
S = {
 "extra-column": "a column that is not in the data structure: validate_dataset raises 0-3-1-15, run() ignores the column and loads the table. The two sides differ.",
 "null-in-non-nullable-measure": "VALIDATE SIDE WRONG: a NULL in a non-nullable measure passes validate_dataset (only identifiers are checked) and is rejected by run().",
 "duplicate-key-in-two-spellings": "VALIDATE SIDE WRONG: check_identifiers_duplicity compares the validated strings: '2020-01-15' and '2020-01-15 00:00:00' are two keys for validate_dataset and one key (duplicate) for run().",
 "empty-table": "VALIDATE SIDE WRONG: an empty CSV (header only) for a dataset with a Duration component makes validate_dataset raise TypeError (\"Cannot perform reduction 'all' with string dtype\"); run() loads the empty table.",
}
out=[]
seen=set()
for r in rows:
    k=r['key']
    if k in seen: continue
    seen.add(k)
    p=k.split('::')
    ex=r['example']; obs=r['observed']
    what=None
    if p[0]=='structure':
        what=S.get(p[2])
        if what: what=f"[{p[1]}, {p[3]} components] "+what
    elif 'null-cell' in k:
        what=f"[{p[0]}/{p[1]}] "+N['null-cell']
    elif p[1]=='df-native':
        what=f"[{p[0]}, DataFrame column of native dtype: {ex}] {obs}"
    else:
        w=W.get((p[0],p[3],p[2]))
        if w: what=f"[{p[1]}] "+w+f" Example {ex!r}: {obs[:150]}"
    if what is None:
        what=f"[{p[1] if len(p)>1 else ''}] {ex!r}: {obs[:260]}"
    out.append({"property":"C20","status":"known","key":k,"what":what})
with open(sys.argv[2],'w') as f:
    f.write("# C20 - validate_dataset vs run(): one line per disagreement class <type>::<form>::<direction>::<class> (classes: checks/_c20_classes.py).\n")
    f.write("# direction validate-rejects = validate_dataset raises, run() loads;  run-rejects = run() raises, validate_dataset accepts.  All replayed natively.\n")
    for o in sorted(out,key=lambda o:o['key']): f.write(json.dumps(o,ensure_ascii=False)+"\n")
import os
if len(sys.argv) > 3:
    prev=[json.loads(l) for l in open(sys.argv[3]) if l.strip() and not l.startswith('#')]
    cur={o['key'] for o in out}
    with open(sys.argv[2],'a') as f:
        f.write("# repaired in /repo since the first run of this check (kept for the record; status fixed = not used for matching)\n")
        for o in prev:
            if o['key'] not in cur and o.get('status')!='fixed':
                o['status']='fixed'; o['what']+=" [no longer observed: repaired by /repo commit 7dfdd95 'fix: DataFrame and Parquet inputs rounded non-integer values of Integer components']"
                f.write(json.dumps(o,ensure_ascii=False)+"\n")
print(len(out))
