#!/usr/bin/env python3
"""Prints the prompt for a fault-seeding sub-agent (property text only; nothing from /verif)."""
import json, sys
pid = sys.argv[1]; n = sys.argv[2] if len(sys.argv) > 2 else "a"
p = next(json.loads(l) for l in open('/verif/properties.jsonl') if json.loads(l)['id'] == pid)
wt = f"/tmp/wt_{pid}_{n}"; out = f"/tmp/seed_{pid}_{n}"
print(f"""You are helping to test a verification effort by playing the role of a developer who introduces a subtle, realistic bug.

Project: Meaningful-Data/vtlengine (Python interpreter for the SDMX Validation and Transformation Language, VTL; DuckDB back end). You have your own scratch git worktree of it at {wt} . Work ONLY inside {wt} and {out} (create {out}). Never touch /repo or /verif and never read anything under /verif.

The semantic property the project is supposed to satisfy:

  TITLE: {p['title']}
  STATEMENT: {p['statement']}
  SCOPE: {p['quantifier']['text']}
  Code the property is anchored in: {', '.join(p['anchors']['files'])}; mechanisms: {'; '.join(m['name'] + ' (' + m['where'] + ')' for m in p['anchors']['mechanism'])}

YOUR TASK: produce ONE small change to the source under {wt}/src/vtlengine (python or .sql files) that BREAKS this property, such that
  (1) the code still imports/compiles,
  (2) the existing test suite still passes exactly as before: run `cd {wt} && /venv/bin/python -m pytest -q -p no:cacheprovider --timeout=900 --continue-on-collection-errors 2>&1 | tail -3` - before and after your change it must report `169 passed` (the 56 failed / 69 errors are expected in this sandbox and must stay the same set - they fail because the compiled C++ parser is not built),
  (3) the breakage needs something SPECIFIC to manifest - an unusual input, a particular value/corner case (e.g. a particular year, a particular type combination, a particular sequence of calls, a failure at a particular point, two cooperating sites that each look fine alone) - NOT something ordinary use would expose at once. It should look like a plausible refactoring/optimisation/bug-fix gone slightly wrong, not sabotage; no comments announcing it.
  (4) you write a demonstration: a small standalone python program {out}/demo.py that exits 0 (prints PASS) on the ORIGINAL code and exits 1 (prints FAIL) on the CHANGED code. It takes the source root as argv[1] (e.g. `{wt}/src`), so it can be pointed at either tree. To check both ways use `git -C {wt} diff > {out}/patch.diff; git -C {wt} checkout -- .; ...; git -C {wt} apply {out}/patch.diff`. NEVER use `git stash` (the stash is shared with other worktrees of the same repository that other people are using).

SANDBOX FACTS you need:
  * The compiled parser extension is missing, so `import vtlengine` (the top package) and anything needing text->AST parsing (`run`, `create_ast`, `prettify`, `semantic_analysis` from a script string) cannot run. Everything below the parser can. Recipe to import the real modules from a source root SRC (python = /venv/bin/python, which has duckdb, pandas, sqlglot, pysdmx, networkx):
        import sys, types
        SRC = sys.argv[1]
        pkg = types.ModuleType('vtlengine'); pkg.__path__ = [SRC + '/vtlengine']; sys.modules['vtlengine'] = pkg
        stub = types.ModuleType('vtlengine.AST.Grammar._cpp_parser.vtl_cpp_parser')
        for n in ('ParseNode','TerminalNode','get_comments','get_input_text','parse'): setattr(stub, n, None)
        sys.modules['vtlengine.AST.Grammar._cpp_parser.vtl_cpp_parser'] = stub
        import vtlengine.AST, vtlengine.AST.DAG, vtlengine.Utils, vtlengine.Operators, vtlengine.Interpreter   # in this order (circular imports)
    After that every module imports (vtlengine.API._InternalApi, vtlengine.duckdb_transpiler.*, vtlengine.files.*, vtlengine.DataTypes.* ...).
  * SQL macros can be installed in a DuckDB connection with `from vtlengine.duckdb_transpiler.sql import initialize_time_types; initialize_time_types(conn)`.
  * A whole script can be executed below the parser by building `vtlengine.AST` nodes by hand (every node needs line_start=1, column_start=1, line_stop=1, column_stop=1), e.g. `A.Start(children=[A.PersistentAssignment(left=A.VarID(value='DS_r',**kw), op='<-', right=A.BinOp(left=A.VarID(value='DS_1',**kw), op='+', right=A.VarID(value='DS_2',**kw), **kw), **kw)], **kw)`, then `DAGAnalyzer.create_dag(ast)`, `InterpreterAnalyzer(datasets=..., scalars=...).visit(copy.deepcopy(ast))`, `SQLTranspiler(input_datasets=..., output_datasets=..., input_scalars=..., output_scalars={{}}, dag=dag).transpile(ast)` and `execute_queries(...)` inside `configured_connection()`; read `src/vtlengine/API/__init__.py::run` (the `use_duckdb` path) to see exactly how they are chained. Simpler demonstrations that call the affected function(s) directly are perfectly fine and preferred when they show the property is broken.
  * No network. Do not install anything.

DELIVERABLES in {out}/ :
  - patch.diff  : `git -C {wt} diff` of your change (source files only; do NOT modify tests)
  - demo.py     : as described (argv[1] = source root)
  - notes.md    : 5-15 lines: what the change is, why it breaks the property, what specific condition is needed for it to manifest, and the exact commands you ran with their observed output (test suite tail before/after, demo on both trees).
Leave the worktree with the change APPLIED (uncommitted). Report back a short summary (what you changed, the trigger condition, confirmation of 169 passed, demo results).""")
