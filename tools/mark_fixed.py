#!/usr/bin/env python3
"""Turn known-finding entries into 'fixed' ones after a "fix:" commit in /repo.
usage: mark_fixed.py <Cxx> <check output file> <key-regex>=<commit> [<key-regex>=<commit> ...]
An entry of known_findings.d/<Cxx>.jsonl (or known_findings.jsonl) is rewritten iff its key was NOT reported as
KNOWN-FINDING in the given run of the check on the repaired tree AND matches one of the regexes."""
import json, re, sys
from pathlib import Path
V = Path(__file__).resolve().parent.parent
pid, outf, pairs = sys.argv[1], sys.argv[2], [a.split("=", 1) for a in sys.argv[3:]]
hit = {l.rsplit("[", 1)[1].rstrip("]\n") for l in open(outf) if l.startswith("KNOWN-FINDING") and "[" in l}
for f in [V / "known_findings.d" / f"{pid}.jsonl", V / "known_findings.jsonl"]:
    if not f.exists():
        continue
    out, n = [], 0
    for line in f.read_text().splitlines():
        s = line.strip()
        if not s or s.startswith("#"):
            out.append(line); continue
        e = json.loads(s)
        if e.get("property") == pid and e.get("status") != "fixed" and e["key"] not in hit:
            c = next((c for rx, c in pairs if re.search(rx, e["key"])), None)
            if c:
                e["status"], e["commit"] = "fixed", c
                if not e["what"].startswith("fixed:"):
                    e["what"] = f"fixed: property={pid} {c} " + e["what"]
                n += 1
                line = json.dumps(e)
        out.append(line)
    f.write_text("\n".join(out) + "\n")
    print(f"{f.name}: {n} entries marked fixed")
