"""Documented value semantics of `cast` as an executable Python oracle (C09): used to replay solver counter-models
and as the reference of the bounded end-to-end tier.  Independent of the engine (no vtlengine import).

convert(src, tgt, value, rules) -> verdict, one of
   ("value", v)          the documented result (internal representation: Integer int, Number float, Boolean bool,
                          Date datetime.date, Time 'YYYY-MM-DD/YYYY-MM-DD', Time_Period canonical text
                          'YYYYA' | 'YYYY-Sn' | 'YYYY-Qn' | 'YYYY-Mnn' | 'YYYY-Wnn' | 'YYYY-Dnnn', Duration letter)
   ("error",)            the value cannot be converted: a VTL runtime error is required
   ("oneof", [v...], may_error)   any of the listed values (and a runtime error if may_error) is tolerated
   ("number-text", x)    any decimal text denoting the number x (String rendering of a Number is not documented)
   ("unspecified", why)  neither the docs nor the property pin the outcome down: no claim
`None` always converts to `None` (handled by the callers).

Sources of the rules: docs/data_types.rst ("Conversion details", "Key rules", the type reference sections: value
domain of Duration = single letters, Time = ISO interval, accepted Time_Period spellings), the property statement
("a runtime error for values that cannot be converted"), VTL 2.2 truncation for Number -> Integer as cited in
DataTypes.Integer.implicit_cast, and - for the four pairs the docs table omits (String->Boolean, Time->Date,
Time->Time_Period, Time_Period->Date) - the behaviour the repository implements in both engines and tests upstream.
"""
from __future__ import annotations

import datetime
import math
import re
from typing import Any, Dict, Optional, Tuple

from spec import vtl_time as vt

EPOCH = datetime.date(1970, 1, 1)
LETTERS = "ASQMWD"
ISO_OF = {"A": "P1Y", "S": "P6M", "Q": "P3M", "M": "P1M", "W": "P1W", "D": "P1D"}
NUMERIC = ("Integer", "Number")


def days(d: datetime.date) -> int:
    return (d - EPOCH).days


def date_of(z: int) -> datetime.date:
    return EPOCH + datetime.timedelta(days=z)


def parse_date(s: str) -> Optional[datetime.date]:
    m = re.fullmatch(r"(\d{4})-(\d{2})-(\d{2})", s)
    if not m:
        return None
    try:
        return datetime.date(int(m.group(1)), int(m.group(2)), int(m.group(3)))
    except ValueError:
        return None


def parse_interval(s: str) -> Optional[Tuple[datetime.date, datetime.date]]:
    parts = s.split("/")
    if len(parts) != 2:
        return None
    a, b = parse_date(parts[0]), parse_date(parts[1])
    if a is None or b is None or a > b:
        return None
    return a, b


def period_of_interval(a: datetime.date, b: datetime.date) -> Optional[Tuple[int, str, int]]:
    """The calendar period (A, S, Q, M, ISO week, D) whose first day is a and last day is b, if any."""
    za, zb = days(a), days(b)
    for ind in LETTERS:
        y, n = vt.period_of_date(za, ind)
        if vt.start_date(y, ind, n) == za and vt.end_date(y, ind, n) == zb:
            return y, ind, n
    return None


def parse_period(s: str) -> Optional[Tuple[int, str, int]]:
    """Documented Time_Period spellings (docs/data_types.rst, 'Accepted input formats') -> (year, indicator, number);
    None when s is none of them or names a period the calendar does not have."""
    m = re.fullmatch(r"(\d{4})(?:A|-A1)?", s)
    if m:
        return int(m.group(1)), "A", 1
    m = re.fullmatch(r"(\d{4})-?([SQ])(\d)", s) or re.fullmatch(r"(\d{4})-?([MW])(\d{1,2})", s) \
        or re.fullmatch(r"(\d{4})-?(D)-?(\d{1,3})", s)
    if m:
        y, ind, n = int(m.group(1)), m.group(2), int(m.group(3))
        return (y, ind, n) if 1 <= n <= vt.maxnum(ind, y) else None
    m = re.fullmatch(r"(\d{4})-(\d{1,2})", s)
    if m:
        y, n = int(m.group(1)), int(m.group(2))
        return (y, "M", n) if 1 <= n <= 12 else None
    d = parse_date(s)
    if d is not None:
        return d.year, "D", d.timetuple().tm_yday
    return None


def period_text(fmt: str, y: int, ind: str, n: int) -> Optional[str]:
    """Documented output representation of a period (docs 'Output formats' table); None = not supported."""
    if ind == "A":
        return f"{y:04d}-A1" if fmt == "sdmx_reporting" else f"{y:04d}"
    if fmt == "vtl":
        return f"{y:04d}{ind}{n}"
    if fmt == "sdmx_reporting":
        return vt.canon(y, ind, n)
    if ind == "M":
        return f"{y:04d}-{n:02d}"
    if ind == "D":
        return date_of(vt.start_date(y, "D", n)).isoformat()
    if fmt == "sdmx_gregorian":
        return None
    return f"{y:04d}-W{n:02d}" if ind == "W" else f"{y:04d}-{ind}{n}"


def _looks_numeric(s: str) -> Optional[bool]:
    """True: a plain decimal numeral; False: certainly not a number; None: spellings some parsers accept (blanks,
    exponent, signs without digits, nan/inf, '_' ...) - no claim."""
    if re.fullmatch(r"[+-]?\d+(\.\d+)?", s):
        return True
    if re.fullmatch(r"[A-Za-z][A-Za-z ]*", s) and s.strip().lower() not in ("nan", "inf", "infinity", "true", "false"):
        return False
    if s == "":
        return False
    return None


def convert(src: str, tgt: str, v: Any, rules: Dict[str, bool], fmt: str = "vtl") -> Tuple[Any, ...]:  # noqa: C901
    if src == tgt:
        if src == "Time_Period":
            p = parse_period(v)
            return ("value", vt.canon(*p)) if p else ("unspecified", "not a documented Time_Period spelling")
        return ("value", v)
    # ---- numbers and booleans -----------------------------------------------------------------------------------
    if src == "Integer" and tgt == "Number":
        return ("value", float(v))
    if src == "Number" and tgt == "Integer":
        if math.isnan(v) or math.isinf(v):
            return ("unspecified", "nan/inf")
        return ("value", math.trunc(v))
    if src in NUMERIC and tgt == "Boolean":
        return ("value", v != 0) if rules.get("num_to_bool") else ("unspecified", "rule not in docs")
    if src == "Boolean" and tgt in NUMERIC:
        if not rules.get("bool_to_num"):
            return ("unspecified", "rule not in docs")
        return ("value", (1 if v else 0) if tgt == "Integer" else (1.0 if v else 0.0))
    if src == "Boolean" and tgt == "String":
        return ("value", "True" if v else "False") if rules.get("bool_to_str") else ("unspecified", "rule not in docs")
    if src == "Integer" and tgt == "String":
        return ("value", str(int(v)))
    if src == "Number" and tgt == "String":
        return ("number-text", float(v))
    # ---- from String ---------------------------------------------------------------------------------------------
    if src == "String" and tgt == "Integer":
        if re.fullmatch(r"[+-]?\d+", v):
            return ("value", int(v))
        if re.fullmatch(r"[+-]?\d+\.\d+", v) and float(v) != int(float(v)):
            return ("error",) if rules.get("str_to_int") else ("unspecified", "rule not in docs")
        return ("error",) if _looks_numeric(v) is False else ("unspecified", "non-canonical numeral")
    if src == "String" and tgt == "Number":
        k = _looks_numeric(v)
        return ("value", float(v)) if k else ("error",) if k is False else ("unspecified", "non-canonical numeral")
    if src == "String" and tgt == "Boolean":
        if v.lower() in ("true", "false"):
            return ("value", v.lower() == "true")
        return ("unspecified", "pair not in the docs table; only 'true'/'false' are unambiguous")
    if src == "String" and tgt == "Date":
        d = parse_date(v)
        if d is not None:
            return ("value", d)
        if re.fullmatch(r"\d{4}-\d{2}-\d{2}", v) or not re.match(r"\d{4}-\d{1,2}-\d{1,2}", v):
            return ("error",)      # impossible calendar date, or not a date at all
        return ("unspecified", "date-like text with a time part / short fields")
    if src == "String" and tgt == "Time_Period":
        p = parse_period(v)
        if p is not None:
            return ("value", vt.canon(*p))
        if "/" in v:
            return ("unspecified", "interval text as Time_Period input is not documented")
        return ("error",) if not re.match(r"\d{4}", v) else ("unspecified", "period-like text")
    if src == "String" and tgt == "Time":
        iv = parse_interval(v)
        if iv is not None:
            return ("value", v)
        if re.fullmatch(r"\d{4}(-\d{2})?", v):
            return ("unspecified", "YYYY / YYYY-MM short forms")
        return ("error",) if rules.get("time_interval_form") else ("unspecified", "rule not in docs")
    if src == "String" and tgt == "Duration":
        if not rules.get("duration_letters"):
            return ("unspecified", "rule not in docs")
        if v in LETTERS and len(v) == 1:
            return ("value", v)
        iso = {b: a for a, b in ISO_OF.items()}
        if v.strip().upper() in iso:
            return ("oneof", [iso[v.strip().upper()]], True)
        if v.strip().upper() in LETTERS and len(v.strip()) == 1:
            return ("oneof", [v.strip().upper()], True)
        return ("error",)
    # ---- time types ----------------------------------------------------------------------------------------------
    if src == "Time" and tgt == "String":
        return ("value", v)
    if src == "Time" and tgt in ("Date", "Time_Period"):
        iv = parse_interval(v)
        if iv is None:
            return ("unspecified", "not a canonical interval")
        if tgt == "Date":
            return ("value", iv[0]) if iv[0] == iv[1] else ("error",)
        p = period_of_interval(*iv)
        return ("value", vt.canon(*p)) if p else ("error",)
    if src == "Date" and tgt == "Time":
        return ("value", f"{v.isoformat()}/{v.isoformat()}") if rules.get("date_to_time") else ("unspecified", "")
    if src == "Date" and tgt == "Time_Period":
        if not rules.get("date_to_period"):
            return ("unspecified", "rule not in docs")
        return ("value", vt.canon(v.year, "D", v.timetuple().tm_yday))
    if src == "Date" and tgt == "String":
        return ("unspecified", "text form of a Date under cast is not documented")
    if src == "Time_Period":
        p = parse_period(v)
        if p is None:
            return ("unspecified", "not a documented Time_Period spelling")
        y, ind, n = p
        if tgt == "String":
            t = period_text(fmt, y, ind, n)
            return ("value", t) if t is not None else ("error",)
        if tgt == "Time":
            if not rules.get("period_to_time"):
                return ("unspecified", "rule not in docs")
            return ("value", f"{date_of(vt.start_date(y, ind, n)).isoformat()}/{date_of(vt.end_date(y, ind, n)).isoformat()}")
        if tgt == "Date":
            return ("value", date_of(vt.start_date(y, ind, n))) if ind == "D" else ("error",)
    if src == "Duration" and tgt == "String":
        return ("oneof", [v, ISO_OF.get(v, v)], False)
    return ("unspecified", f"no documented rule for {src} -> {tgt}")
