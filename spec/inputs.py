"""Specification of the documented INPUT FORMATS (docs/data_types.rst, "Data Types Reference") as acceptors over a
character vector of concrete length (vc.sqlvc.CStr chars: ints or SMT terms).

Two acceptors per type, so that a correct engine is never alarmed in the zone the documentation leaves open:
    documented(s)  : s is one of the documented spellings of a value that exists (calendar-valid)  -> MUST be accepted
    generous(s)    : s can be read as a value at all under a permissive reading of the same formats
                     (documented spellings + case-insensitive letters + surrounding blanks + obvious padding variants)
                                                                                   -> anything accepted MUST be in here
    each alternative carries the value it denotes; a string in generous \\ documented may be rejected or accepted, but
    if it is accepted it must be stored as the value it denotes.
Both return a list of alternatives  (condition, denotation).
"""
from __future__ import annotations

import re
from typing import Any, Dict, List, Optional, Sequence, Tuple

from vc import calendar as cal
from vc.smt import And, Eq, Ge, Le, Lt, Not, Or
from vc.sqlvc import digits_value, is_digit

from . import vtl_time as vt
from .docs import REPO, list_tables

Alt = Tuple[Any, Any]


def _lit(chars: Sequence[Any], text: str, ci: bool = False) -> Any:
    conds = []
    for c, t in zip(chars, text):
        o = ord(t)
        if ci and t.isalpha():
            conds.append(Or(Eq(c, o), Eq(c, o ^ 32)))
        else:
            conds.append(Eq(c, o))
    return And(*conds)


def _digits(chars: Sequence[Any]) -> Any:
    return And(*[is_digit(c) for c in chars])


# ------------------------------------------------------------------------------------------------------------------
# Time_Period
# ------------------------------------------------------------------------------------------------------------------
def doc_period_templates() -> Dict[str, List[str]]:
    txt = (REPO / "docs" / "data_types.rst").read_text()
    for _ln, rows in list_tables(txt):
        head = [c.strip() for c in rows[0]]
        if head == ["Period", "Formats", "Examples"]:
            names = {"Annual": "A", "Semester": "S", "Quarter": "Q", "Monthly": "M", "Weekly": "W", "Daily": "D"}
            return {names[r[0].strip()]: re.findall(r"``([^`]+)``", r[1]) for r in rows[1:]}
    raise AssertionError("Time_Period input format table not found in docs/data_types.rst")


# documented template -> (text between year and number, allowed digit counts, fixed number or None)
TEMPLATES: Dict[str, Tuple[str, str, Tuple[int, ...], Optional[int]]] = {
    "YYYY": ("A", "", (0,), 1), "YYYYA": ("A", "A", (0,), 1), "YYYY-A1": ("A", "-A1", (0,), 1),
    "YYYYSx": ("S", "S", (1,), None), "YYYY-Sx": ("S", "-S", (1,), None),
    "YYYYQx": ("Q", "Q", (1,), None), "YYYY-Qx": ("Q", "-Q", (1,), None),
    "YYYYMm": ("M", "M", (1,), None), "YYYYMmm": ("M", "M", (2,), None), "YYYY-MM": ("M", "-", (2,), None),
    "YYYY-M": ("M", "-", (1,), None), "YYYY-Mxx": ("M", "-M", (2,), None), "YYYY-Mx": ("M", "-M", (1,), None),
    "YYYYWw": ("W", "W", (1,), None), "YYYYWww": ("W", "W", (2,), None), "YYYY-Wxx": ("W", "-W", (2,), None),
    "YYYYD[dd]d": ("D", "D", (1, 2, 3), None), "YYYY-D[xx]x": ("D", "-D", (1, 2, 3), None),
    "YYYY-MM-DD": ("D", "date", (0,), None),
}
# permissive additions (same shapes the parsers of the engine use): 1-digit hyphenated week, YYYY-A, YYYYA1
GENEROUS_EXTRA: List[Tuple[str, str, Tuple[int, ...], Optional[int]]] = [
    ("W", "-W", (1,), None), ("A", "-A", (0,), 1), ("A", "A1", (0,), 1),
]


def _period_alts(chars: Sequence[Any], forms: Sequence[Tuple[str, str, Tuple[int, ...], Optional[int]]], ci: bool,
                 ylo: int, yhi: int) -> List[Alt]:
    n = len(chars)
    out: List[Alt] = []
    if n < 4:
        return out
    y = digits_value(chars[:4])
    yok = And(_digits(chars[:4]), Ge(y, ylo), Le(y, yhi))
    for ind, mid, counts, fixed in forms:
        if mid == "date":
            if n != 10:
                continue
            m, d = digits_value(chars[5:7]), digits_value(chars[8:10])
            shape = And(yok, Eq(chars[4], 45), Eq(chars[7], 45), _digits(chars[5:7]), _digits(chars[8:10]),
                        cal.valid_date(y, m, d))
            out.append((shape, (y, "D", cal.day_of_year(cal.days_from_civil(y, m, d, True)))))
            continue
        for k in counts:
            if n != 4 + len(mid) + k:
                continue
            tail = chars[4 + len(mid):]
            num: Any = fixed if fixed is not None else digits_value(tail)
            shape = And(yok, _lit(chars[4:], mid, ci), _digits(tail), vt.wf(y, ind, num))
            out.append((shape, (y, ind, num)))
    return out


def period_documented(chars: Sequence[Any], ylo: int = 1000, yhi: int = 9999) -> List[Alt]:
    docs = doc_period_templates()
    forms = []
    for ind, tmpls in docs.items():
        for t in tmpls:
            if t not in TEMPLATES:
                raise AssertionError(f"documented Time_Period template {t!r} unknown to spec/inputs.py")
            assert TEMPLATES[t][0] == ind, t
            forms.append(TEMPLATES[t])
    return _period_alts(chars, forms, False, ylo, yhi)


def period_generous(chars: Sequence[Any], ylo: int = 1000, yhi: int = 9999) -> List[Alt]:
    """documented forms, case-insensitive, plus GENEROUS_EXTRA, after trimming surrounding blanks (every split)."""
    forms = list(TEMPLATES.values()) + GENEROUS_EXTRA
    n = len(chars)
    out: List[Alt] = []
    for a in range(0, n + 1):
        for b in range(a, n + 1):
            if (a or b < n) and b - a < 4:
                continue
            blanks = And(*[Eq(c, 32) for c in list(chars[:a]) + list(chars[b:])])
            core = chars[a:b]
            edge = And(Not(Eq(core[0], 32)), Not(Eq(core[-1], 32))) if core else True
            for cond, den in _period_alts(core, forms, True, ylo, yhi):
                out.append((And(blanks, edge, cond), den))
    return out


# ------------------------------------------------------------------------------------------------------------------
# Duration
# ------------------------------------------------------------------------------------------------------------------
def duration_documented(chars: Sequence[Any]) -> List[Alt]:
    if len(chars) != 1:
        return []
    return [(Eq(chars[0], ord(x)), x) for x in "ASQMWD"]


def duration_generous(chars: Sequence[Any]) -> List[Alt]:
    out: List[Alt] = []
    for i in range(len(chars)):
        blanks = And(*[Eq(c, 32) for j, c in enumerate(chars) if j != i])
        for x in "ASQMWD":
            out.append((And(blanks, Or(Eq(chars[i], ord(x)), Eq(chars[i], ord(x) ^ 32))), x))
    return out


# ------------------------------------------------------------------------------------------------------------------
# Date  (denotation: (days since 1970-01-01, has_time))
# ------------------------------------------------------------------------------------------------------------------
def _date_at(chars: Sequence[Any], mlen: int, dlen: int, ylo: int, yhi: int) -> Tuple[Any, Any, int]:
    """date text YYYY-M[M]-D[D] at the start of chars: (condition, days, length)."""
    ln = 4 + 1 + mlen + 1 + dlen
    if len(chars) < ln:
        return False, 0, ln
    y = digits_value(chars[:4])
    mch, dch = chars[5:5 + mlen], chars[6 + mlen:6 + mlen + dlen]
    m, d = digits_value(mch), digits_value(dch)
    cond = And(_digits(chars[:4]), Eq(chars[4], 45), _digits(mch), Eq(chars[5 + mlen], 45), _digits(dch),
               Ge(y, ylo), Le(y, yhi), cal.valid_date(y, m, d))
    return cond, cal.days_from_civil(y, m, d, True), ln


def _time_part(chars: Sequence[Any]) -> Any:
    """[ T]HH:MM:SS with in-range fields (exactly 9 characters)."""
    if len(chars) != 9:
        return False
    hh, mm, ss = digits_value(chars[1:3]), digits_value(chars[4:6]), digits_value(chars[7:9])
    return And(Or(Eq(chars[0], 32), Eq(chars[0], 84)), _digits(chars[1:3]), Eq(chars[3], 58), _digits(chars[4:6]),
               Eq(chars[6], 58), _digits(chars[7:9]), Le(hh, 23), Le(mm, 59), Le(ss, 59))


# docs/data_types.rst, Date: "A time component, when present, must be a complete HH:MM:SS (T or space separator). An
# optional timezone suffix (Z or +-HH:MM) is accepted ... Nanosecond precision is truncated to microseconds."
_TIME_WITH_SUFFIX = r"[ T]([01]\d|2[0-3]):[0-5]\d:[0-5]\d(\.\d+)?([+-]\d{2}:\d{2}|Z)?"


def _time_part_ext(chars: Sequence[Any]) -> Any:
    """the documented time component including the optional fraction and timezone suffix (any length >= 9)."""
    if len(chars) < 9:
        return False
    from vc import regexvc
    return regexvc.fullmatch(_TIME_WITH_SUFFIX, list(chars))


def date_documented(chars: Sequence[Any], ylo: int = 1800, yhi: int = 9999) -> List[Alt]:
    out: List[Alt] = []
    cond, z, ln = _date_at(chars, 2, 2, ylo, yhi)
    if len(chars) == ln:
        out.append((cond, (z, False)))
    elif len(chars) >= ln + 9:
        out.append((And(cond, _time_part_ext(chars[ln:])), (z, True)))
    return out


def date_generous(chars: Sequence[Any], ylo: int = 1800, yhi: int = 9999) -> List[Alt]:
    out: List[Alt] = []
    for mlen in (1, 2):
        for dlen in (1, 2):
            cond, z, ln = _date_at(chars, mlen, dlen, ylo, yhi)
            if len(chars) == ln:
                out.append((cond, (z, False)))
            elif len(chars) >= ln + 9:
                out.append((And(cond, _time_part_ext(chars[ln:])), (z, True)))
    return out


# ------------------------------------------------------------------------------------------------------------------
# Time (interval)   denotation: (start days, end days)
# ------------------------------------------------------------------------------------------------------------------
def time_documented(chars: Sequence[Any], ylo: int = 1000, yhi: int = 9999) -> List[Alt]:
    n = len(chars)
    out: List[Alt] = []
    if n == 21:
        c1, z1, _ = _date_at(chars[:10], 2, 2, ylo, yhi)
        c2, z2, _ = _date_at(chars[11:], 2, 2, ylo, yhi)
        out.append((And(c1, Eq(chars[10], 47), c2, Le(z1, z2)), (z1, z2)))
    if n == 4:
        y = digits_value(chars)
        out.append((And(_digits(chars), Ge(y, ylo), Le(y, yhi)),
                    (cal.days_from_civil(y, 1, 1, True), cal.days_from_civil(y, 12, 31, True))))
    if n == 7:
        y, m = digits_value(chars[:4]), digits_value(chars[5:7])
        out.append((And(_digits(chars[:4]), Eq(chars[4], 45), _digits(chars[5:7]), Ge(y, ylo), Le(y, yhi), Ge(m, 1),
                        Le(m, 12)),
                    (cal.days_from_civil(y, m, 1, True), cal.days_from_civil(y, m, cal.days_in_month(y, m), True))))
    return out


def time_generous(chars: Sequence[Any], ylo: int = 1000, yhi: int = 9999) -> List[Alt]:
    """documented forms + time-of-day parts on either side (the value is still the pair of days) + 1-digit month."""
    n = len(chars)
    out = list(time_documented(chars, ylo, yhi))
    for l1 in (10, 19):
        for l2 in (10, 19):
            if n != l1 + 1 + l2 or (l1, l2) == (10, 10):
                continue
            c1, z1, _ = _date_at(chars[:10], 2, 2, ylo, yhi)
            c2, z2, _ = _date_at(chars[l1 + 1:l1 + 11], 2, 2, ylo, yhi)
            t1 = _time_part(chars[10:19]) if l1 == 19 else True
            t2 = _time_part(chars[l1 + 11:]) if l2 == 19 else True
            out.append((And(c1, t1, Eq(chars[l1], 47), c2, t2, Le(z1, z2)), (z1, z2)))
    if n == 6:
        y, m = digits_value(chars[:4]), digits_value(chars[5:6])
        out.append((And(_digits(chars[:4]), Eq(chars[4], 45), _digits(chars[5:6]), Ge(y, ylo), Le(y, yhi), Ge(m, 1)),
                    (cal.days_from_civil(y, m, 1, True), cal.days_from_civil(y, m, cal.days_in_month(y, m), True))))
    return out
