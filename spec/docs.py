"""Mechanical parsers of the documentation tables used as oracles (re-read from /repo/docs on every run)."""
from __future__ import annotations

import re
from pathlib import Path
from typing import Dict, List, Optional, Tuple

import os

REPO = Path(os.environ.get("VERIF_REPO", "/repo"))


def list_tables(rst: str) -> List[Tuple[int, List[List[str]]]]:
    """All `.. list-table::` blocks of an RST text: (line number, rows of cell texts)."""
    lines = rst.splitlines()
    out = []
    i = 0
    while i < len(lines):
        if lines[i].strip().startswith(".. list-table::"):
            start = i
            i += 1
            rows: List[List[str]] = []
            cur: Optional[List[str]] = None
            base_indent = None
            while i < len(lines):
                ln = lines[i]
                if ln.strip() == "" or re.match(r"\s+:[a-z-]+:", ln):
                    i += 1
                    continue
                ind = len(ln) - len(ln.lstrip())
                if base_indent is None:
                    if not ln.lstrip().startswith("* -"):
                        break
                    base_indent = ind
                if ind < base_indent:
                    break
                s = ln.strip()
                if ind == base_indent and s.startswith("* -"):
                    cur = [s[3:].strip()]
                    rows.append(cur)
                elif s.startswith("- ") or s == "-":
                    assert cur is not None
                    cur.append(s[1:].strip())
                else:
                    assert cur is not None
                    cur[-1] = (cur[-1] + " " + s).strip()
                i += 1
            out.append((start + 1, rows))
        else:
            i += 1
    return out


def _clean(c: str) -> str:
    return c.replace("**", "").replace("``", "").strip()


def matrix_after(rst_path: str, heading_regex: str) -> Dict[str, Dict[str, str]]:
    """The first list-table after a heading matching `heading_regex`, as {row: {col: cell}}."""
    txt = (REPO / rst_path).read_text()
    m = re.search(heading_regex, txt, re.M)
    assert m, f"heading {heading_regex!r} not found in {rst_path}"
    line = txt[: m.start()].count("\n") + 1
    for start, rows in list_tables(txt):
        if start > line:
            header = [_clean(c) for c in rows[0]]
            out: Dict[str, Dict[str, str]] = {}
            for r in rows[1:]:
                out[_clean(r[0])] = {h: _clean(c) for h, c in zip(header[1:], r[1:])}
            return out
    raise AssertionError(f"no table after {heading_regex!r}")


def implicit_cast_table() -> Dict[str, Dict[str, bool]]:
    t = matrix_after("docs/data_types.rst", r"^Implicit Casting \(Automatic\)\n=+")
    return {r: {c: v == "|y|" for c, v in cols.items()} for r, cols in t.items()}


def explicit_cast_table() -> Dict[str, Dict[str, str]]:
    return matrix_after("docs/data_types.rst", r"^Supported conversions without mask\n-+")


# doc type name -> class name in DataTypes/__init__.py
DOC_TYPE_TO_CLASS = {"String": "String", "Number": "Number", "Integer": "Integer", "Boolean": "Boolean",
                     "Time": "TimeInterval", "Date": "Date", "Time_Period": "TimePeriod", "Duration": "Duration"}
