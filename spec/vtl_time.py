"""Calendar specification of VTL time periods (spec functions over the term layer: fold on ints, SMT on terms).

A period is (year, indicator, number) with indicator in A S Q M W D and 1 <= number <= maxnum(indicator, year):
A 1, S 2, Q 4, M 12, W = ISO weeks of the ISO year (52/53), D = days of the year (365/366).
"""
from __future__ import annotations

from typing import Any, Tuple

from vc import calendar as cal
from vc import smt
from vc.smt import Add, And, Eq, FloorDiv, Ge, Ite, Le, Lt, Mod, Mul, Or, Sub

INDS = "ASQMWD"
RANK = {"A": 6, "S": 5, "Q": 4, "M": 3, "W": 2, "D": 1}
MONTHS = {"A": 12, "S": 6, "Q": 3, "M": 1}


def maxnum(ind: str, y: Any) -> Any:
    if ind == "W":
        return cal.iso_weeks_in_year(y)
    if ind == "D":
        return cal.days_in_year(y)
    return {"A": 1, "S": 2, "Q": 4, "M": 12}[ind]


def wf(y: Any, ind: str, n: Any) -> Any:
    return And(Ge(n, 1), Le(n, maxnum(ind, y)))


def start_date(y: Any, ind: str, n: Any) -> Any:
    if ind == "W":
        return Add(cal.iso_week1_monday(y), Mul(Sub(n, 1), 7))
    if ind == "D":
        return Add(cal.days_from_civil(y, 1, 1, True), Sub(n, 1))
    k = MONTHS[ind]
    return cal.days_from_civil(y, Add(Mul(Sub(n, 1), k), 1), 1, True)


def end_date(y: Any, ind: str, n: Any) -> Any:
    if ind == "W":
        return Add(start_date(y, ind, n), 6)
    if ind == "D":
        return start_date(y, ind, n)
    k = MONTHS[ind]
    m = Mul(n, k)
    return cal.days_from_civil(y, m, cal.days_in_month(y, m), True)


def period_of_date(z: Any, ind: str) -> Tuple[Any, Any]:
    """The period of indicator `ind` that contains day z."""
    if ind == "W":
        return cal.iso_year_week(z)
    y, m, _d = cal.civil_from_days(z)
    if ind == "D":
        return y, cal.day_of_year(z)
    k = MONTHS[ind]
    return y, Add(FloorDiv(Sub(m, 1), k), 1)


def shift(y: Any, ind: str, n: Any, k: Any) -> Tuple[Any, Any]:
    """The period k steps after (before, for k < 0) period (y, ind, n) in calendar order."""
    if ind == "W":
        return cal.iso_year_week(Add(start_date(y, ind, n), Mul(k, 7)))
    if ind == "D":
        return period_of_date(Add(start_date(y, ind, n), k), "D")
    L = {"A": 1, "S": 2, "Q": 4, "M": 12}[ind]
    tot = Add(Add(Mul(y, L), Sub(n, 1)), k)
    return FloorDiv(tot, L), Add(Mod(tot, L), 1)


def canon(y: int, ind: str, n: int) -> str:
    """Canonical internal text of a period (documented VTL engine form)."""
    if ind == "A":
        return f"{y:04d}A"
    w = {"S": 1, "Q": 1, "M": 2, "W": 2, "D": 3}[ind]
    return f"{y:04d}-{ind}{n:0{w}d}"
