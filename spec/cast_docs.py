"""Documented behaviour of the `cast` operator, parsed mechanically from docs/data_types.rst on every run (C09).

* explicit_table()  : "Supported conversions without mask"  {from: {to: True/False}}   (|y| cells)
* implicit_table()  : "Implicit Casting (Automatic)"        (+ "Null to any type")
* mask_table()      : "Supported conversions with mask"     cells marked |p| = defined, not implemented
* rename_table()    : "Cast on datasets"                    {target type: generic measure name}
* conversion_rules(): the "Conversion details" / "Key rules" bullets the value obligations quote; a bullet that
                      disappears from the docs makes the corresponding clause *unspecified* (dropped, listed), never
                      silently kept.
Type names are the documented ones (String, Number, Integer, Boolean, Time, Date, Time_Period, Duration).
"""
from __future__ import annotations

import re
from typing import Dict, List, Tuple

from spec.docs import REPO, explicit_cast_table, implicit_cast_table, list_tables, matrix_after

DOC_TYPES = ["String", "Number", "Integer", "Boolean", "Time", "Date", "Time_Period", "Duration"]

# (source, target) pairs on which documentation and intended behaviour cannot be told apart from the docs alone:
# the "without mask" table prints "—" but the repository implements the conversion on purpose in BOTH engines
# (DataTypes.*.explicit_cast, dedicated SQL macros vtl_period_to_date / vtl_interval_to_date / vtl_interval_to_period,
# upstream tests tests/Cast/test_cast.py::TestCastStringToBoolean, ::TestCastTimePeriodToDate, ::TestCastTimeIntervalToDate,
# ::TestCastTimeIntervalToTimePeriod) and the "with mask" table lists Time_Period -> Date as defined by VTL 2.2.
# They are left OUT of the accept/reject equivalence (either verdict is tolerated) and listed in the evidence.
UNSPECIFIED_PAIRS: List[Tuple[str, str]] = [("String", "Boolean"), ("Time", "Date"), ("Time", "Time_Period"),
                                            ("Time_Period", "Date")]


def explicit_table() -> Dict[str, Dict[str, bool]]:
    t = explicit_cast_table()
    return {r: {c: v == "|y|" for c, v in cols.items()} for r, cols in t.items()}


def implicit_table() -> Dict[str, Dict[str, bool]]:
    return implicit_cast_table()


def mask_table() -> Dict[str, Dict[str, str]]:
    return matrix_after("docs/data_types.rst", r"^Supported conversions with mask\n-+")


def rename_table() -> Dict[str, str]:
    txt = (REPO / "docs" / "data_types.rst").read_text()
    for _ln, rows in list_tables(txt):
        head = [c.strip() for c in rows[0]]
        if head == ["Target type", "Renamed measure"]:
            return {r[0].strip(): r[1].strip().strip("`") for r in rows[1:]}
    raise AssertionError("'Cast on datasets' rename table not found in docs/data_types.rst")


def _flat() -> str:
    return re.sub(r"\s+", " ", (REPO / "docs" / "data_types.rst").read_text())


RULE_PATTERNS = {
    # rule id -> regex over the whitespace-flattened RST text
    "num_to_bool": r"\*\*Number/Integer to Boolean\*\*: ``0`` becomes ``false``, any other value becomes ``true``",
    "bool_to_num": r"\*\*Boolean to Number/Integer\*\*: ``true`` becomes ``1`` \(or ``1\.0``\), ``false`` becomes ``0`` "
                   r"\(or ``0\.0``\)",
    "str_to_int": r"\*\*String to Integer\*\*: Must be a valid integer string \(rejects ``\"3\.5\"``\)",
    "date_to_period": r"\*\*Date to Time_Period\*\*: Converts to daily period",
    "date_to_time": r"\*\*Date to Time\*\*: A Date is implicitly converted to a Time interval "
                    r"\(``\"2020-01-15\"`` becomes ``\"2020-01-15/2020-01-15\"``\)",
    "period_to_time": r"\*\*Time_Period to Time\*\*: A Time_Period is implicitly converted to a Time interval "
                      r"\(``\"2020-Q1\"`` becomes ``\"2020-01-01/2020-03-31\"``\)",
    "bool_to_str": r"\*\*Boolean to String\*\*: ``true`` becomes ``\"True\"``, ``false`` becomes ``\"False\"``",
    "null_any": r"\*\*Null to any type\*\*: Null is compatible with every type",
    "mono_measure": r"it must have exactly \*\*one measure\*\*",
    "no_rename_implicit": r"When the source type can be implicitly promoted to the target type .{0,120}? the measure is "
                          r"\*\*not\*\* renamed",
    "mask_not_implemented": r"defined in VTL 2\.2 but not yet implemented \(raises ``NotImplementedError``\)",
    "duration_letters": r"Single-letter period indicator: ``\"A\"`` \(annual\), ``\"S\"`` \(semester\), ``\"Q\"`` "
                        r"\(quarter\), ``\"M\"`` \(month\), ``\"W\"`` \(week\), ``\"D\"`` \(day\)",
    "time_interval_form": r"ISO 8601 interval: ``\"2020-01-01/2020-12-31\"``",
}


def conversion_rules() -> Dict[str, bool]:
    """Which of the quoted documentation sentences are present in the working tree's docs."""
    flat = _flat()
    return {k: re.search(p, flat) is not None for k, p in RULE_PATTERNS.items()}


def allowed(src: str, tgt: str) -> bool:
    """Documented acceptance of cast(src -> tgt) without mask: explicit table or implicit table; Null -> anything."""
    if src == "Null":
        return True
    return bool(explicit_table().get(src, {}).get(tgt) or implicit_table().get(src, {}).get(tgt))
