"""Reference semantics of the VTL operator subset used by the bounded tier (independent of the engine).

An IR term is a tuple; `to_ast` compiles it to the vtlengine AST the way ASTConstructor would (shapes documented in
spec/ast_shapes.md), `ev` evaluates it over reference datasets.  Only operators whose VTL 2.1 meaning is unambiguous
are included; where I am not certain (sign of mod for negatives, rounding at .5, string ordering by collation) the
operator is left out rather than guessed.

IR:
  ("ds", name) | ("sc", name) | ("const", value)
  ("bin", op, a, b)      op in + - * / = <> < <= > >= and or xor || nvl
  ("un", op, a)          op in not - abs isnull length upper lower trim
  ("in", a, [values], negated) | ("between", a, lo, hi)
  ("memb", ds, comp)     ds#comp
  ("if", cond, then, else)   (dataset level: cond must be a mono-measure boolean dataset expression)
  ("clause", kind, ds, args)  kind in filter calc keep drop rename sub aggr
        filter: args = cexpr ; calc: [(name, cexpr)] ; keep/drop: [names] ; rename: [(old, new)] ; sub: [(id, value)]
        aggr: ([(name, aggop, measure)], grouping_op, [ids], having_cexpr|None)
     component-level expressions (cexpr): ("comp", name) | ("const", v) | ("bin"...) | ("un"...) | ("if"...) | ("in"...)
                                          | ("agg", op, measure)   (inside having only)
  ("agg", op, ds, grouping_op, [ids], having|None)      op in sum avg count min max
  ("join", op, [(ds, alias|None)], using|None, body)    body: list of ("filter"|"calc"|"keep"|"drop"|"rename", args)
  ("set", op, [ds, ...])                                op in union intersect setdiff symdiff
"""
from __future__ import annotations

import itertools
import math
from dataclasses import dataclass, field
from typing import Any, Dict, List, Optional, Sequence, Tuple

from vc import pipeline as P


class RefError(Exception):
    """A VTL runtime error in the reference evaluation (e.g. division by zero)."""


class RefUnsupported(Exception):
    """The reference does not define this case (program is skipped, never counted)."""


@dataclass
class RDS:
    ids: List[str]
    meas: List[str]
    rows: List[Dict[str, Any]]
    types: Dict[str, str] = field(default_factory=dict)

    def key(self, r: Dict[str, Any], ids: Optional[Sequence[str]] = None) -> Tuple[Any, ...]:
        return tuple(r[i] for i in (ids if ids is not None else self.ids))


# ---- scalar semantics -----------------------------------------------------------------------------------------------
def sc_bin(op: str, a: Any, b: Any) -> Any:
    if op == "and":
        if a is False or b is False:
            return False
        return None if a is None or b is None else True
    if op == "or":
        if a is True or b is True:
            return True
        return None if a is None or b is None else False
    if op == "nvl":
        return b if a is None else a
    if op == "/" and a is None and b == 0 and b is not None:
        raise RefUnsupported("null / 0: not sure whether VTL wants null or the division-by-zero error")
    if a is None or b is None:
        return None
    if op == "xor":
        return bool(a) != bool(b)
    if op == "+":
        return a + b
    if op == "-":
        return a - b
    if op == "*":
        return a * b
    if op == "/":
        if b == 0:
            raise RefError("2-1-15-6")
        return a / b
    if op == "||":
        return str(a) + str(b)
    if op == "=":
        return a == b
    if op == "<>":
        return a != b
    if op == "<":
        return a < b
    if op == "<=":
        return a <= b
    if op == ">":
        return a > b
    if op == ">=":
        return a >= b
    raise RefUnsupported(op)


def sc_un(op: str, a: Any) -> Any:
    if op == "isnull":
        return a is None
    if a is None:
        return None
    if op == "not":
        return not a
    if op == "-":
        return -a
    if op == "abs":
        return abs(a)
    if op == "length":
        return len(a)
    if op == "upper":
        return a.upper()
    if op == "lower":
        return a.lower()
    if op == "trim":
        return a.strip(" ")
    raise RefUnsupported(op)


# ---- evaluation -----------------------------------------------------------------------------------------------------
def ev(t: Any, env: Dict[str, Any]) -> Any:  # noqa: C901
    k = t[0]
    if k in ("ds", "sc"):
        return env[t[1]]
    if k == "const":
        return t[1]
    if k == "bin":
        r = lift2(t[1], ev(t[2], env), ev(t[3], env))
        return boolvar(r) if t[1] in ("=", "<>", "<", "<=", ">", ">=") else r
    if k == "un":
        r = lift1(lambda v: sc_un(t[1], v), ev(t[2], env))
        return boolvar(r) if t[1] == "isnull" else r
    if k == "in":
        vals, neg = t[2], t[3]

        def f(v: Any) -> Any:
            if v is None:
                return None
            r = v in vals
            return (not r) if neg else r
        return boolvar(lift1(f, ev(t[1], env)))
    if k == "between":
        lo, hi = ev(t[2], env), ev(t[3], env)
        return boolvar(lift1(lambda v: None if v is None or lo is None or hi is None else (lo <= v <= hi), ev(t[1], env)))
    if k == "memb":
        d = ev(t[1], env)
        return RDS(d.ids, [t[2]], [{**{i: r[i] for i in d.ids}, t[2]: r[t[2]]} for r in d.rows], d.types)
    if k == "if":
        return ds_if(ev(t[1], env), ev(t[2], env), ev(t[3], env))
    if k == "clause":
        return clause(t[1], ev(t[2], env), t[3], env)
    if k == "agg":
        return aggregate(ev(t[2], env), [(m, t[1], m) for m in ev(t[2], env).meas], t[3], t[4], t[5], env)
    if k == "join":
        return join(t, env)
    if k == "set":
        return setop(t[1], [ev(x, env) for x in t[2]])
    raise RefUnsupported(k)


def boolvar(r: Any) -> Any:
    """Comparison-like operators on a dataset need a single measure and name their result bool_var."""
    if not isinstance(r, RDS):
        return r
    if len(r.meas) != 1:
        raise RefUnsupported("boolean-valued operator on a multi-measure dataset")
    m = r.meas[0]
    return RDS(r.ids, ["bool_var"], [{**{i: x[i] for i in r.ids}, "bool_var": x[m]} for x in r.rows], r.types)


def lift1(f: Any, a: Any) -> Any:
    if isinstance(a, RDS):
        return RDS(a.ids, a.meas, [{**{i: r[i] for i in a.ids}, **{m: f(r[m]) for m in a.meas}} for r in a.rows], a.types)
    return f(a)


def lift2(op: str, a: Any, b: Any) -> Any:
    if isinstance(a, RDS) and isinstance(b, RDS):
        common = [i for i in a.ids if i in b.ids]
        if not (set(a.ids) <= set(b.ids) or set(b.ids) <= set(a.ids)):
            raise RefUnsupported("identifier sets not nested")
        ids = a.ids if len(a.ids) >= len(b.ids) else b.ids
        if sorted(a.meas) != sorted(b.meas):
            raise RefUnsupported("different measures")
        idx: Dict[Tuple[Any, ...], List[Dict[str, Any]]] = {}
        for r in b.rows:
            idx.setdefault(b.key(r, common), []).append(r)
        rows = []
        for r in a.rows:
            for s in idx.get(a.key(r, common), []):
                base = {i: (r[i] if i in r else s[i]) for i in ids}
                rows.append({**base, **{m: sc_bin(op, r[m], s[m]) for m in a.meas}})
        return RDS(list(ids), list(a.meas), rows, a.types)
    if isinstance(a, RDS):
        return RDS(a.ids, a.meas, [{**{i: r[i] for i in a.ids}, **{m: sc_bin(op, r[m], b) for m in a.meas}} for r in a.rows], a.types)
    if isinstance(b, RDS):
        return RDS(b.ids, b.meas, [{**{i: r[i] for i in b.ids}, **{m: sc_bin(op, a, r[m]) for m in b.meas}} for r in b.rows], b.types)
    return sc_bin(op, a, b)


def ds_if(c: RDS, th: Any, el: Any) -> RDS:
    """Dataset if-then-else: per datapoint of the condition; true -> then operand, false or null -> else operand;
    a datapoint whose identifiers have no partner in the selected operand is absent."""
    if len(c.meas) != 1:
        raise RefUnsupported("condition not mono-measure")
    cm = c.meas[0]
    ref = th if isinstance(th, RDS) else el
    if not isinstance(ref, RDS):
        raise RefUnsupported("if with two scalar branches at dataset level")
    for br in (th, el):
        if isinstance(br, RDS) and (sorted(br.ids) != sorted(c.ids) or sorted(br.meas) != sorted(ref.meas)):
            raise RefUnsupported("if branches with a structure different from the condition's identifiers")
    meas = ref.meas

    def index(d: RDS) -> Dict[Tuple[Any, ...], Dict[str, Any]]:
        return {d.key(r, c.ids): r for r in d.rows}
    ti = index(th) if isinstance(th, RDS) else None
    ei = index(el) if isinstance(el, RDS) else None
    rows = []
    for r in c.rows:
        branch, bi = (th, ti) if r[cm] is True else (el, ei)
        if bi is None:
            rows.append({**{i: r[i] for i in c.ids}, **{m: branch for m in meas}})
        else:
            s = bi.get(c.key(r))
            if s is not None:
                rows.append({**{i: r[i] for i in c.ids}, **{m: s[m] for m in meas}})
    return RDS(list(c.ids), list(meas), rows, ref.types)


def cev(e: Any, row: Dict[str, Any], env: Dict[str, Any], group: Optional[List[Dict[str, Any]]] = None) -> Any:
    k = e[0]
    if k == "comp":
        return row[e[1]]
    if k == "const":
        return e[1]
    if k == "sc":
        return env[e[1]]
    if k == "bin":
        return sc_bin(e[1], cev(e[2], row, env, group), cev(e[3], row, env, group))
    if k == "un":
        return sc_un(e[1], cev(e[2], row, env, group))
    if k == "if":
        c = cev(e[1], row, env, group)
        return cev(e[2], row, env, group) if c is True else cev(e[3], row, env, group)
    if k == "in":
        v = cev(e[1], row, env, group)
        if v is None:
            return None
        r = v in e[2]
        return (not r) if e[3] else r
    if k == "agg":
        assert group is not None
        return agg_value(e[1], [g[e[2]] for g in group] if e[2] else [1 for _ in group], no_operand=not e[2])
    raise RefUnsupported(k)


def agg_value(op: str, vals: List[Any], no_operand: bool = False) -> Any:
    nn = [v for v in vals if v is not None]
    if op == "count":
        if no_operand:
            # count() without operand: datapoints of the group, or only those without null measures?  not sure -> left out
            raise RefUnsupported("count() without operand")
        if not nn:
            raise RefUnsupported("count of a group that has only nulls (0 or null? not sure)")
        return len(nn)
    if not nn:
        return None
    if op == "sum":
        return sum(nn)
    if op == "avg":
        return sum(nn) / len(nn)
    if op == "min":
        return min(nn)
    if op == "max":
        return max(nn)
    raise RefUnsupported(op)


def clause(kind: str, d: RDS, args: Any, env: Dict[str, Any]) -> RDS:  # noqa: C901
    if kind == "filter":
        return RDS(d.ids, d.meas, [r for r in d.rows if cev(args, r, env) is True], d.types)
    if kind == "calc":
        meas = list(d.meas)
        for name, _e in args:
            if name in d.ids:
                raise RefUnsupported("calc overwriting an identifier")
            if name not in meas:
                meas.append(name)
        rows = []
        for r in d.rows:
            new = dict(r)
            for name, e in args:
                new[name] = cev(e, r, env)       # every expression sees the INPUT datapoint
            rows.append(new)
        return RDS(d.ids, meas, rows, d.types)
    if kind == "keep":
        return RDS(d.ids, [m for m in d.meas if m in args], [{k: r[k] for k in d.ids + [m for m in d.meas if m in args]} for r in d.rows], d.types)
    if kind == "drop":
        keep = [m for m in d.meas if m not in args]
        return RDS(d.ids, keep, [{k: r[k] for k in d.ids + keep} for r in d.rows], d.types)
    if kind == "rename":
        mp = dict(args)                           # simultaneous substitution
        ren = lambda n: mp.get(n, n)  # noqa: E731
        return RDS([ren(i) for i in d.ids], [ren(m) for m in d.meas], [{ren(k): v for k, v in r.items()} for r in d.rows], d.types)
    if kind == "sub":
        fixed = dict(args)
        ids = [i for i in d.ids if i not in fixed]
        rows = [{k: r[k] for k in ids + d.meas} for r in d.rows if all(r[i] == v for i, v in fixed.items())]
        return RDS(ids, d.meas, rows, d.types)
    if kind == "aggr":
        items, gop, gids, having = args
        return aggregate(d, items, gop, gids, having, env)
    raise RefUnsupported(kind)


def aggregate(d: RDS, items: List[Tuple[str, str, Optional[str]]], gop: Optional[str], gids: Optional[List[str]],
              having: Any, env: Dict[str, Any]) -> RDS:
    if gop == "group by":
        ids = [i for i in d.ids if i in (gids or [])]
        ids = list(gids or [])
    elif gop == "group except":
        ids = [i for i in d.ids if i not in (gids or [])]
    elif gop is None:
        ids = []
    else:
        raise RefUnsupported(gop)
    groups: Dict[Tuple[Any, ...], List[Dict[str, Any]]] = {}
    for r in d.rows:
        groups.setdefault(tuple(r[i] for i in ids), []).append(r)
    if not ids and not groups:
        raise RefUnsupported("aggregate of an empty dataset without grouping (one datapoint or none? not sure)")
    if len(d.meas) > 1 and any(op == "count" for _n, op, _m in items):
        raise RefUnsupported("count over a multi-measure dataset")
    rows = []
    for key, g in groups.items():
        if having is not None and cev(having, {}, env, g) is not True:
            continue
        rows.append({**dict(zip(ids, key)), **{name: agg_value(op, [x[m] for x in g] if m else [1] * len(g), no_operand=not m)
                                              for name, op, m in items}})
    return RDS(ids, [n for n, _o, _m in items], rows, d.types)


def join(t: Any, env: Dict[str, Any]) -> RDS:  # noqa: C901
    _k, op, operands, using, body = t
    dsets = [(ev(x, env), alias or (x[1] if x[0] == "ds" else f"op{i}")) for i, (x, alias) in enumerate(operands)]
    # component naming: identifiers keep their names; a non-identifier name present in several operands is alias#name
    all_ids: List[str] = []
    for d, _a in dsets:
        for i in d.ids:
            if i not in all_ids:
                all_ids.append(i)
    counts: Dict[str, int] = {}
    for d, _a in dsets:
        for m in d.meas:
            counts[m] = counts.get(m, 0) + 1
    def cname(alias: str, m: str) -> str:
        return f"{alias}#{m}" if counts[m] > 1 else m
    if op == "cross_join":
        raise RefUnsupported("cross_join")
    first, fa = dsets[0]
    cur_rows = [{**{i: r[i] for i in first.ids}, **{cname(fa, m): r[m] for m in first.meas}} for r in first.rows]
    cur_ids = list(first.ids)
    cur_meas = [cname(fa, m) for m in first.meas]
    for d, a in dsets[1:]:
        keys = list(using) if using else [i for i in d.ids if i in cur_ids]
        idx: Dict[Tuple[Any, ...], List[Dict[str, Any]]] = {}
        for r in d.rows:
            idx.setdefault(tuple(r[i] for i in keys), []).append(r)
        new_ids = cur_ids + [i for i in d.ids if i not in cur_ids]
        new_meas = cur_meas + [cname(a, m) for m in d.meas]
        out = []
        matched = set()
        for r in cur_rows:
            partners = idx.get(tuple(r[i] for i in keys), [])
            if partners:
                for s in partners:
                    matched.add(id(s))
                    out.append({**r, **{i: s[i] for i in d.ids if i not in cur_ids}, **{cname(a, m): s[m] for m in d.meas}})
            elif op in ("left_join", "full_join"):
                out.append({**r, **{i: None for i in d.ids if i not in cur_ids}, **{cname(a, m): None for m in d.meas}})
        if op == "full_join":
            for s in d.rows:
                if id(s) not in matched:
                    out.append({**{i: s.get(i) for i in new_ids}, **{m: None for m in cur_meas}, **{cname(a, m): s[m] for m in d.meas}})
        cur_rows, cur_ids, cur_meas = out, new_ids, new_meas
    res = RDS(cur_ids, cur_meas, cur_rows, {})
    for kind, args in body:
        res = clause(kind, res, args, env)
    # unqualify names that are no longer ambiguous
    final = {}
    for m in res.meas:
        short = m.split("#")[-1]
        final[m] = short if sum(1 for x in res.meas if x.split("#")[-1] == short) == 1 else m
    return clause("rename", res, list(final.items()), env)


def setop(op: str, ds: List[RDS]) -> RDS:
    first = ds[0]
    key = lambda r: tuple(r[i] for i in first.ids)  # noqa: E731
    if op == "union":
        seen = set()
        rows = []
        for d in ds:
            for r in d.rows:
                if key(r) not in seen:
                    seen.add(key(r))
                    rows.append(r)
        return RDS(first.ids, first.meas, rows, first.types)
    if op == "intersect":
        rows = [r for r in first.rows if all(any(key(s) == key(r) for s in d.rows) for d in ds[1:])]
        return RDS(first.ids, first.meas, rows, first.types)
    if op == "setdiff":
        other = {key(s) for s in ds[1].rows}
        return RDS(first.ids, first.meas, [r for r in first.rows if key(r) not in other], first.types)
    if op == "symdiff":
        a, b = {key(s) for s in ds[0].rows}, {key(s) for s in ds[1].rows}
        return RDS(first.ids, first.meas, [r for r in ds[0].rows if key(r) not in b] + [r for r in ds[1].rows if key(r) not in a], first.types)
    raise RefUnsupported(op)


# ---- compilation to the engine's AST ------------------------------------------------------------------------------------
def cid(name: str) -> Any:
    return P.A().Identifier(value=name, kind="ComponentID", **P.KW)


def did(name: str) -> Any:
    return P.A().Identifier(value=name, kind="DatasetID", **P.KW)


def const_node(v: Any) -> Any:
    if v is None:
        return P.A().Constant(type_="NULL_CONSTANT", value=None, **P.KW)
    if isinstance(v, bool):
        return P.A().Constant(type_="BOOLEAN_CONSTANT", value=v, **P.KW)
    if isinstance(v, int):
        return P.A().Constant(type_="INTEGER_CONSTANT", value=v, **P.KW)
    if isinstance(v, float):
        return P.A().Constant(type_="FLOAT_CONSTANT", value=v, **P.KW)
    return P.A().Constant(type_="STRING_CONSTANT", value=v, **P.KW)


def comp_ref(name: str) -> Any:
    if "#" in name:
        a, c = name.split("#")
        return P.A().BinOp(left=did(a), op="#", right=cid(c), **P.KW)
    return P.var(name)


def to_ast(t: Any) -> Any:  # noqa: C901
    A = P.A()
    k = t[0]
    if k in ("ds", "sc"):
        return P.var(t[1])
    if k == "comp":
        return comp_ref(t[1])
    if k == "const":
        return const_node(t[1])
    if k == "bin":
        return A.BinOp(left=to_ast(t[2]), op=t[1], right=to_ast(t[3]), **P.KW)
    if k == "un":
        return A.UnaryOp(op=t[1], operand=to_ast(t[2]), **P.KW)
    if k == "in":
        coll = A.Collection(name="List", type="Lists", children=[const_node(v) for v in t[2]], kind="Set", **P.KW)
        return A.BinOp(left=to_ast(t[1]), op="not_in" if t[3] else "in", right=coll, **P.KW)
    if k == "between":
        return A.MulOp(op="between", children=[to_ast(t[1]), to_ast(t[2]), to_ast(t[3])], **P.KW)
    if k == "memb":
        return A.BinOp(left=to_ast(t[1]), op="#", right=cid(t[2]), **P.KW)
    if k == "if":
        return A.If(condition=to_ast(t[1]), thenOp=to_ast(t[2]), elseOp=to_ast(t[3]), **P.KW)
    if k == "agg" and len(t) == 3:
        return A.Aggregation(op=t[1], operand=P.var(t[2]) if t[2] else None, **P.KW)
    if k == "clause":
        return clause_ast(t[1], to_ast(t[2]), t[3])
    if k == "agg":
        return A.Aggregation(op=t[1], operand=to_ast(t[2]), grouping_op=t[3], grouping=[cid(i) for i in (t[4] or [])] or None,
                             having_clause=having_node(t[5]), **P.KW)
    if k == "join":
        _k, op, operands, using, body = t
        clauses = [A.BinOp(left=to_ast(x), op="as", right=did(a), **P.KW) if a else to_ast(x) for x, a in operands]
        node: Any = A.JoinOp(op=op, clauses=clauses, using=list(using) if using else None, **P.KW)
        for kind, args in body:
            node = clause_ast(kind, node, args)
        node.isLast = True
        return node
    if k == "set":
        return A.MulOp(op=t[1], children=[to_ast(x) for x in t[2]], **P.KW)
    raise RefUnsupported(k)


def having_node(h: Any) -> Any:
    if h is None:
        return None
    n = P.A().ParamOp(op="having", children=None, params=to_ast(h), **P.KW)
    n.expr = "having"
    return n


def clause_ast(kind: str, dataset: Any, args: Any) -> Any:
    A = P.A()
    from vtlengine.Model import Role
    if kind == "filter":
        ch: List[Any] = [to_ast(args)]
    elif kind == "calc":
        ch = [A.UnaryOp(op="measure", operand=A.Assignment(left=cid(n), op=":=", right=to_ast(e), **P.KW), **P.KW) for n, e in args]
    elif kind in ("keep", "drop"):
        ch = [comp_ref(n) if "#" in n else cid(n) for n in args]
    elif kind == "rename":
        ch = [A.RenameNode(old_name=o, new_name=n, **P.KW) for o, n in args]
    elif kind == "sub":
        ch = [A.BinOp(left=P.var(i), op="=", right=const_node(v), **P.KW) for i, v in args]
    elif kind == "aggr":
        items, gop, gids, having = args
        ch = []
        for name, op, m in items:
            left = cid(name)
            left.role = Role.MEASURE
            ch.append(A.Assignment(left=left, op=":=", right=A.Aggregation(
                op=op, operand=P.var(m) if m else None, grouping_op=gop, grouping=[cid(i) for i in (gids or [])] or None,
                having_clause=having_node(having), **P.KW), **P.KW))
    else:
        raise RefUnsupported(kind)
    return A.RegularAggregation(op=kind, children=ch, dataset=dataset, **P.KW)
