"""The documented scalar type hierarchy (docs/data_types.rst, section "Type Hierarchy"), parsed mechanically from the
tree drawn in the `.. code-block:: text` that follows the heading (re-read from the working tree on every run).

    Scalar
    ├── String
    ├── Number
    │   └── Integer          (subtype of Number)
    ...

`type_tree()` -> ({doc type name: parent doc type name or None for the children of the root}, (first line, last line))
`subtype_or_equal(parent)` -> reflexive-transitive closure as a set of (sub, super) pairs of doc type names.
"""
from __future__ import annotations

import re
from typing import Dict, List, Optional, Set, Tuple

from spec.docs import REPO

RST = "docs/data_types.rst"


def type_tree() -> Tuple[Dict[str, Optional[str]], Tuple[int, int]]:
    lines = (REPO / RST).read_text().splitlines()
    h = next((i for i, ln in enumerate(lines[:-1]) if ln.strip() == "Type Hierarchy" and set(lines[i + 1].strip()) == {"*"}),
             None)
    assert h is not None, f"heading 'Type Hierarchy' not found in {RST}"
    i = h + 2
    while i < len(lines) and not lines[i].strip().startswith(".. code-block::"):
        assert not re.match(r"^[*=\-~^]{4,}\s*$", lines[i]), "no code-block before the next heading"
        i += 1
    assert i < len(lines), "no code-block after 'Type Hierarchy'"
    i += 1
    block: List[Tuple[int, str]] = []
    while i < len(lines):
        ln = lines[i]
        if ln.strip() == "":
            if block:
                break
            i += 1
            continue
        if not ln.startswith(" "):
            break
        block.append((i + 1, ln))
        i += 1
    assert block, "empty hierarchy block"
    indent = min(len(ln) - len(ln.lstrip()) for _, ln in block)
    parent: Dict[str, Optional[str]] = {}
    stack: List[Tuple[int, str]] = []          # (column of the name, name)
    root: Optional[str] = None
    for _, ln in block:
        body = ln[indent:]
        m = re.match(r"^([│├└─\s]*)([A-Za-z_]+)", body)
        assert m, f"unreadable hierarchy line {ln!r}"
        col, name = len(m.group(1)), m.group(2)
        while stack and stack[-1][0] >= col:
            stack.pop()
        if not stack:
            assert root is None, "two roots in the hierarchy block"
            root = name
        else:
            parent[name] = None if stack[-1][1] == root else stack[-1][1]
        stack.append((col, name))
    assert root is not None and parent, "hierarchy block has no children"
    return parent, (block[0][0], block[-1][0])


def subtype_or_equal(parent: Dict[str, Optional[str]]) -> Set[Tuple[str, str]]:
    out: Set[Tuple[str, str]] = set()
    for n in parent:
        cur: Optional[str] = n
        while cur is not None:
            out.add((n, cur))
            cur = parent.get(cur)
    return out
