"""Reference semantics of the VTL validation / hierarchy operators for the bounded tier of C07.

Independent evaluation (plain Python over lists of dict rows) of check_datapoint, check, check_hierarchy and
hierarchy for the rule shapes of checks/_valprograms.py.  Source of the semantics: the VTL 2.1 Reference Manual
(operators "check_datapoint", "check_hierarchy", "check", "hierarchy"; the worked examples are in the repository as
tests/ReferenceManual/data RM132-134, RM157-160 and are replayed by the check as document oracle).  The manual text is
not in the repository, so every case in which I am not certain what it prescribes is answered UNSPEC and is NOT
compared (listed in UNSPECIFIED below and in the evidence of C07): a correct engine must never be alarmed by a
misreading of mine.

Three-valued answers for a candidate result datapoint:  PRODUCED (with values, each value possibly `OneOf`),
ABSENT (must not be returned), UNSPEC (presence and values not compared).
"""
from __future__ import annotations

import itertools
from dataclasses import dataclass, field
from typing import Any, Callable, Dict, List, Optional, Sequence, Set, Tuple

# A datapoint rule `when A then C` whose antecedent A evaluates to NULL has the outcome NULL (bool_var NULL in modes
# all / all_measures; not reported in invalid mode; no errorcode / errorlevel).  Decided from the material in the
# repository (none of the sources says otherwise):
NULL_ANTECEDENT_SOURCES = [
    "tests/Bugs GL_117_3 / GL_117_4 (upstream issue #117, expected outputs recorded from the reference implementation): "
    "datapoint (code_1, 3, 3) with Me_2 = NULL, Me_3 = 1, Id_1 = code_1 under rule 3 `when Me_2 = 2 and Me_3 = 1 then "
    "Id_1 = \"code_1\"` - antecedent NULL, consequent TRUE - has bool_var NULL in `all` and `all_measures` output; "
    "replayed by C07 on every run as document oracle (classes `repository example GL_117_*`)",
    "the SQL of SQLTranspiler._build_dp_rule_sql is written as three-valued logic on purpose: CASE WHEN (A) THEN (C) WHEN "
    "NOT (A) THEN TRUE ELSE NULL END (an explicit third branch for the NULL antecedent)",
    "the reference manual's own examples (tests/ReferenceManual RM157 / RM158) contain no NULL antecedent: silent, no "
    "disagreement",
    "Interpreter.visit_HRBinOp / Operators/Validation.py in this tree are semantic-only (no value-level evaluation of "
    "`when`): silent",
]

UNSPECIFIED = [
    "hierarchy / check_hierarchy mode non_zero: produced-or-not when the result (hierarchy) resp. both sides "
    "(check_hierarchy) are 0 although some item is non-zero, and when no item is non-zero but some item is NULL "
    "(manual text and manual example RM133 disagree on C = P + Q = 0)",
    "modes always_null / always_zero when NO item of the rule exists for the group (manual: 'in any case'; which groups "
    "exist then is not defined)",
    "hierarchy input mode `rule`: an item that is the left side of another rule, has no computed datapoint for the group "
    "but exists in the operand (manual: taken from the rule output only; left out)",
    "hierarchy input mode `rule_priority`: computed datapoint is NULL and the operand has no datapoint",
    "check_hierarchy: value of the measure column (invalid / all_measures) when the left code item has no datapoint",
    "check: rows whose identifiers are missing from the imbalance operand (not generated)",
    "hierarchical rules with `when` conditions, code-item conditions, leading unary minus; check_hierarchy input mode "
    "dataset_priority; valuedomain signatures; datapoint-ruleset aliases beyond plain renaming; viral attributes",
    "result order of datapoints (datasets are compared as keyed sets)",
]

ZERO_MODES = ("non_zero", "partial_zero", "always_zero")
MODES = ("non_null", "non_zero", "partial_null", "partial_zero", "always_null", "always_zero")


class OneOf:
    """A value the reference leaves open between several alternatives."""

    def __init__(self, *alts: Any) -> None:
        self.alts = alts

    def __repr__(self) -> str:
        return "OneOf" + repr(self.alts)


@dataclass
class RefResult:
    key_cols: List[str]
    value_cols: List[str]
    rows: Dict[Tuple[Any, ...], Dict[str, Any]] = field(default_factory=dict)      # PRODUCED
    unspec: Set[Tuple[Any, ...]] = field(default_factory=set)                     # UNSPEC keys
    skip_cols: Dict[Tuple[Any, ...], Set[str]] = field(default_factory=dict)      # columns not compared for a key


# ---- three-valued conditions -------------------------------------------------------------------------------------------------
def ev(c: Any, r: Dict[str, Any]) -> Any:
    k = c[0]
    if k == "col":
        return r[c[1]]
    if k == "const":
        return c[1]
    if k == "cmp":
        a, b = ev(c[2], r), ev(c[3], r)
        if a is None or b is None:
            return None
        return {"=": a == b, "<>": a != b, "<": a < b, "<=": a <= b, ">": a > b, ">=": a >= b}[c[1]]
    if k == "and":
        a, b = ev(c[1], r), ev(c[2], r)
        if a is False or b is False:
            return False
        return None if a is None or b is None else True
    if k == "or":
        a, b = ev(c[1], r), ev(c[2], r)
        if a is True or b is True:
            return True
        return None if a is None or b is None else False
    if k == "not":
        a = ev(c[1], r)
        return None if a is None else (not a)
    if k == "isnull":
        return ev(c[1], r) is None
    raise ValueError(c)


def dp_rule_value(rule: Dict[str, Any], r: Dict[str, Any]) -> Any:
    """TRUE / FALSE / NULL.  `when A then C`: C where A is TRUE, TRUE where A is FALSE, NULL where A is NULL (see
    NULL_ANTECEDENT_SOURCES: the outcome of a rule whose antecedent is unknown is unknown)."""
    if rule.get("when") is None:
        return ev(rule["then"], r)
    w = ev(rule["when"], r)
    if w is True:
        return ev(rule["then"], r)
    if w is False:
        return True
    return None


def rule_ids(rules: Sequence[Dict[str, Any]]) -> List[str]:
    return [r["name"] if r.get("name") else str(i) for i, r in enumerate(rules, 1)]


# ---- check_datapoint ------------------------------------------------------------------------------------------------------------
def check_datapoint(ids: Sequence[str], measures: Sequence[str], rows: Sequence[Dict[str, Any]],
                    rules: Sequence[Dict[str, Any]], output: str, aliases: Optional[Dict[str, str]] = None) -> RefResult:
    """aliases: {name used in the rules: dataset component}."""
    vcols = {"invalid": list(measures) + ["errorcode", "errorlevel"],
             "all": ["bool_var", "errorcode", "errorlevel"],
             "all_measures": list(measures) + ["bool_var", "errorcode", "errorlevel"]}[output]
    res = RefResult(list(ids) + ["ruleid"], vcols)
    for rid, rule in zip(rule_ids(rules), rules):
        for r in rows:
            view = dict(r)
            for al, comp in (aliases or {}).items():
                view[al] = r[comp]
            v = dp_rule_value(rule, view)
            key = tuple(r[i] for i in ids) + (rid,)
            failed = v is False
            out: Dict[str, Any] = {m: r[m] for m in measures}
            out["bool_var"] = v
            out["errorcode"] = rule.get("erCode") if failed else None
            out["errorlevel"] = rule.get("erLevel") if failed else None
            if output == "invalid":
                if failed:
                    res.rows[key] = {c: out[c] for c in vcols}
            else:
                res.rows[key] = {c: out[c] for c in vcols}
    return res


# ---- check ---------------------------------------------------------------------------------------------------------------------------
def check(ids: Sequence[str], bool_rows: Sequence[Dict[str, Any]], bool_measure: str,
          imbalance_rows: Optional[Sequence[Dict[str, Any]]], imbalance_measure: Optional[str],
          error_code: Optional[str], error_level: Optional[int], invalid: bool) -> RefResult:
    vcols = (["imbalance", "errorcode", "errorlevel"] if invalid else ["bool_var", "imbalance", "errorcode", "errorlevel"])
    res = RefResult(list(ids), vcols)
    imb: Dict[Tuple[Any, ...], Any] = {}
    if imbalance_rows is not None:
        for r in imbalance_rows:
            imb[tuple(r[i] for i in ids)] = r[imbalance_measure]
    for r in bool_rows:
        key = tuple(r[i] for i in ids)
        b = r[bool_measure]
        if imbalance_rows is not None and key not in imb:
            res.unspec.add(key)
            continue
        out = {"bool_var": b, "imbalance": imb.get(key), "errorcode": error_code if b is False else None,
               "errorlevel": error_level if b is False else None}
        if invalid and b is not False:
            continue
        res.rows[key] = {c: out[c] for c in vcols}
    return res


# ---- hierarchies -------------------------------------------------------------------------------------------------------------------
PRODUCED, ABSENT, UNSPEC = "produced", "absent", "unspec"


def _groups(ids: Sequence[str], comp: str, measure: str, rows: Sequence[Dict[str, Any]]
            ) -> Tuple[List[str], Dict[Tuple[Any, ...], Dict[str, Any]]]:
    other = [i for i in ids if i != comp]
    g: Dict[Tuple[Any, ...], Dict[str, Any]] = {}
    for r in rows:
        g.setdefault(tuple(r[i] for i in other), {})[r[comp]] = r[measure]
    return other, g


def _subst(present: bool, v: Any, mode: str) -> Any:
    if not present:
        return 0 if mode in ZERO_MODES else None
    return v


def _total(items: Sequence[Tuple[str, Tuple[bool, Any]]], mode: str) -> Any:
    tot: Any = 0
    for sg, (p, v) in items:
        x = _subst(p, v, mode)
        if x is None:
            return None
        tot = tot + x if sg == "+" else tot - x
    return tot


def _decide(mode: str, involved: Sequence[Tuple[bool, Any]], zero_result: Callable[[], bool]) -> str:
    """Is the result datapoint produced, given (present, value) of every involved item."""
    anyp = any(p for p, _ in involved)
    nonnull = [v for p, v in involved if p and v is not None]
    if mode == "non_null":
        return PRODUCED if all(p and v is not None for p, v in involved) else ABSENT
    if mode in ("partial_null", "partial_zero"):
        return PRODUCED if nonnull else ABSENT
    if mode in ("always_null", "always_zero"):
        return PRODUCED if anyp else UNSPEC
    # non_zero
    if not anyp:
        return ABSENT
    if any(v != 0 for v in nonnull):
        return UNSPEC if zero_result() else PRODUCED
    if len(nonnull) == sum(1 for p, _ in involved if p):
        return ABSENT                       # every existing item is a non-null zero
    return UNSPEC


def _cmp(op: str, a: Any, b: Any) -> Any:
    if a is None or b is None:
        return None
    return {"=": a == b, ">": a > b, "<": a < b, ">=": a >= b, "<=": a <= b}[op]


def check_hierarchy(ids: Sequence[str], comp: str, measure: str, rows: Sequence[Dict[str, Any]],
                    rules: Sequence[Dict[str, Any]], mode: str, output: str) -> RefResult:
    other, groups = _groups(ids, comp, measure, rows)
    vcols = {"invalid": [measure, "imbalance", "errorcode", "errorlevel"],
             "all": ["bool_var", "imbalance", "errorcode", "errorlevel"],
             "all_measures": [measure, "bool_var", "imbalance", "errorcode", "errorlevel"]}[output]
    res = RefResult(other + [comp, "ruleid"], vcols)
    for rid, rule in zip(rule_ids(rules), rules):
        for gk, items in groups.items():
            key = gk + (rule["left"], rid)
            left = (rule["left"] in items, items.get(rule["left"]))
            right = [(sg, (it in items, items.get(it))) for sg, it in rule["right"]]
            lv, rv = _subst(left[0], left[1], mode), _total(right, mode)
            verdict = _decide(mode, [left] + [x for _, x in right], lambda: lv == 0 and rv == 0)
            b = _cmp(rule["op"], lv, rv)
            if output == "invalid" and b is not False:
                continue                    # whatever the mode says: only FALSE outcomes are reported
            if verdict == UNSPEC:
                res.unspec.add(key)
                continue
            if verdict == ABSENT:
                continue
            out = {measure: lv, "bool_var": b, "imbalance": None if lv is None or rv is None else lv - rv,
                   "errorcode": rule.get("erCode") if b is False else None,
                   "errorlevel": rule.get("erLevel") if b is False else None}
            if output == "invalid" and b is not False:
                continue
            res.rows[key] = {c: out[c] for c in vcols}
            if not left[0]:
                res.skip_cols[key] = {measure}
    return res


def dependency_order(rules: Sequence[Dict[str, Any]]) -> Optional[List[int]]:
    """Indices of the `=` rules in an order in which every rule follows the rules computing its right-hand items;
    None when the `=` rules are cyclic or define an item twice."""
    eq = [i for i, r in enumerate(rules) if r["op"] == "="]
    lefts = [rules[i]["left"] for i in eq]
    if len(set(lefts)) != len(lefts):
        return None
    if any(it == rules[i]["left"] for i in eq for _, it in rules[i]["right"]):
        return None                         # self-reference: left out
    done: List[int] = []
    rest = list(eq)
    while rest:
        ready = [i for i in rest
                 if not any(it == rules[j]["left"] for _, it in rules[i]["right"] for j in rest if j != i)]
        if not ready:
            return None
        done.append(ready[0])
        rest.remove(ready[0])
    return done


def hierarchy(ids: Sequence[str], comp: str, measure: str, rows: Sequence[Dict[str, Any]],
              rules: Sequence[Dict[str, Any]], mode: str, input_mode: str, output: str) -> Optional[RefResult]:
    """None when the ruleset is outside the reference (cyclic / duplicate definitions)."""
    order = dependency_order(rules)
    if order is None:
        return None
    other, groups = _groups(ids, comp, measure, rows)
    defined = {rules[i]["left"] for i in order}
    computed: Dict[Tuple[str, Tuple[Any, ...]], Any] = {}
    unspec: Set[Tuple[str, Tuple[Any, ...]]] = set()
    res = RefResult(other + [comp], [measure])

    class Open(Exception):
        pass

    def get(item: str, gk: Tuple[Any, ...], me: str) -> Tuple[bool, Any]:
        in_op = item in groups.get(gk, {})
        opv = groups.get(gk, {}).get(item)
        if input_mode == "dataset" or item not in defined or item == me:
            return in_op, opv
        if (item, gk) in unspec:
            raise Open()
        if input_mode == "rule":
            if (item, gk) in computed:
                return True, computed[(item, gk)]
            if in_op:
                raise Open()
            return False, None
        # rule_priority
        if (item, gk) in computed and computed[(item, gk)] is not None:
            return True, computed[(item, gk)]
        if in_op:
            return True, opv
        if (item, gk) in computed:
            raise Open()
        return False, None

    for i in order:
        rule = rules[i]
        for gk in groups:
            key = (rule["left"], gk)
            try:
                right = [(sg, get(it, gk, rule["left"])) for sg, it in rule["right"]]
            except Open:
                unspec.add(key)
                continue
            tot = _total(right, mode)
            verdict = _decide(mode, [x for _, x in right], lambda: tot == 0)
            if verdict == UNSPEC:
                unspec.add(key)
            elif verdict == PRODUCED:
                computed[key] = tot
    def out_key(item: str, gk: Tuple[Any, ...]) -> Tuple[Any, ...]:
        d = dict(zip(other, gk))
        d[comp] = item
        return tuple(d[c] for c in other + [comp])
    for (item, gk), v in computed.items():
        res.rows[out_key(item, gk)] = {measure: v}
    for (item, gk) in unspec:
        res.unspec.add(out_key(item, gk))
    if output == "all":
        for gk, items in groups.items():
            for item, v in items.items():
                k = out_key(item, gk)
                if k not in res.rows and k not in res.unspec:
                    res.rows[k] = {measure: v}
    return res


# ---- comparison with an engine result ---------------------------------------------------------------------------------------
def _norm(v: Any) -> Any:
    if v is None:
        return None
    try:
        import pandas as pd
        if v is pd.NA or v is pd.NaT:
            return None
    except Exception:  # noqa: BLE001
        pass
    if hasattr(v, "item"):
        v = v.item()
    if isinstance(v, float) and v != v:
        return None
    return v


def same(a: Any, b: Any) -> bool:
    """engine value a vs reference value b."""
    if isinstance(b, OneOf):
        return any(same(a, x) for x in b.alts)
    a, b = _norm(a), _norm(b)
    if a is None or b is None:
        return a is None and b is None
    if isinstance(a, bool) or isinstance(b, bool):
        return isinstance(a, bool) and isinstance(b, bool) and a == b
    if isinstance(a, (int, float)) and isinstance(b, (int, float)):
        return abs(float(a) - float(b)) <= 1e-9 * max(1.0, abs(float(a)), abs(float(b)))
    if isinstance(a, (int, float)) != isinstance(b, (int, float)):
        try:
            return float(a) == float(b)
        except (TypeError, ValueError):
            return str(a) == str(b)
    return str(a) == str(b)


def compare(frame: Any, ref: RefResult) -> Optional[str]:
    """None when the engine's frame is the reference result (as a keyed set, UNSPEC parts aside)."""
    cols = list(frame.columns)
    for c in ref.key_cols + ref.value_cols:
        if c not in cols:
            return f"result has no column {c!r} (columns {cols})"
    got: Dict[Tuple[Any, ...], Dict[str, Any]] = {}
    for rec in frame.to_dict("records"):
        key = tuple(_norm(rec[k]) for k in ref.key_cols)
        key = tuple(int(x) if isinstance(x, float) and x == int(x) else x for x in key)
        if key in got:
            return f"duplicate result key {key}"
        got[key] = rec
    want = {tuple(int(x) if isinstance(x, float) and x == int(x) else x for x in k): v for k, v in ref.rows.items()}
    skip = {tuple(int(x) if isinstance(x, float) and x == int(x) else x for x in k) for k in ref.unspec}
    skipc = {tuple(int(x) if isinstance(x, float) and x == int(x) else x for x in k): v for k, v in ref.skip_cols.items()}
    missing = [k for k in want if k not in got]
    extra = [k for k in got if k not in want and k not in skip]
    if missing or extra:
        return (f"datapoints differ ({', '.join(ref.key_cols)}): VTL-only {sorted(missing, key=repr)[:4]}, "
                f"engine-only {sorted(extra, key=repr)[:4]}")
    for k, w in want.items():
        for c in ref.value_cols:
            if c in skipc.get(k, ()):
                continue
            if not same(got[k][c], w[c]):
                return f"datapoint {dict(zip(ref.key_cols, k))}: {c} = {_norm(got[k][c])!r}, VTL: {w[c]!r}"
    return None
