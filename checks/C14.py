"""C14 — writing results to an output folder preserves them exactly.

Proof tier (real source re-read on every run; vc.pyvc symbolic execution, SMT string equalities; AST dataflow):
  io/_io.py:save_datapoints_duckdb     for ALL names / folders / select texts / format strings:
        format not in {csv, parquet}  <=>  raises InputValidationException 0-1-1-16 and nothing is executed
        else exactly ONE statement is executed:  COPY (<select_sql>) TO '<folder>/<name>.<format>' <options(format)>
        and no DROP when delete_after_save is false
  io/_execution.py:fetch_result        dataset branch, with `_build_dataset_fetch_select` under contract (returns the
        text FETCH for (conn, name, structure)):
        output folder set   => the only statement executed is the COPY of (FETCH) into <folder>/<name>.<format>, the
                               returned object is the Dataset of the semantic analysis and its .data is still None
        output folder None  => the only statement executed is FETCH itself, .data is the frame fetched from it
        i.e. both branches consume the SAME select text (dataflow equality, csv and parquet)
  io/_execution.py:_build_dataset_fetch_select   the text starts with 'SELECT ' (so `if select_sql` in
        save_datapoints_duckdb takes the COPY-(select) form, never the raw table dump)
  io/_io.py:save_scalars_duckdb        writes nothing for no scalars; else header + exactly one row
        (name, "" if value is None else str(value)) per scalar, sorted by name, into <folder>/_scalars.csv
  io/_execution.py:execute_queries     (bounded in the SHAPE of the query list, symbolic in names / SQL): the returned
        keys are the persistent assignments (all when return_only_persistent is false); fetch_result is called once
        per returned key with the caller's output_folder / output_format; save_scalars_duckdb receives exactly the
        returned Scalars and is called iff an output folder is given
  AST call-site clauses: run() hands output_folder / output_format / return_only_persistent through unchanged;
        fetch_result's scalar branch never writes; the in-memory-only post-processing of run() is guarded by
        `output_folder_path is None`.
Bounded tier (labelled bounded): programs run on the real engine in memory and with an output folder (csv, parquet;
both return_only_persistent settings); files read back and compared with the in-memory result as multisets of
datapoints (NULL vs empty string, booleans, dates, time periods, numbers, strings with commas / quotes / newlines);
scalar file vs returned scalars.
ASSUMED throughout: DuckDB's COPY ... TO (CSV / Parquet writer) and fetchdf serialise the relation of the same SELECT
faithfully; only the bounded tier samples that assumption.
"""
from __future__ import annotations

import ast
import itertools
import re
import sys
from pathlib import Path
from typing import Any, Callable, Dict, List, Optional, Sequence, Tuple

sys.path.insert(0, str(Path(__file__).resolve().parent.parent))
sys.path.insert(0, str(Path(__file__).resolve().parent))
from vc import core, effects, smt  # noqa: E402
from vc.core import DISCHARGED, REFUTED, UNDECIDED, Check  # noqa: E402
from vc.effects import PathV, native  # noqa: E402
from vc.pycheck import cover, discharge  # noqa: E402
from vc.pysrc import find_def, module_ast  # noqa: E402
from vc.pyvc import ClassV, Engine, Frame, ObjV, Opaque, OutsideSubset, PathResult, RaiseSignal, builtin_class  # noqa: E402
from vc.smt import And, Eq, Implies, Ite, Not, Or, T  # noqa: E402

IO = "duckdb_transpiler/io/_io.py"
EXE = "duckdb_transpiler/io/_execution.py"
TH = "duckdb_transpiler/io/_time_handling.py"
API = "API/__init__.py"
CSV_OPTS = "WITH (HEADER true, DELIMITER ',')"
PQ_OPTS = "(FORMAT PARQUET)"


def F(rel: str, fn: str) -> str:
    return f"src/vtlengine/{rel}:{fn}"


# =====================================================================================================================
# stand-ins for the externals (assumed contracts, listed in the evidence)
# =====================================================================================================================
class FrameV:
    """The DataFrame returned by fetchdf() of the relation of `sql`."""

    def __init__(self, sql: Any) -> None:
        self.sql = sql


class RelV:
    def __init__(self, sql: Any) -> None:
        self.sql = sql

    def _pyvc_getattr(self, eng: Engine, name: str) -> Any:
        me = self
        if name == "fetchdf":
            def f(e: Engine) -> Any:
                e.effects.append(("fetchdf", me.sql))
                return FrameV(me.sql)
            return native(f)
        if name == "description":
            return Opaque("description")
        raise OutsideSubset("relation." + name)


class RecConn:
    """DuckDB connection: records every statement text (symbolic)."""

    def _pyvc_getattr(self, eng: Engine, name: str) -> Any:
        if name == "execute":
            def run(e: Engine, sql: Any, *a: Any) -> Any:
                e.effects.append(("execute", sql))
                return RelV(sql)
            return native(run)
        raise OutsideSubset("connection." + name)


class FileV:
    def __init__(self, path: Any, mode: Any) -> None:
        self.path, self.mode = path, mode

    def _pyvc_with(self, frame: Any, st: Any, i: int) -> None:
        frame.eng.effects.append(("open", self.path, self.mode))
        item = st.items[i]
        if item.optional_vars is not None:
            frame.assign(item.optional_vars, self)
        try:
            frame.exec_with(st, i + 1)
        finally:
            frame.eng.effects.append(("close", self.path))


class WriterV:
    def __init__(self, f: FileV) -> None:
        self.f = f

    def _pyvc_getattr(self, eng: Engine, name: str) -> Any:
        me = self
        if name == "writerow":
            def wr(e: Engine, row: Any) -> Any:
                e.effects.append(("writerow", me.f.path, list(row)))
                return None
            return native(wr)
        raise OutsideSubset("csv.writer." + name)


class FolderV(PathV):
    """output folder: mkdir never fails here (failure paths are C16's business)."""

    def _pyvc_getattr(self, eng: Engine, name: str) -> Any:
        if name == "mkdir":
            me = self

            def mk(e: Engine, *a: Any, **k: Any) -> Any:
                e.effects.append(("mkdir", me.s))
                return None
            return native(mk)
        return super()._pyvc_getattr(eng, name)

    def _pyvc_binop(self, eng: Engine, op: str, other: Any, refl: bool) -> Any:
        r = super()._pyvc_binop(eng, op, other, refl)
        return FilePathV(r.s)


class FilePathV(PathV):
    """A path below the output folder over symbolic text.  `with_suffix(s)` follows pathlib: the text after the LAST dot
    of the last component is REPLACED (when that dot is neither first nor last character of the component), otherwise
    s is appended.  Encoded as a two-way split with fresh stem / old-suffix strings; the 'appended' branch carries no
    side condition (an over-approximation of pathlib, so a discharge stays sound; a refutation is replayed natively)."""

    def _pyvc_binop(self, eng: Engine, op: str, other: Any, refl: bool) -> Any:
        r = super()._pyvc_binop(eng, op, other, refl)
        return FilePathV(r.s)

    def _split(self, eng: Engine) -> Tuple[Any, Any, Any]:
        stem, old = eng.decls.fresh("path.stem", smt.STR), eng.decls.fresh("path.oldsuffix", smt.STR)
        rest = smt.Substr(old, 1, smt.Len(old))
        cond = And(Eq(self.s, smt.Concat(stem, old)), smt.app(smt.BOOL, "str.prefixof", ".", old), smt.Ge(smt.Len(old), 2),
                   Not(smt.app(smt.BOOL, "str.contains", rest, ".")), Not(smt.app(smt.BOOL, "str.contains", old, "/")),
                   smt.Ge(smt.Len(stem), 1), Not(smt.app(smt.BOOL, "str.suffixof", "/", stem)))
        return stem, old, cond

    def _pyvc_getattr(self, eng: Engine, name: str) -> Any:
        me = self
        if name == "with_suffix":
            def ws(e: Engine, suffix: Any) -> Any:
                stem, _old, cond = me._split(e)
                if e.choose(2, [True, cond]) == 0:
                    return FilePathV(smt.Concat(me.s, suffix))
                return FilePathV(smt.Concat(stem, suffix))
            return native(ws)
        if name == "suffix":
            stem, old, cond = me._split(eng)
            return "" if eng.choose(2, [True, cond]) == 0 else old
        if name in ("with_name", "with_stem", "name", "stem", "parent", "resolve", "absolute", "expanduser"):
            raise OutsideSubset(f"Path.{name} on the output file path")
        return super()._pyvc_getattr(eng, name)


#: names a VTL result may legally have that stress path construction (dots, SDMX-style versions, spaces, leading dot)
PATH_NAMES = ["DS_r", "DS.a", "DS.b", "BIS:DF(1.0)", "a.b.c", "x.", ".hidden", "DS 1", "v1.0.csv", "R.parquet"]


def native_path_probe(das: bool = False) -> Tuple[Optional[bool], str, Any]:
    """Differential probe of the REAL save_datapoints_duckdb over PATH_NAMES x formats (used when the symbolic execution
    leaves the subset, so that an existing counterexample is found instead of answering 'undecided')."""
    for nm in PATH_NAMES:
        for fmt in ("csv", "parquet"):
            bad, det, wit = native_save_datapoints(nm, "SELECT 1", fmt, das)
            if bad:
                return True, det, wit
    return False, f"real save_datapoints_duckdb writes <folder>/<name>.<format> for {PATH_NAMES} x csv/parquet", None


def resolve_undecided_natively(ob: Any, key: str, das: bool = False) -> None:
    """An obligation left undecided only because a construct is outside the symbolic subset is decided natively when
    a counterexample exists (it then is a replayed violation); otherwise it stays undecided."""
    if ob.status != UNDECIDED or "outside the subset" not in ob.detail:
        return
    bad, det, wit = native_path_probe(das)
    if bad:
        ob.status, ob.backend = REFUTED, "native-differential-probe"
        ob.detail = f"symbolic execution left the subset ({ob.detail[:120]}); native probe over adversarial names: {det}"
        ob.witness, ob.replayed, ob.replay_detail, ob.finding_key = wit, True, det, key


def new_engine() -> Engine:
    eng = Engine(max_paths=5000)
    effects.install_config_externals(eng)
    eng.external_values["duckdb.Error"] = builtin_class("DuckDBError")
    eng.externals["open"] = lambda e, path, mode="r", **k: FileV(path, mode)
    eng.externals["csv.writer"] = lambda e, f, **k: WriterV(f)

    def py_sorted(e: Engine, v: Any, key: Any = None, reverse: Any = False) -> Any:
        xs = Frame(e, "", {}, None).iterate(v)
        ks = [e.call(key, [x], {}) if key is not None else x for x in xs]
        if any(smt.is_sym(k) or isinstance(k, Opaque) for k in ks):
            raise OutsideSubset("sorted on symbolic keys")
        return [x for _k, x in sorted(zip(ks, xs), key=lambda t: t[0], reverse=bool(reverse))]
    eng.externals["sorted"] = py_sorted
    return eng


def path_text(p: Any) -> Any:
    return p.s if isinstance(p, PathV) else p


def expected_copy(sel: Any, folder: Any, name: Any, fmt: Any) -> Any:
    return smt.Concat("COPY (", sel, ") TO '", folder, "/", name, ".", fmt, "' ",
                      Ite(Eq(fmt, "parquet"), PQ_OPTS, CSV_OPTS))


def is_exc(p: PathResult, cls: str, code: str) -> bool:
    e = p.value
    return p.kind == "raise" and isinstance(e, ObjV) and isinstance(e.cls, ClassV) and e.cls.name == cls and \
        (e.kwargs.get("code") == code or (bool(e.args) and e.args[0] == code))


def executes(p: PathResult) -> List[Any]:
    return [e[1] for e in p.effects if e[0] == "execute"]


# =====================================================================================================================
# save_datapoints_duckdb
# =====================================================================================================================
def contract_save_datapoints(chk: Check) -> None:
    f = F(IO, "save_datapoints_duckdb")
    chk.under_contract(f)
    eng = new_engine()
    name, folder, sel, fmt = (eng.sym_str(x) for x in ("name", "folder", "select_sql", "format"))
    mv = ["name", "folder", "select_sql", "format"]
    try:
        fn = eng.func(IO, "save_datapoints_duckdb")
    except Exception as e:  # noqa: BLE001
        ob = chk.ob(f"{f}::found", f, "function exists")
        ob.status, ob.detail = UNDECIDED, str(e)
        return
    pre = [Not(Eq(sel, ""))]
    for das in (False, True):
        paths = eng.explore(fn, [RecConn(), name, FolderV(folder)],
                            {"delete_after_save": das, "select_sql": sel, "output_format": fmt})
        tag = "delete_after_save" if das else "keep"

        def replay(model: Dict[str, str], p: PathResult, das: bool = das) -> Tuple[Optional[bool], str, Any]:
            fmt_m = core.smt_str(model["format"])
            last: Tuple[Optional[bool], str, Any] = (False, "", None)
            # the solver's name first, then legal VTL names of the same kind (a dot inside the name)
            for nm in [core.smt_str(model["name"]) or "DS_r", "DS.a", "BIS:DF(1.0)"]:
                last = native_save_datapoints(nm, core.smt_str(model["select_sql"]), fmt_m, das)
                if last[0]:
                    return last
            return last
        ob_fmt = discharge(chk, eng, f, f"rejects-unknown-format::{tag}",
                  "output_format not in {'csv','parquet'}  <=>  raises InputValidationException 0-1-1-16, and then no "
                  "statement is executed (all format strings)",
                  paths, pre, lambda p: And(smt.Iff(is_exc(p, "InputValidationException", "0-1-1-16"),
                                                    Not(Or(Eq(fmt, "csv"), Eq(fmt, "parquet")))),
                                            True if p.kind == "return" else len(executes(p)) == 0)
                  if p.kind in ("return", "raise") else False, mv, replay, lambda m, p: "save_datapoints_duckdb::format-check")
        want_drop = smt.Concat('DROP TABLE IF EXISTS "', name, '"')

        def post(p: PathResult, das: bool = das) -> Any:
            if p.kind != "return":
                return True
            ex = executes(p)
            if len(ex) != (2 if das else 1):
                return False
            ok = Eq(ex[0], expected_copy(sel, folder, name, fmt))
            return And(ok, Eq(ex[1], want_drop)) if das else ok
        resolve_undecided_natively(ob_fmt, "save_datapoints_duckdb::format-check", das)
        ob_copy = discharge(chk, eng, f, f"one-copy-of-the-select-into-name.format::{tag}",
                  "returns => exactly one COPY is executed and its text is COPY (<select_sql>) TO '<folder>/<name>.<format>' "
                  f"with options {CSV_OPTS!r} for csv / {PQ_OPTS!r} for parquet" +
                  ("; followed by DROP TABLE IF EXISTS of the table" if das else "; nothing is dropped"),
                  paths, pre, post, mv, replay, lambda m, p: "save_datapoints_duckdb::copy-text",
                  include_site_obligations=False)
        resolve_undecided_natively(ob_copy, "save_datapoints_duckdb::copy-text", das)
    cover(chk, eng, f, "pre", pre + [Eq(fmt, "csv")], "a non-empty select text and format csv")
    chk.assume("conn.execute(text) runs exactly the statement `text` (recorded symbolically); pathlib.Path(folder) / name "
               "denotes '<folder>/<name>'")


def native_save_datapoints(name: str, sel: str, fmt: str, das: bool) -> Tuple[Optional[bool], str, Any]:
    """Real function on a recording fake connection (no DuckDB needed: the contract is on the statement text)."""
    core.boot(full=True)
    import importlib
    io = importlib.import_module("vtlengine." + IO[:-3].replace("/", "."))
    exc = importlib.import_module("vtlengine.Exceptions")
    log: List[str] = []

    class Fake:
        def execute(self, sql: str, *a: Any) -> "Fake":
            log.append(sql)
            return self
    name = re.sub(r"[/\x00-\x1f]", "_", name) or "DS_r"        # dots, colons, parentheses, spaces stay: legal in VTL names
    sel = sel or "SELECT 1"
    try:
        io.save_datapoints_duckdb(Fake(), name, Path("/tmp/out"), delete_after_save=das, select_sql=sel, output_format=fmt)
        got: Any = ("returned", list(log))
    except exc.InputValidationException as e:
        got = ("raised", e.args[1] if len(e.args) > 1 else None, list(log))
    except Exception as e:  # noqa: BLE001
        got = ("raised-other", type(e).__name__, list(log))
    if fmt in ("csv", "parquet"):
        want: Any = ("returned", [f"COPY ({sel}) TO '/tmp/out/{name}.{fmt}' {PQ_OPTS if fmt == 'parquet' else CSV_OPTS}"] +
                     ([f'DROP TABLE IF EXISTS "{name}"'] if das else []))
    else:
        want = ("raised", "0-1-1-16", [])
    wit = {"name": name, "select_sql": sel, "output_format": fmt, "delete_after_save": das, "real": got, "contract": want}
    return got != want, f"real save_datapoints_duckdb(name={name!r}, select_sql={sel!r}, output_format={fmt!r}) -> {got}; " \
                        f"contract -> {want}", wit


# =====================================================================================================================
# fetch_result (dataset branch) and the shape of the fetch select
# =====================================================================================================================
def contract_fetch_result(chk: Check) -> None:
    f = F(EXE, "fetch_result")
    chk.under_contract(f)
    chk.under_contract(F(EXE, "_build_dataset_fetch_select"), "assumed")
    chk.under_contract(F(TH, "apply_time_period_representation"), "assumed")
    chk.under_contract(F(IO, "save_datapoints_duckdb"), "inlined")
    eng = new_engine()
    name, folder, fmt, FS = (eng.sym_str(x) for x in ("name", "folder", "format", "fetch_sql"))
    mv = ["name", "folder", "format", "fetch_sql"]

    def c_apply(e: Engine, conn: Any, table: Any, ods: Any, osc: Any, rep: Any) -> Any:
        e.effects.append(("tp_repr", table))
        return None

    def c_build(e: Engine, conn: Any, rn: Any, ds: Any) -> Any:
        e.effects.append(("build_fetch", rn, ds))
        return FS
    eng.contracts[(TH, "apply_time_period_representation")] = c_apply
    eng.contracts[(EXE, "_build_dataset_fetch_select")] = c_build
    try:
        fn = eng.func(EXE, "fetch_result")
        ds_cls = eng.lookup_global("Model/__init__.py", "Dataset")
    except Exception as e:  # noqa: BLE001
        ob = chk.ob(f"{f}::found", f, "function exists")
        ob.status, ob.detail = UNDECIDED, str(e)
        return
    pre = [Not(Eq(FS, "")), Or(Eq(fmt, "csv"), Eq(fmt, "parquet"))]

    def mk_ds() -> ObjV:
        return ObjV(ds_cls, {"name": name, "components": {"Id_1": Opaque("component")}, "data": None, "persistent": False})

    results: Dict[str, Tuple[ObjV, List[PathResult]]] = {}
    for mode in ("folder", "memory"):
        ds = mk_ds()
        paths = eng.explore(fn, [], {"conn": RecConn(), "result_name": name, "output_folder": FolderV(folder) if mode == "folder" else None,
                                     "output_datasets": {name: ds}, "output_scalars": {}, "representation": Opaque("representation"),
                                     "output_format": fmt})
        results[mode] = (ds, paths)

    def replay(model: Dict[str, str], p: PathResult) -> Tuple[Optional[bool], str, Any]:
        return native_fetch_result(core.smt_str(model.get("format", '"csv"')))

    ds_f, paths_f = results["folder"]

    def post_folder(p: PathResult) -> Any:
        if p.kind != "return":
            return False
        ex = executes(p)
        builds = [e for e in p.effects if e[0] == "build_fetch"]
        if len(ex) != 1 or len(builds) != 1 or any(e[0] == "fetchdf" for e in p.effects):
            return False
        same_obj = p.value is ds_f and builds[0][2] is ds_f and ds_f.attrs.get("data") is None
        return And(same_obj, Eq(ex[0], expected_copy(FS, folder, name, fmt)))
    ob_f = discharge(chk, eng, f, "output-folder::copy-consumes-the-fetch-select",
                     "with an output folder (format csv or parquet), for ALL result names (arbitrary strings, dots included): the "
                     "ONLY statement executed is COPY (FETCH) TO '<folder>/<result_name>.<format>' where FETCH is the text "
                     "returned by _build_dataset_fetch_select for this result; nothing is fetched into memory; the returned "
                     "object is the semantic-analysis Dataset and its .data is still None",
                     paths_f, pre, post_folder, mv, replay, lambda m, p: "fetch_result::folder-branch",
                     include_site_obligations=False)
    if ob_f.status == UNDECIDED and "outside the subset" in ob_f.detail:
        for fm in ("csv", "parquet"):
            bad_n, det_n, wit_n = native_fetch_result(fm)
            if bad_n:
                ob_f.status, ob_f.backend = REFUTED, "native-differential-probe"
                ob_f.detail = f"symbolic execution left the subset ({ob_f.detail[:100]}); native probe: {det_n}"
                ob_f.witness, ob_f.replayed, ob_f.replay_detail, ob_f.finding_key = wit_n, True, det_n, "fetch_result::folder-branch"
                break
    ds_m, paths_m = results["memory"]

    def post_memory(p: PathResult) -> Any:
        if p.kind != "return":
            return False
        ex = executes(p)
        fd = [e for e in p.effects if e[0] == "fetchdf"]
        data = ds_m.attrs.get("data")
        if len(ex) != 1 or len(fd) != 1 or not isinstance(data, FrameV) or p.value is not ds_m:
            return False
        return And(Eq(ex[0], FS), Eq(fd[0][1], FS), Eq(data.sql, FS))
    discharge(chk, eng, f, "in-memory::fetchdf-consumes-the-fetch-select",
              "without output folder: the ONLY statement executed is FETCH itself (the same text the COPY branch wraps) and "
              ".data is the frame fetched from it",
              paths_m, [Not(Eq(FS, ""))], post_memory, mv, replay, lambda m, p: "fetch_result::memory-branch",
              include_site_obligations=False)
    # both branches ask _build_dataset_fetch_select for the same (result_name, structure): FETCH is the same value
    ob = chk.ob(f"{f}::both-branches-build-the-select-from-the-same-arguments", f,
                "in both branches the time-period representation is applied to the result table exactly once, THEN "
                "_build_dataset_fetch_select is called exactly once, before anything is executed, with (conn, result_name, the "
                "Dataset of output_datasets[result_name]) - so COPY and fetchdf consume the same value over the same table state")
    ob.backend = "pyvc-paths"
    bad = []
    for mode, (ds, paths) in results.items():
        for p in paths:
            if p.kind == "abort":
                ob.status, ob.detail = UNDECIDED, p.abort_reason
                return
            b = [e for e in p.effects if e[0] == "build_fetch"]
            first_exec = next((i for i, e in enumerate(p.effects) if e[0] == "execute"), len(p.effects))
            bi = next((i for i, e in enumerate(p.effects) if e[0] == "build_fetch"), -1)
            tp = [i for i, e in enumerate(p.effects) if e[0] == "tp_repr" and e[1] is name]
            if len(b) != 1 or b[0][1] is not name or b[0][2] is not ds or bi > first_exec or len(tp) != 1 or tp[0] > bi:
                bad.append(mode)
    if bad:
        ob.status, ob.detail = REFUTED, f"branch(es) {sorted(set(bad))} build the select differently"
        ob.finding_key, ob.replayed = "fetch_result::select-arguments", None
    else:
        ob.status, ob.detail = DISCHARGED, f"{sum(len(p) for _d, p in results.values())} paths"
    # invalid format with an output folder
    discharge(chk, eng, f, "output-folder::unknown-format-rejected",
              "with an output folder, a format other than csv / parquet raises InputValidationException 0-1-1-16 and no file "
              "is written",
              paths_f, [Not(Eq(FS, "")), Not(Or(Eq(fmt, "csv"), Eq(fmt, "parquet")))],
              lambda p: is_exc(p, "InputValidationException", "0-1-1-16") and len(executes(p)) == 0, mv, replay,
              lambda m, p: "fetch_result::format-check", include_site_obligations=False)
    chk.assume("_build_dataset_fetch_select is a function of (connection state, result name, structure): called twice with the "
               "same arguments on the same table it returns the same text (its own contract: starts with SELECT, see below)")
    chk.assume("apply_time_period_representation (UPDATE of the result table) happens before the select is built in BOTH "
               "branches (checked: effect order), its SQL is C08/C21's business")


def native_fetch_result(fmt: str) -> Tuple[Optional[bool], str, Any]:
    """Real fetch_result on the real DuckDB for result names without and with dots (legal VTL names)."""
    last: Tuple[Optional[bool], str, Any] = (False, "", None)
    for nm in ("R", "DS.a", "BIS:DF(1.0)"):
        last = _native_fetch_result(fmt, nm)
        if last[0]:
            return last
    return last


def _native_fetch_result(fmt: str, rn: str) -> Tuple[Optional[bool], str, Any]:
    """Real fetch_result on the real DuckDB: file (read back) vs in-memory frame for one small table named rn."""
    core.boot(full=True)
    import importlib
    import tempfile
    import duckdb
    ex = importlib.import_module("vtlengine." + EXE[:-3].replace("/", "."))
    M = importlib.import_module("vtlengine.Model")
    DT = importlib.import_module("vtlengine.DataTypes")
    fmt = fmt if fmt in ("csv", "parquet") else "csv"
    comps = {"Id_1": M.Component("Id_1", DT.Integer, M.Role.IDENTIFIER, False), "Me_1": M.Component("Me_1", DT.String, M.Role.MEASURE, True),
             "Me_2": M.Component("Me_2", DT.Date, M.Role.MEASURE, True), "Me_3": M.Component("Me_3", DT.Date, M.Role.MEASURE, True)}
    con = duckdb.connect()
    d = tempfile.mkdtemp(prefix="c14_")
    try:
        # a table whose raw dump differs from the fetch select: DATE / TIMESTAMP columns, a column outside the structure,
        # physical column order different from the structure's
        con.execute(f'CREATE TABLE "{rn}" AS SELECT * FROM (VALUES (7, DATE \'2020-01-15\', 1, \'a,b\', TIMESTAMP \'2020-01-15 10:30:00\'), '
                    '(8, NULL, 2, NULL, NULL), (9, DATE \'1999-12-31\', 3, \'\', TIMESTAMP \'2021-02-03 00:00:00\')) '
                    't("zz", "Me_2", "Id_1", "Me_1", "Me_3")')
        mem = ex.fetch_result(con, rn, None, {rn: M.Dataset(rn, dict(comps), None)}, {}, None, fmt)
        fil = ex.fetch_result(con, rn, Path(d), {rn: M.Dataset(rn, dict(comps), None)}, {}, None, fmt)
        p = Path(d) / (rn + "." + fmt)
        if not p.exists():
            return True, f"result {rn!r}: no file {p.name!r} written; the folder holds {sorted(x.name for x in Path(d).iterdir())}", \
                {"result_name": rn, "format": fmt, "expected_file": p.name, "files": sorted(x.name for x in Path(d).iterdir())}
        back = con.execute(f"SELECT * FROM read_parquet('{p}')" if fmt == "parquet" else
                           f"SELECT * FROM read_csv('{p}', header=true, all_varchar=true, allow_quoted_nulls=false)").fetchdf()
        def rows(df: Any) -> List[str]:
            return [str(list(df.columns))] + sorted(str([None if v is None or v != v else str(v) for v in r])
                                                     for r in df.astype(object).where(df.notna(), None).values.tolist())
        a, b = rows(mem.data), rows(back)
        bad = a != b or fil.data is not None
        return bad, f"in-memory rows {a}; file rows {b}; returned .data with folder: {'None' if fil.data is None else 'a frame'}", \
            {"format": fmt, "memory": a, "file": b}
    except Exception as e:  # noqa: BLE001
        return True, f"real fetch_result raised {type(e).__name__}: {str(e)[:160]}", None
    finally:
        con.close()
        import shutil
        shutil.rmtree(d, ignore_errors=True)


def contract_fetch_select_shape(chk: Check) -> None:
    """_build_dataset_fetch_select returns a text starting with 'SELECT ' (never empty): pyvc with a stand-in connection."""
    f = F(EXE, "_build_dataset_fetch_select")
    from _standins import FetchConn
    eng = Engine(max_paths=2000, prune=True)
    names = [eng.sym_str(f"c{i}") for i in range(4)]
    tname = eng.sym_str("table")
    pre = [smt.Distinct(names)] + [smt.Ge(smt.Len(x), 1) for x in names]
    eng.axioms = list(eng.axioms) + pre
    types = ["BIGINT", "VARCHAR", "DATE", "TIMESTAMP"]
    cases = {"all columns": (names, [True]), "no component declared": ([], [False]),
             "components not in the table": (None, [False])}
    try:
        fn = eng.func(EXE, "_build_dataset_fetch_select")
    except Exception as e:  # noqa: BLE001
        ob = chk.ob(f"{f}::starts-with-select", f, "result starts with SELECT")
        ob.status, ob.detail = UNDECIDED, str(e)
        return
    for lab, (comp_names, flags) in cases.items():
        comps = {n: Opaque("component") for n in comp_names} if comp_names is not None else {eng.sym_str("other"): Opaque("component")}
        ds = ObjV("Dataset", {"name": tname, "components": comps, "data": None})
        try:
            paths = eng.explore(fn, [FetchConn(list(zip(names, types)), flags), tname, ds])
        except Exception as e:  # noqa: BLE001
            ob = chk.ob(f"{f}::starts-with-select::{lab}", f, "result starts with SELECT")
            ob.status, ob.detail = UNDECIDED, f"{type(e).__name__}: {e}"
            continue
        discharge(chk, eng, f, f"starts-with-select::{lab}",
                  f"[{lab}] the returned text starts with 'SELECT ' and ends with FROM \"<table>\" (it is never empty, so "
                  "save_datapoints_duckdb wraps it: COPY (<select>) ...)",
                  paths, pre, lambda p: And(smt.app(smt.BOOL, "str.prefixof", "SELECT ", p.value),
                                            smt.app(smt.BOOL, "str.suffixof", smt.Concat(' FROM "', tname, '"'), p.value))
                  if p.kind == "return" and smt.is_sym(p.value) else False, [], None, None, include_site_obligations=True)


# =====================================================================================================================
# save_scalars_duckdb
# =====================================================================================================================
def contract_save_scalars(chk: Check) -> None:
    f = F(IO, "save_scalars_duckdb")
    chk.under_contract(f)
    eng = new_engine()
    folder = eng.sym_str("folder")
    try:
        fn = eng.func(IO, "save_scalars_duckdb")
        scalar_cls = eng.lookup_global("Model/__init__.py", "Scalar")
    except Exception as e:  # noqa: BLE001
        ob = chk.ob(f"{f}::found", f, "function exists")
        ob.status, ob.detail = UNDECIDED, str(e)
        return
    vi, vs, vb = eng.sym_int("int_value"), eng.sym_str("str_value"), eng.sym_bool("bool_value")

    def sc(n: str, v: Any) -> ObjV:
        return ObjV(scalar_cls, {"name": n, "value": v, "_value": v})
    kinds = {"none": None, "int": vi, "str": vs}
    shapes: List[Dict[str, Any]] = [{}]
    for combo in itertools.product(kinds, repeat=3):
        shapes.append({"sc_b": kinds[combo[0]], "sc_a": kinds[combo[1]], "Sc_c": kinds[combo[2]]})
    shapes.append({"x": vb})
    n_paths = 0
    bad: Optional[Tuple[Dict[str, Any], str]] = None
    queries: List[Tuple[Any, Any]] = []
    for shape in shapes:
        scalars = {n: sc(n, v) for n, v in shape.items()}
        paths = eng.explore(fn, [scalars, FolderV(folder)])
        for p in paths:
            n_paths += 1
            if p.kind != "return":
                bad = bad or (shape, f"outcome {p.kind}: {p.abort_reason or p.value}")
                continue
            rows = [e for e in p.effects if e[0] == "writerow"]
            opens = [e for e in p.effects if e[0] == "open"]
            if not shape:
                if rows or opens:
                    bad = bad or (shape, "something is written for an empty scalar set")
                continue
            want = [["name", "value"]] + [[n, "" if shape[n] is None else (smt.IntToStr(shape[n]) if shape[n] is vi else
                                                                             shape[n] if shape[n] is vs else
                                                                             Ite(vb, "True", "False"))] for n in sorted(shape)]
            if len(opens) != 1 or len(rows) != len(want) or opens[0][2] != "w":
                bad = bad or (shape, f"{len(opens)} files opened, {len(rows)} rows written, expected {len(want)}")
                continue
            conds = [Eq(path_text(opens[0][1]), smt.Concat(folder, "/_scalars.csv"))]
            for r, w in zip(rows, want):
                if len(r[2]) != 2:
                    bad = bad or (shape, f"row with {len(r[2])} fields")
                    continue
                conds += [Eq(r[2][0], w[0]), Eq(r[2][1], w[1])]
            queries.append((list(p.pc), And(*conds)))
    ob = chk.ob(f"{f}::one-row-per-scalar-sorted", f,
                "no scalars => nothing is written; otherwise <folder>/_scalars.csv is opened once for writing and receives the "
                "header (name, value) followed by exactly one row (name, '' if value is None else str(value)) per scalar in "
                f"name order ({len(shapes)} shapes of up to 3 scalars with None / symbolic int / symbolic str / bool values)")
    ob.backend = "pyvc+smt"
    if bad:
        ob.status, ob.detail = REFUTED, f"shape {list(bad[0])}: {bad[1]}"
        ob.witness = {"scalars": {k: str(v) for k, v in bad[0].items()}, "problem": bad[1]}
        ob.finding_key = "save_scalars_duckdb::rows"
        ob.replayed, ob.replay_detail = native_save_scalars()
    else:
        res = core.pmap(lambda q: core.run_smt(smt.query(eng.decls, list(eng.axioms) + q[0] + [Not(q[1])],
                                                         get=["int_value", "str_value"]), timeout=20, tag="c14-sc"), queries)
        ob.seconds = sum(r.seconds for r in res)
        sat = [r for r in res if r.status == "sat"]
        unk = [r for r in res if r.status == "unknown"]
        if sat:
            ob.status, ob.detail, ob.witness = REFUTED, f"counter-model {sat[0].model}", sat[0].model
            ob.finding_key = "save_scalars_duckdb::rows"
            ob.replayed, ob.replay_detail = native_save_scalars()
        elif unk:
            ob.status, ob.detail = UNDECIDED, unk[0].raw[:200]
        else:
            ob.status, ob.detail = DISCHARGED, f"{n_paths} paths, {len(queries)} solver queries, all unsat"
    chk.assume("open(path, 'w', newline='', encoding='utf-8') + csv.writer(file).writerow(row) append the row to that file "
               "(csv module quoting assumed faithful; sampled by the bounded tier)")
    chk.assume("float scalar values: str(float) is not encoded (floats are outside vc.pyvc); covered by the bounded tier only")


def native_save_scalars() -> Tuple[Optional[bool], str]:
    core.boot(full=True)
    import csv
    import importlib
    import tempfile
    io = importlib.import_module("vtlengine." + IO[:-3].replace("/", "."))
    M = importlib.import_module("vtlengine.Model")
    DT = importlib.import_module("vtlengine.DataTypes")
    d = tempfile.mkdtemp(prefix="c14_sc_")
    try:
        scalars = {"sc_b": M.Scalar("sc_b", DT.Integer, -7), "sc_a": M.Scalar("sc_a", DT.Integer, None),
                   "Sc_c": M.Scalar("Sc_c", DT.String, 'a,"b"')}
        io.save_scalars_duckdb(scalars, Path(d))
        p = Path(d) / "_scalars.csv"
        got = list(csv.reader(open(p, newline="", encoding="utf-8"))) if p.exists() else None
        want = [["name", "value"]] + [[n, "" if s.value is None else str(s.value)] for n, s in sorted(scalars.items())]
        return got != want, f"real save_scalars_duckdb wrote {got}; contract {want}"
    except Exception as e:  # noqa: BLE001
        return True, f"real save_scalars_duckdb raised {type(e).__name__}: {e}"
    finally:
        import shutil
        shutil.rmtree(d, ignore_errors=True)


# =====================================================================================================================
# execute_queries: what is returned, fetched and handed to save_scalars_duckdb
# =====================================================================================================================
def contract_execute_queries(chk: Check) -> None:  # noqa: C901
    f = F(EXE, "execute_queries")
    chk.under_contract(f)
    chk.under_contract(F(EXE, "cleanup_scheduled_datasets"), "inlined")
    for n in ("fetch_result", "load_scheduled_datasets"):
        chk.under_contract(F(EXE, n), "assumed")
    eng = new_engine()
    folder, fmt = eng.sym_str("folder"), eng.sym_str("format")
    try:
        fn = eng.func(EXE, "execute_queries")
        scalar_cls = eng.lookup_global("Model/__init__.py", "Scalar")
        ds_cls = eng.lookup_global("Model/__init__.py", "Dataset")
    except Exception as e:  # noqa: BLE001
        ob = chk.ob(f"{f}::found", f, "function exists")
        ob.status, ob.detail = UNDECIDED, str(e)
        return

    def c_fetch(e: Engine, conn: Any = None, result_name: Any = None, output_folder: Any = None, output_datasets: Any = None,
                output_scalars: Any = None, representation: Any = None, output_format: Any = "csv") -> Any:
        e.effects.append(("fetch", result_name, output_folder, output_format))
        return output_scalars[result_name] if result_name in output_scalars else output_datasets[result_name]

    def c_load(e: Engine, **k: Any) -> Any:
        e.effects.append(("load", k.get("statement_num")))
        return None

    def c_save(e: Engine, scalars: Any, path: Any) -> Any:
        e.effects.append(("save_scalars", dict(scalars), path))
        return None
    eng.contracts[(EXE, "fetch_result")] = c_fetch
    eng.contracts[(EXE, "load_scheduled_datasets")] = c_load
    eng.contracts[(IO, "save_scalars_duckdb")] = c_save
    eng.contracts[("duckdb_transpiler/sql/__init__.py", "initialize_time_types")] = lambda e, *a, **k: None
    eng.contracts[("files/output/_time_period_representation.py", "TimePeriodRepresentation.check_value")] = \
        lambda e, *a, **k: Opaque("representation")
    sched_cls = "DatasetSchedule"
    kinds = ["ds-persistent", "ds-temporary", "scalar-persistent", "scalar-temporary"]
    shapes: List[Tuple[Tuple[str, ...], Tuple[bool, ...]]] = []
    for n in (1, 2, 3):
        for combo in itertools.product(kinds, repeat=n):
            if n == 3 and len(set(combo)) < 2:
                continue
            for early in ({()} if n == 1 else {(), (0,), tuple(range(n - 1))}):
                shapes.append((combo, tuple(i in early for i in range(n))))
    fails: Dict[str, Tuple[Any, str]] = {}
    n_paths = 0
    sql = [eng.sym_str(f"sql{i}") for i in range(3)]
    for combo, early in shapes:
        names = [f"R{i}" for i in range(len(combo))]
        queries = [(nm, sql[i], k.endswith("persistent")) for i, (nm, k) in enumerate(zip(names, combo))]
        for rop in (True, False):
            for with_folder in (True, False):
                ods = {nm: ObjV(ds_cls, {"name": nm, "components": {}, "data": None}) for nm, k in zip(names, combo) if k.startswith("ds")}
                osc = {nm: ObjV(scalar_cls, {"name": nm, "value": None, "_value": None}) for nm, k in zip(names, combo) if k.startswith("scalar")}
                deletion = {i + 1: [nm] for i, (nm, e) in enumerate(zip(names, early)) if e}
                sched = ObjV(sched_cls, {"insertion": {}, "deletion": deletion, "global_inputs": [],
                                         "persistent": [nm for nm, k in zip(names, combo) if k.endswith("persistent")],
                                         "all_outputs": list(names)})
                fo = FolderV(folder) if with_folder else None
                try:
                    paths = eng.explore(fn, [], {"conn": RecConn(), "queries": queries, "ds_analysis": sched, "path_dict": None,
                                                 "dataframe_dict": {}, "input_datasets": {}, "output_datasets": ods,
                                                 "output_scalars": osc, "output_folder": fo, "return_only_persistent": rop,
                                                 "time_period_output_format": "vtl", "output_format": fmt})
                except Exception as e:  # noqa: BLE001
                    fails.setdefault("explore", ((combo, early, rop, with_folder), f"{type(e).__name__}: {e}"))
                    continue
                want = [nm for nm, k in zip(names, combo) if k.endswith("persistent") or not rop]
                for p in paths:
                    n_paths += 1
                    cfg = {"queries": list(zip(names, combo)), "dropped_at_their_statement": list(early),
                           "return_only_persistent": rop, "output_folder": with_folder}
                    if p.kind != "return":
                        fails.setdefault("outcome", (cfg, f"{p.kind}: {p.abort_reason or p.value}"))
                        continue
                    res = p.value
                    if not isinstance(res, dict) or sorted(res) != sorted(want):
                        fails.setdefault("returned-keys", (cfg, f"returned {sorted(res) if isinstance(res, dict) else res}, "
                                                                f"expected {sorted(want)}"))
                        continue
                    fetches = [e for e in p.effects if e[0] == "fetch"]
                    if sorted(e[1] for e in fetches) != sorted(want):
                        fails.setdefault("fetch-once-per-returned", (cfg, f"fetched {[e[1] for e in fetches]}, returned {want}"))
                    if any(e[2] is not fo or e[3] is not fmt for e in fetches):
                        fails.setdefault("fetch-arguments", (cfg, "fetch_result does not receive the caller's output_folder / "
                                                                  "output_format"))
                    if any(res[nm] is not (osc.get(nm) or ods.get(nm)) for nm in want):
                        fails.setdefault("returned-objects", (cfg, "a returned value is not the object fetch_result returned"))
                    saves = [e for e in p.effects if e[0] == "save_scalars"]
                    exp_sc = {nm: osc[nm] for nm in want if nm in osc}
                    if with_folder:
                        ok = len(saves) == 1 and saves[0][2] is fo and set(saves[0][1]) == set(exp_sc) and \
                            all(saves[0][1][k] is exp_sc[k] for k in exp_sc)
                        if not ok:
                            fails.setdefault("scalars-handed-over", (cfg, f"save_scalars_duckdb received "
                                                                          f"{[sorted(s[1]) for s in saves]}, returned scalars {sorted(exp_sc)}"))
                    elif saves:
                        fails.setdefault("scalars-handed-over", (cfg, "save_scalars_duckdb called without an output folder"))
                    mk = [e for e in p.effects if e[0] == "mkdir"]
                    if with_folder != (len(mk) >= 1):
                        fails.setdefault("folder-created", (cfg, f"mkdir effects {len(mk)} with output_folder={with_folder}"))
    clauses = {
        "outcome": "execute_queries returns normally on every shape (no path outside the subset, no exception)",
        "returned-keys": "returned keys = persistent assignments; all assignments when return_only_persistent is false",
        "fetch-once-per-returned": "fetch_result is called exactly once per returned key and for nothing else",
        "fetch-arguments": "every fetch_result call receives the caller's output_folder and output_format objects",
        "returned-objects": "each returned value is the object fetch_result returned for that key",
        "scalars-handed-over": "with an output folder save_scalars_duckdb is called exactly once, with the folder and with "
                               "exactly {k: v for the returned Scalars}; without a folder it is not called",
        "folder-created": "the output folder is created (mkdir parents, exist_ok) iff it is given",
    }
    if "explore" in fails:
        clauses["explore"] = "symbolic execution succeeds"
    for key, clause in clauses.items():
        ob = chk.ob(f"{f}::{key}", f, clause + f"  [{len(shapes)} query-list shapes of 1-3 statements x both "
                    "return_only_persistent settings x with/without folder; names concrete, SQL / folder / format symbolic]")
        ob.backend = "pyvc-paths"
        if key in fails:
            cfg, why = fails[key]
            if key in ("outcome", "explore") and ("outside" in why or "abort" in why or "Error" in why and key == "explore"):
                ob.status, ob.detail = UNDECIDED, f"{cfg}: {why}"
                continue
            ob.status, ob.detail, ob.witness = REFUTED, f"{cfg}: {why}", {"configuration": cfg, "problem": why}
            ob.finding_key = f"execute_queries::{key}"
            ob.replayed, ob.replay_detail = native_execute_queries(cfg)
        else:
            ob.status, ob.detail = DISCHARGED, f"{n_paths} paths"
    chk.assume("execute_queries is verified per SHAPE of the query list (1-3 statements, every mix of dataset/scalar x "
               "persistent/temporary x dropped-at-its-statement/at-the-end): unbounded in names' content, SQL text, folder "
               "and format, bounded in the number of statements")
    chk.assume("fetch_result returns output_scalars[name] for scalar results and output_datasets[name] for dataset results "
               "(its own contract above covers the dataset branch; the scalar branch is covered by the call-site clause and the "
               "bounded tier)")


def native_execute_queries(cfg: Any) -> Tuple[Optional[bool], str]:
    """Real execute_queries on the real DuckDB for the failing configuration."""
    try:
        core.boot(full=True)
        import importlib
        import tempfile
        import duckdb
        ex = importlib.import_module("vtlengine." + EXE[:-3].replace("/", "."))
        M = importlib.import_module("vtlengine.Model")
        DT = importlib.import_module("vtlengine.DataTypes")
        dag = importlib.import_module("vtlengine.AST.DAG._models")
        names = [n for n, _k in cfg["queries"]]
        kinds = [k for _n, k in cfg["queries"]]
        queries = [(n, "SELECT 1 AS \"Id_1\", 2.5 AS \"Me_1\"" if k.startswith("ds") else "SELECT 42 AS value", k.endswith("persistent"))
                   for n, k in zip(names, kinds)]
        ods = {n: M.Dataset(n, {"Id_1": M.Component("Id_1", DT.Integer, M.Role.IDENTIFIER, False),
                                "Me_1": M.Component("Me_1", DT.Number, M.Role.MEASURE, True)}, None)
               for n, k in zip(names, kinds) if k.startswith("ds")}
        osc = {n: M.Scalar(n, DT.Integer, None) for n, k in zip(names, kinds) if k.startswith("scalar")}
        sched = dag.DatasetSchedule(insertion={}, deletion={i + 1: [n] for i, (n, e) in enumerate(zip(names, cfg["dropped_at_their_statement"])) if e},
                                    global_inputs=[], persistent=[n for n, k in zip(names, kinds) if k.endswith("persistent")], all_outputs=names)
        d = tempfile.mkdtemp(prefix="c14_eq_")
        con = duckdb.connect()
        try:
            res = ex.execute_queries(con, queries, sched, None, {}, {}, ods, osc, Path(d) if cfg["output_folder"] else None,
                                     cfg["return_only_persistent"])
            want = sorted(n for n, k in zip(names, kinds) if k.endswith("persistent") or not cfg["return_only_persistent"])
            files = sorted(p.name for p in Path(d).iterdir())
            exp_files = sorted([f"{n}.csv" for n in want if n in ods] + (["_scalars.csv"] if any(n in osc for n in want) else [])) \
                if cfg["output_folder"] else []
            bad = sorted(res) != want or files != exp_files
            return bad, f"real execute_queries returned keys {sorted(res)} (expected {want}); files {files} (expected {exp_files})"
        finally:
            con.close()
            import shutil
            shutil.rmtree(d, ignore_errors=True)
    except Exception as e:  # noqa: BLE001
        return None, f"replay harness error {type(e).__name__}: {e}"


# =====================================================================================================================
# AST call-site clauses
# =====================================================================================================================
def static_clauses(chk: Check) -> None:  # noqa: C901
    def ob_(f: str, oid: str, clause: str, problems: List[str], key: str) -> None:
        ob = chk.ob(f"{f}::{oid}", f, clause)
        ob.backend = "ast-dataflow"
        if problems and problems[0].startswith("MOVED"):
            ob.status, ob.detail = UNDECIDED, problems[0]
        elif problems:
            ob.status, ob.detail = REFUTED, "; ".join(problems[:4])
            ob.witness = {"problems": problems[:8]}
            ob.finding_key, ob.replayed = key, None
        else:
            ob.status = DISCHARGED

    def kwargs_of(call: ast.Call) -> Dict[str, str]:
        return {k.arg: ast.unparse(k.value) for k in call.keywords if k.arg}

    def assigned_names(fn: ast.AST) -> Dict[str, List[str]]:
        out: Dict[str, List[str]] = {}
        for n in ast.walk(fn):
            if isinstance(n, (ast.Assign, ast.AnnAssign, ast.AugAssign)):
                tg = n.targets if isinstance(n, ast.Assign) else [n.target]
                for t in tg:
                    for x in ast.walk(t):
                        if isinstance(x, ast.Name) and isinstance(x.ctx, ast.Store):
                            out.setdefault(x.id, []).append(ast.unparse(n.value) if getattr(n, "value", None) is not None else "")
            elif isinstance(n, (ast.For, ast.comprehension)):
                for x in ast.walk(n.target):
                    if isinstance(x, ast.Name):
                        out.setdefault(x.id, []).append("<loop>")
        return out

    # ---- run(): the three settings reach execute_queries unchanged --------------------------------------------------------
    f = F(API, "run")
    chk.under_contract(f)
    run = find_def(API, "run")
    probs: List[str] = []
    if run is None:
        probs = ["MOVED: API.run not found"]
    else:
        calls = [c for c in ast.walk(run) if isinstance(c, ast.Call) and isinstance(c.func, ast.Name) and c.func.id == "execute_queries"]
        asg = assigned_names(run)
        if len(calls) != 1:
            probs.append(f"{len(calls)} calls of execute_queries")
        else:
            kw = kwargs_of(calls[0])
            if kw.get("output_format") != "output_format" or "output_format" in asg:
                probs.append(f"output_format passed as {kw.get('output_format')!r} / reassigned")
            if kw.get("return_only_persistent") != "return_only_persistent" or "return_only_persistent" in asg:
                probs.append(f"return_only_persistent passed as {kw.get('return_only_persistent')!r} / reassigned")
            of = kw.get("output_folder")
            if of == "output_folder":
                if "output_folder" in asg:
                    probs.append("output_folder reassigned")
            elif of is None or asg.get(of) != ["Path(output_folder) if output_folder else None"]:
                probs.append(f"output_folder passed as {of!r} = {asg.get(of or '')}")
    ob_(f, "settings-reach-the-executor-unchanged",
        "run() calls execute_queries once with output_format=output_format, return_only_persistent=return_only_persistent "
        "and output_folder = Path(output_folder) if output_folder else None; none of the three parameters is reassigned",
        probs, "run::settings")
    probs = []
    if run is None:
        probs = ["MOVED: API.run not found"]
    else:
        post = [c for c in ast.walk(run) if isinstance(c, ast.Call) and isinstance(c.func, ast.Name)
                and c.func.id in ("format_date_iso8601", "format_time_period_external_representation")]
        for c in post:
            cur, guarded = getattr(c, "_parent", None), False
            while cur is not None and cur is not run:
                if isinstance(cur, ast.If) and re.fullmatch(r"output_folder(_path)? is None|not output_folder(_path)?", ast.unparse(cur.test)):
                    guarded = True
                cur = getattr(cur, "_parent", None)
            if not guarded:
                probs.append(f"line {c.lineno}: {ast.unparse(c)[:60]} is applied although files were written")
    ob_(f, "in-memory-post-processing-only-without-folder",
        "the pandas post-processing of run() (format_date_iso8601, format_time_period_external_representation) is applied "
        "only when no output folder is given (with a folder there is no in-memory data to format; what it does to the "
        "in-memory frames is compared with the files by the bounded tier)", probs, "run::post-processing")

    # ---- fetch_result: scalar branch never writes; ds.data only assigned in the else branch ------------------------------------
    f = F(EXE, "fetch_result")
    fr = find_def(EXE, "fetch_result")
    probs = []
    if fr is None:
        probs = ["MOVED: fetch_result not found"]
    else:
        sc_if = [n for n in fr.body if isinstance(n, ast.If) and "output_scalars" in ast.unparse(n.test)]
        if len(sc_if) != 1:
            probs.append("scalar branch `if result_name in output_scalars` not found at top level")
        else:
            br = sc_if[0]
            if any(isinstance(c, ast.Call) and "save" in ast.unparse(c.func) for c in ast.walk(br)) or "COPY" in ast.unparse(br):
                probs.append("the scalar branch writes a file")
            if not isinstance(br.body[-1], ast.Return):
                probs.append("the scalar branch falls through into the dataset branch")
        stores = [n for n in ast.walk(fr) if isinstance(n, ast.Attribute) and n.attr == "data" and isinstance(n.ctx, ast.Store)]
        for s in stores:
            cur, in_else = getattr(s, "_parent", None), False
            child: Any = s
            while cur is not None and cur is not fr:
                if isinstance(cur, ast.If) and ast.unparse(cur.test) == "output_folder" and child in cur.orelse:
                    in_else = True
                child, cur = cur, getattr(cur, "_parent", None)
            if not in_else:
                probs.append(f"line {s.lineno}: .data is assigned outside the `else` of `if output_folder`")
    ob_(f, "scalars-never-copied-and-data-only-in-memory-branch",
        "the scalar branch of fetch_result ends in a return and writes nothing; `.data = ...` occurs only in the else-branch of "
        "`if output_folder`", probs, "fetch_result::branches")

    # ---- execute_queries / cleanup_scheduled_datasets: call-site arguments -----------------------------------------------------
    for fname in ("execute_queries", "cleanup_scheduled_datasets"):
        f = F(EXE, fname)
        node = find_def(EXE, fname)
        probs = []
        if node is None:
            probs = [f"MOVED: {fname} not found"]
        else:
            asg = assigned_names(node)
            calls = [c for c in ast.walk(node) if isinstance(c, ast.Call) and isinstance(c.func, ast.Name) and c.func.id == "fetch_result"]
            if not calls:
                probs.append("no call of fetch_result")
            for c in calls:
                kw = kwargs_of(c)
                for a in ("output_folder", "output_format", "output_datasets", "output_scalars"):
                    if kw.get(a) != a or a in asg:
                        probs.append(f"line {c.lineno}: {a} passed as {kw.get(a)!r}" + (" (reassigned)" if a in asg else ""))
            if fname == "cleanup_scheduled_datasets":
                for c in [c for c in ast.walk(node) if isinstance(c, ast.Call) and isinstance(c.func, ast.Name) and c.func.id == "fetch_result"]:
                    par = getattr(c, "_parent", None)
                    if not (isinstance(par, ast.Assign) and ast.unparse(par.targets[0]) == "results[ds_name]" and kwargs_of(c).get("result_name") == "ds_name"):
                        probs.append(f"line {c.lineno}: result of fetch_result(ds_name) is not stored as results[ds_name]")
        ob_(f, "fetch_result-receives-the-callers-settings",
            f"every fetch_result call in {fname} passes output_folder, output_format, output_datasets and output_scalars "
            "through unchanged (parameters never reassigned)", probs, f"{fname}::fetch-arguments")
    f = F(EXE, "execute_queries")
    node = find_def(EXE, "execute_queries")
    probs = []
    if node is None:
        probs = ["MOVED: execute_queries not found"]
    else:
        saves = [c for c in ast.walk(node) if isinstance(c, ast.Call) and isinstance(c.func, ast.Name) and c.func.id == "save_scalars_duckdb"]
        rets = [r for r in ast.walk(node) if isinstance(r, ast.Return)]
        if len(saves) != 1:
            probs.append(f"{len(saves)} calls of save_scalars_duckdb")
        else:
            c = saves[0]
            arg0 = ast.unparse(c.args[0]) if c.args else ""
            asg = assigned_names(node)
            src = asg.get(arg0, [])
            if src != ["{k: v for k, v in results.items() if isinstance(v, Scalar)}"]:
                probs.append(f"first argument {arg0} = {src}")
            if len(c.args) < 2 or ast.unparse(c.args[1]) != "output_folder":
                probs.append("second argument is not output_folder")
            par = getattr(c, "_parent", None)
            while par is not None and not isinstance(par, ast.If):
                par = getattr(par, "_parent", None)
            if par is None or ast.unparse(par.test) != "output_folder":
                probs.append("call is not guarded by `if output_folder`")
        if [ast.unparse(r.value) for r in rets if r.value is not None] != ["results"]:
            probs.append("execute_queries does not return `results`")
    ob_(f, "scalar-file-receives-exactly-the-returned-scalars",
        "save_scalars_duckdb is called once, under `if output_folder`, with {k: v for k, v in results.items() if "
        "isinstance(v, Scalar)} and output_folder; `results` is what execute_queries returns (all shapes, all inputs)",
        probs, "execute_queries::scalars-argument")


def documented_names(chk: Check) -> None:
    try:
        txt = (core.REPO / "docs" / "duckdb_engine.rst").read_text()
    except OSError:
        chk.notes.append("docs/duckdb_engine.rst not found: file-name oracle taken from the property statement only")
        return
    chk.extra["documented"] = {
        "dataset_file_name": bool(re.search(r"\{dataset_name\}\.parquet", txt)),
        "scalar_file_name": bool(re.search(r"``_scalars\.csv``", txt)),
        "no_in_memory_data": bool(re.search(r"returned datasets carry no in-memory data", txt)),
    }
    if not all(chk.extra["documented"].values()):
        chk.notes.append(f"documentation no longer states all three facts used as oracle: {chk.extra['documented']}")


def main() -> None:
    chk = Check("C14", "proof", "contracts on save_datapoints_duckdb / fetch_result / save_scalars_duckdb / execute_queries: "
                "symbolic execution of the real source with recording stand-ins for the connection and the file API, SMT "
                "equality of the executed statement texts (the COPY and the fetchdf branch consume the same select), AST "
                "call-site clauses for run(); bounded tier: files read back vs in-memory results on the real engine",
                min_obligations=20)
    core.boot(full=True)
    import time
    phases: Dict[str, float] = {}

    def phase(name: str, fn: Callable[[], Any]) -> None:
        t0 = time.time()
        fn()
        phases[name] = round(time.time() - t0, 1)
    documented_names(chk)
    phase("static", lambda: static_clauses(chk))
    phase("save_datapoints", lambda: contract_save_datapoints(chk))
    phase("fetch_result", lambda: contract_fetch_result(chk))
    phase("fetch_select", lambda: contract_fetch_select_shape(chk))
    phase("save_scalars", lambda: contract_save_scalars(chk))
    phase("execute_queries", lambda: contract_execute_queries(chk))
    import _c14_bounded
    phase("bounded", lambda: _c14_bounded.run(chk))
    chk.extra["phase_seconds"] = phases
    chk.assume("ASSUMED (exactly where a real discrepancy would live): DuckDB's COPY ... TO (CSV and Parquet writers) and "
               "fetchdf serialise the relation of the same SELECT faithfully - CSV quoting, NULL vs empty string, decimal / "
               "float text, booleans.  The proof tier shows that both consume the same SELECT; only the bounded tier samples "
               "the serialisation itself")
    chk.assume("corpus scripts are not exercised (the compiled parser is absent): programs are hand-built ASTs")
    chk.trust("z3 5.1 / cvc5 1.0.3; vc.pyvc symbolic semantics (counter-models replayed natively)")
    chk.finish()


if __name__ == "__main__":
    core.main_guard("C14", main)
