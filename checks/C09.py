"""C09 — cast converts values according to the documented conversion table.

Oracle: docs/data_types.rst parsed on every run (spec/cast_docs.py): explicit "without mask" table, implicit table,
"with mask" table, dataset rename table, the "Conversion details" / "Key rules" sentences; value semantics as an
executable oracle in spec/cast_spec.py.

PROOF tier (solver, all inputs of the stated domain)
  P1  Operators/CastOperator.py  Cast.check_without_mask / check_cast / check_with_mask / scalar_validation /
      component_validation, executed symbolically (vc.pyvc) from the real source over the finite sort of the 9 scalar
      type classes:  accepted  <=>  the docs allow the pair (explicit table, or implicit table, Null -> anything);
      a forbidden pair raises SemanticError 1-1-5-4 naming both types; any mask => NotImplementedError (documented).
      Pairs the docs table omits although both engines implement them on purpose are left out (UNSPECIFIED_PAIRS).
  P2  Cast.validate / dataset_validation on a symbolic single-measure dataset, per target type: the measure is renamed
      to the documented generic name exactly when the source does not implicitly promote to the target; type / role /
      nullability of the measure; other components kept; 0 or 2 measures are rejected.
  P3  the SQL that the real transpiler emits for every accepted pair (dataset level and calc level), evaluated
      symbolically with the macros of sql/init.sql (vc.sqlvc + vc.sqlcast) over a symbolic nullable operand and proved
      equal to the documented conversion (checks/_c09_values.py); counter-models replayed in the real DuckDB.
BOUNDED tier (labelled, never counted as proved)
  B   the property's value pool for every (source, target) pair, dataset level and scalar level, end to end on the real
      engine (extracted API.run, hand-built ParamOp ASTs) against the same oracle (checks/_c09_bounded.py).
"""
from __future__ import annotations

import ast
import multiprocessing
import os
import sys
import time
from pathlib import Path
from typing import Any, Dict, List, Optional, Sequence, Tuple

sys.path.insert(0, str(Path(__file__).resolve().parent.parent))
sys.path.insert(0, str(Path(__file__).resolve().parent))
from spec import cast_docs as CD  # noqa: E402
from spec.docs import DOC_TYPE_TO_CLASS  # noqa: E402
from vc import core, smt  # noqa: E402
from vc.core import DISCHARGED, REFUTED, UNDECIDED, Check, Obligation, run_smt  # noqa: E402
from vc.pysrc import module_ast  # noqa: E402
from vc.pyvc import ClassV, Engine, ObjV, PathResult, SymEnum  # noqa: E402
from vc.smt import And, Eq, Iff, Implies, Not, Or, is_sym  # noqa: E402

DREL, CREL, MREL, IREL = "DataTypes/__init__.py", "Operators/CastOperator.py", "Model/__init__.py", "Interpreter/__init__.py"
CLASS_TO_DOC = {v: k for k, v in DOC_TYPE_TO_CLASS.items()}


# ----------------------------------------------------------------------------------------------------------------
# worker side (value obligations and bounded tier run in forked worker processes; every worker re-derives the same
# ordered job list from the same sources, runs the jobs it is handed and ships the obligations back)
# ----------------------------------------------------------------------------------------------------------------
_W: Dict[str, Any] = {}


def _quick_first(text: str, timeout: float = 20.0, tag: str = "q", backends: Sequence[str] = ("z3", "cvc5")) -> Any:
    """Solver portfolio of the value obligations: cvc5 (starts in 0.1 s) gets 5 s, then the framework's usual order
    (z3, then cvc5 with twice the budget).  Only the order changes; `unknown` is still never a verdict."""
    r = core.run_solver_once(text, "cvc5", min(5.0, timeout), tag)
    if r.status in ("sat", "unsat"):
        return r
    r2 = run_smt(text, timeout=timeout, tag=tag, backends=backends)
    r2.seconds += r.seconds
    return r2


def _values() -> Any:
    if "values" not in _W:
        import _c09_values as V
        import vc.sqlcheck as sc
        sc.run_smt = _quick_first            # in this worker process only
        stub = Check("C09", "proof", "worker", min_obligations=0)
        vals = V.Values(stub, CD.conversion_rules(), CD.allowed)
        _W["values"], _W["stub"], _W["jobs"] = vals, stub, vals.collect()
    return _W["values"]


def worker(task: Tuple[str, Any]) -> Dict[str, Any]:
    kind, arg = task
    t0 = time.time()
    c0 = os.times()
    out: Dict[str, Any] = {"task": task, "obs": [], "faults": [], "extra": {}}
    try:
        if kind == "value":
            vals = _values()
            stub = _W["stub"]
            stub.obs, stub.faults = [], []
            oid, job = _W["jobs"][arg]
            job()
            out["obs"], out["faults"] = list(stub.obs), list(stub.faults)
            out["extra"] = {"sql": dict(vals.sql_used), "skipped": list(vals.skipped), "prune": vals.eng.prune_calls,
                            "macros": sorted(vals.eng.used_macros)}
        elif kind == "conformance":
            info, bad = _values().conformance()
            out["extra"] = {"conformance": info}
            if bad:
                out["faults"].append("cast SQL semantics model disagrees with the real DuckDB: " + "; ".join(bad[:3]))
        elif kind == "selfcheck":
            import _c09_values as V
            from vc import calendar as cal
            from vc.sqlcast import selfcheck_iso_fields
            n = cal.selfcheck(1, 9999, 97)
            out["extra"] = {"calendar_selfcheck_days": n}
            for what, msg in (("field formulation of 'one calendar period' vs the calendar spec", V.selfcheck_period_fields()),
                              ("Monday rule (ISO week specification) vs datetime.isocalendar", V.selfcheck_monday_rule()),
                              ("field formulation of ISO year/week (model) vs datetime.isocalendar", selfcheck_iso_fields())):
                if msg:
                    out["faults"].append(f"self-check failed: {what}: {msg}")
        elif kind == "bounded":
            import _c09_bounded as B
            obs, stats = B.bounded_source(arg[0], CD.conversion_rules(), list(arg[1]))
            out["obs"], out["extra"] = obs, {"stats": stats}
        elif kind == "bounded-nested":
            import _c09_bounded as B
            obs, stats = B.bounded_nested(CD.conversion_rules())
            obs2, stats2 = B.bounded_mask()
            out["obs"] = obs + obs2
            out["extra"] = {"stats": {k: stats[k] + stats2[k] for k in stats}}
    except BaseException as e:  # noqa: BLE001 - a crashing worker is an engine fault of that task, never a verdict
        import traceback
        out["faults"].append(f"worker task {task} crashed: {type(e).__name__}: {e} | {traceback.format_exc()[-600:]}")
    out["seconds"] = time.time() - t0
    c1 = os.times()
    out["cpu"] = sum(c1[:4]) - sum(c0[:4])         # this process and the solver processes it waited for
    return out


# ----------------------------------------------------------------------------------------------------------------
# P1 / P2: symbolic execution of the semantic layer
# ----------------------------------------------------------------------------------------------------------------
class Sem:
    def __init__(self, chk: Check) -> None:
        self.chk = chk
        self.eng = Engine()
        st = self.eng.lookup_global(DREL, "SCALAR_TYPES")
        self.members: List[ClassV] = list(st.values())
        self.names = [m.name for m in self.members]
        self.idx = {n: i for i, n in enumerate(self.names)}
        self.sort = self.eng.enum_sort("ScalarType", self.members)
        self.f, self.t = self.eng.sym_enum("f", self.sort), self.eng.sym_enum("t", self.sort)
        self.exp, self.imp = CD.explicit_table(), CD.implicit_table()
        self.rules = CD.conversion_rules()
        self.cast = self.eng.lookup_global(CREL, "Cast")
        self.docnames = {n: CLASS_TO_DOC.get(n, n) for n in self.names}      # class name -> documented type name
        # class-level relations
        self.allowed: Dict[Tuple[str, str], bool] = {}
        self.implicit: Dict[Tuple[str, str], bool] = {}
        for a in self.names:
            for b in self.names:
                da, db = self.docnames[a], self.docnames[b]
                if a == "Null":
                    al = bool(self.rules.get("null_any"))
                    im = al
                elif b == "Null":
                    al = im = False
                else:
                    im = bool(self.imp.get(da, {}).get(db))
                    al = bool(self.exp.get(da, {}).get(db)) or im
                self.allowed[(a, b)], self.implicit[(a, b)] = al, im
        self.unspecified = {(DOC_TYPE_TO_CLASS[a], DOC_TYPE_TO_CLASS[b]) for a, b in CD.UNSPECIFIED_PAIRS}

    # relations as SMT terms ----------------------------------------------------------------------------------------
    def rel(self, table: Dict[Tuple[str, str], bool], a: Any, b: Any) -> Any:
        def term(x: Any, n: str) -> Any:
            return Eq(x.term, self.idx[n]) if isinstance(x, SymEnum) else (x.name == n)
        return Or(*[And(term(a, x), term(b, y)) for (x, y), v in table.items() if v])

    def in_domain(self, a: Any, b: Any) -> Any:
        """Pairs the documentation decides: target is a documented type, pair not in UNSPECIFIED_PAIRS."""
        def term(x: Any, n: str) -> Any:
            return Eq(x.term, self.idx[n]) if isinstance(x, SymEnum) else (x.name == n)
        return And(Not(term(b, "Null")), *[Not(And(term(a, x), term(b, y))) for x, y in self.unspecified])

    def solve(self, asserts: List[Any], tag: str, get: Sequence[str] = ("f", "t")) -> Any:
        return run_smt(smt.query(self.eng.decls, list(self.eng.axioms) + asserts, get=list(get)), timeout=30, tag=tag)

    def name_of(self, model: Dict[str, str], k: str) -> str:
        return self.names[core.smt_int(model[k])]

    def native_check(self, a: str, b: str, mask: Optional[str] = None) -> str:
        core.boot(full=True)
        import importlib
        dt = importlib.import_module("vtlengine.DataTypes")
        co = importlib.import_module("vtlengine.Operators.CastOperator")
        try:
            co.Cast.check_cast(getattr(dt, a), getattr(dt, b), mask)
            return "accepted"
        except Exception as e:  # noqa: BLE001
            return f"raises {type(e).__name__}({e.args[1] if len(e.args) > 1 else e})"


def aborted(ps: Sequence[PathResult]) -> Optional[str]:
    a = [p for p in ps if p.kind == "abort"]
    return a[0].abort_reason if a else None


def exc_is(p: PathResult, cls: str, code: Optional[str] = None) -> bool:
    v = p.value
    if not isinstance(v, ObjV) or getattr(v.cls, "name", None) != cls:
        return False
    return code is None or (len(v.args) > 0 and v.args[0] == code)


def part_accept(s: Sem) -> None:  # noqa: C901
    chk, eng = s.chk, s.eng
    f_cw = f"src/vtlengine/{CREL}:Cast.check_without_mask"
    chk.under_contract(f_cw)
    chk.under_contract(f"src/vtlengine/{DREL}:EXPLICIT_WITHOUT_MASK_TYPE_PROMOTION_MAPPING", "inlined")
    chk.under_contract(f"src/vtlengine/{DREL}:IMPLICIT_TYPE_PROMOTION_MAPPING", "inlined")
    ps = eng.explore(eng.func(CREL, "Cast.check_without_mask"), [s.cast, s.f, s.t])
    ab = aborted(ps)
    accept = Or(*[And(*p.pc) for p in ps if p.kind == "return"])
    # one obligation per source type (row of the table), so that a finding is keyed by its pair
    for a in s.names:
        ob = chk.ob(f"{f_cw}::accepts-iff-documented::{s.docnames[a]}", f_cw,
                    f"for every target type: cast({s.docnames[a]} -> T) without mask is accepted <=> the docs allow it "
                    "(explicit 'without mask' table, implicit table, Null -> anything); pairs of UNSPECIFIED_PAIRS excluded")
        if ab:
            ob.status, ob.detail = UNDECIDED, ab
            continue
        fix = [Eq(s.f.term, s.idx[a]), s.in_domain(s.f, s.t)]
        r = s.solve(fix + [Not(Iff(accept, s.rel(s.allowed, s.f, s.t)))], f"P1-accept-{a}")
        ob.backend, ob.seconds = r.backend, r.seconds
        if r.status == "unsat":
            ob.status, ob.detail = DISCHARGED, f"{len(ps)} paths"
        elif r.status == "sat":
            b = s.name_of(r.model, "t")
            real = s.native_check(a, b)
            doc = s.allowed[(a, b)]
            ob.status, ob.detail = REFUTED, f"counter-model {r.model}"
            ob.witness = {"from": s.docnames[a], "to": s.docnames[b], "real": real, "documented": "accept" if doc else "reject"}
            ob.replayed = (real == "accepted") != doc
            ob.replay_detail = f"Cast.check_without_mask({a}, {b}) -> {real}; docs/data_types.rst: " \
                               f"{'allowed' if doc else 'not allowed (semantic error expected)'}"
            ob.finding_key = f"accept::{s.docnames[a]}->{s.docnames[b]}"
        else:
            ob.status, ob.detail = UNDECIDED, r.raw[:200]

    # rejected pairs raise SemanticError 1-1-5-4 that names the two types
    ob = chk.ob(f"{f_cw}::rejects-with-semantic-error", f_cw, "every path that does not accept raises SemanticError "
                "'1-1-5-4' whose type_1 / type_2 are the documented names of the source / target type")
    if ab:
        ob.status, ob.detail = UNDECIDED, ab
    else:
        bad = []
        docname_term = lambda x: _ite_names(x.term, [s.docnames[n] for n in s.names])  # noqa: E731
        for p in ps:
            if p.kind != "raise":
                continue
            if not exc_is(p, "SemanticError", "1-1-5-4"):
                bad.append(And(*p.pc))
                continue
            kw = p.value.kwargs
            ok = And(Eq(kw.get("type_1", ""), docname_term(s.f)), Eq(kw.get("type_2", ""), docname_term(s.t)))
            bad.append(And(And(*p.pc), Not(ok)))
        r = s.solve([Or(*bad)], "P1-reject")
        ob.backend, ob.seconds = r.backend, r.seconds
        if r.status == "unsat":
            ob.status, ob.detail = DISCHARGED, f"{len([p for p in ps if p.kind == 'raise'])} raising path(s)"
        elif r.status == "sat":
            a, b = s.name_of(r.model, "f"), s.name_of(r.model, "t")
            real = s.native_check(a, b)
            ob.status, ob.detail, ob.witness = REFUTED, f"counter-model {r.model}", {"from": a, "to": b, "real": real}
            ob.replayed = not (real.startswith("raises SemanticError(1-1-5-4"))
            ob.replay_detail = f"Cast.check_without_mask({a}, {b}) -> {real}"
            ob.finding_key = f"reject-error::{a}->{b}"
        else:
            ob.status, ob.detail = UNDECIDED, r.raw[:200]

    # masks: documented as not implemented
    f_cc = f"src/vtlengine/{CREL}:Cast.check_cast"
    chk.under_contract(f_cc)
    chk.under_contract(f"src/vtlengine/{CREL}:Cast.check_with_mask", "inlined")
    mask = eng.sym_str("mask")
    pm = eng.explore(eng.func(CREL, "Cast.check_cast"), [s.cast, s.f, s.t, mask])
    ob = chk.ob(f"{f_cc}::mask-not-implemented", f_cc, "for every pair and every mask text: check_cast(from, to, mask) "
                "raises NotImplementedError and never accepts [docs: 'defined in VTL 2.2 but not yet implemented (raises "
                "NotImplementedError)'; no cell of the 'with mask' table is marked implemented]")
    ob.backend = "pyvc-paths"
    if aborted(pm):
        ob.status, ob.detail = UNDECIDED, aborted(pm) or ""
    elif not s.rules.get("mask_not_implemented"):
        ob.status, ob.detail = DISCHARGED, "sentence not in the docs: clause dropped (unspecified)"
    else:
        wrong = [p for p in pm if not (p.kind == "raise" and exc_is(p, "NotImplementedError"))]
        feas = None
        for p in wrong:
            r = s.solve(list(p.pc), "P1-mask")
            if r.status != "unsat":
                feas = (p, r)
                break
        if feas is None:
            ob.status, ob.detail = DISCHARGED, f"{len(pm)} path(s), all raise NotImplementedError"
        else:
            p, r = feas
            a, b = (s.name_of(r.model, k) if k in r.model else "String" for k in ("f", "t"))
            real = s.native_check(a, b, "YYYY")
            ob.status, ob.detail = REFUTED, f"path outcome {p.kind} {p.value}; model {r.model}"
            ob.witness = {"from": a, "to": b, "mask": "YYYY", "real": real}
            ob.replayed = not real.startswith("raises NotImplementedError")
            ob.replay_detail = f"Cast.check_cast({a}, {b}, 'YYYY') -> {real}"
            ob.finding_key = f"mask::{a}->{b}"
    pn = eng.explore(eng.func(CREL, "Cast.check_cast"), [s.cast, s.f, s.t, None])
    ob = chk.ob(f"{f_cc}::no-mask-delegates", f_cc, "check_cast(from, to, None) accepts exactly when check_without_mask does")
    if aborted(pn) or ab:
        ob.status, ob.detail = UNDECIDED, aborted(pn) or ab or ""
    else:
        acc2 = Or(*[And(*p.pc) for p in pn if p.kind == "return"])
        r = s.solve([Not(Iff(acc2, accept))], "P1-delegate")
        ob.backend, ob.seconds = r.backend, r.seconds
        ob.status = DISCHARGED if r.status == "unsat" else REFUTED if r.status == "sat" else UNDECIDED
        if r.status == "sat":
            a, b = s.name_of(r.model, "f"), s.name_of(r.model, "t")
            ob.witness, ob.finding_key = {"from": a, "to": b}, f"delegate::{a}->{b}"
            ob.replayed, ob.replay_detail = None, f"check_cast({a},{b},None) -> {s.native_check(a, b)}"

    # scalar / component validation: same acceptance, result type = target
    model_env = {"Scalar": eng.lookup_global(MREL, "Scalar"), "DataComponent": eng.lookup_global(MREL, "DataComponent")}
    role = eng.enum_members(eng.lookup_global(MREL, "Role"))
    nul = eng.sym_bool("nul")
    operands = {
        "scalar_validation": eng.instantiate(model_env["Scalar"], [], {"name": "sc_1", "data_type": s.f, "value": None, "nullable": nul}),
        "component_validation": eng.instantiate(model_env["DataComponent"], [], {"name": "Me_1", "data": None, "data_type": s.f,
                                                                               "role": role["MEASURE"], "nullable": nul}),
    }
    for meth, operand in operands.items():
        fq = f"src/vtlengine/{CREL}:Cast.{meth}"
        chk.under_contract(fq)
        ob = chk.ob(f"{fq}::accepts-iff-documented-and-types-result", fq,
                    f"Cast.validate on a {'Scalar (value None)' if meth.startswith('scalar') else 'DataComponent'} of any type: "
                    "accepted <=> the docs allow the pair (UNSPECIFIED_PAIRS excluded); the result has the target type and "
                    "the operand's nullability")
        try:
            pv = eng.explore(eng.func(CREL, "Cast.validate"), [s.cast, operand, s.t])
        except Exception as e:  # noqa: BLE001
            ob.status, ob.detail = UNDECIDED, f"{type(e).__name__}: {e}"
            continue
        if aborted(pv):
            ob.status, ob.detail = UNDECIDED, aborted(pv) or ""
            continue
        bad = []
        for p in pv:
            if p.kind == "return":
                res = p.value
                okres = isinstance(res, ObjV) and res.attrs.get("data_type") is s.t and _same(res.attrs.get("nullable"), nul)
                bad.append(And(And(*p.pc), s.in_domain(s.f, s.t), Not(And(s.rel(s.allowed, s.f, s.t), okres))))
            else:
                bad.append(And(And(*p.pc), s.in_domain(s.f, s.t), s.rel(s.allowed, s.f, s.t)))
        r = s.solve([Or(*bad)], f"P1-{meth}")
        ob.backend, ob.seconds = r.backend, r.seconds
        if r.status == "unsat":
            ob.status, ob.detail = DISCHARGED, f"{len(pv)} paths"
        elif r.status == "sat":
            a, b = s.name_of(r.model, "f"), s.name_of(r.model, "t")
            real = s.native_check(a, b)
            ob.status, ob.detail = REFUTED, f"counter-model {r.model}"
            ob.witness = {"from": a, "to": b, "real": real, "documented": "accept" if s.allowed[(a, b)] else "reject"}
            ob.replayed = (real == "accepted") != s.allowed[(a, b)]
            ob.replay_detail = f"Cast.check_cast({a}, {b}, None) -> {real}; docs: {'allowed' if s.allowed[(a, b)] else 'not allowed'}"
            ob.finding_key = f"accept::{s.docnames[a]}->{s.docnames[b]}"
        else:
            ob.status, ob.detail = UNDECIDED, r.raw[:200]


def _same(a: Any, b: Any) -> bool:
    return a is b or (is_sym(a) and is_sym(b) and a.sx == b.sx)


def _ite_names(term: Any, names: List[str]) -> Any:
    out: Any = names[-1]
    for i in range(len(names) - 2, -1, -1):
        out = smt.Ite(Eq(term, i), names[i], out)
    return out


def part_rename(s: Sem) -> None:  # noqa: C901
    chk, eng = s.chk, s.eng
    fq = f"src/vtlengine/{CREL}:Cast.dataset_validation"
    chk.under_contract(fq)
    chk.under_contract(f"src/vtlengine/{CREL}:Cast.validate")
    chk.under_contract(f"src/vtlengine/{DREL}:COMP_NAME_MAPPING", "inlined")
    rename = CD.rename_table()
    comp_cls, ds_cls = eng.lookup_global(MREL, "Component"), eng.lookup_global(MREL, "Dataset")
    role = eng.enum_members(eng.lookup_global(MREL, "Role"))
    nul = eng.sym_bool("mnul")

    def copy_model(e: Any, x: Any) -> Any:        # assumed contract of copy.copy on a plain object: same class, same attributes
        if isinstance(x, ObjV):
            return ObjV(x.cls, dict(x.attrs), x.args, dict(x.kwargs))
        return x
    eng.externals["copy.copy"] = copy_model

    def mk(nmeas: int) -> ObjV:
        comps: Dict[str, Any] = {"Id_1": eng.instantiate(comp_cls, ["Id_1", s.members[s.idx["Integer"]], role["IDENTIFIER"], False], {})}
        for i in range(nmeas):
            comps[f"Me_{i + 1}"] = eng.instantiate(comp_cls, [f"Me_{i + 1}", s.f, role["MEASURE"], nul], {})
        comps["At_1"] = eng.instantiate(comp_cls, ["At_1", s.members[s.idx["String"]], role["ATTRIBUTE"], True], {})
        return eng.instantiate(ds_cls, [], {"name": "DS_1", "components": comps, "data": None})

    fn = eng.func(CREL, "Cast.validate")
    for tcls in s.members:
        tn = tcls.name
        if tn == "Null":
            continue
        tdoc = s.docnames[tn]
        ob = chk.ob(f"{fq}::rename::{tdoc}", fq,
                    f"cast(single-measure dataset, {tdoc}) for every measure type: rejected <=> the docs forbid the pair; else "
                    f"the result keeps the other components and has ONE measure, named '{rename.get(tdoc)}' unless the source "
                    f"type implicitly promotes to {tdoc} (then the name is kept), of type {tdoc}, same nullability")
        if tdoc not in rename or not s.rules.get("no_rename_implicit"):
            ob.status, ob.detail = DISCHARGED, "rename rule for this type not in the docs: clause dropped (unspecified)"
            continue
        ds = mk(1)
        ps = eng.explore(fn, [s.cast, ds, tcls])
        if aborted(ps):
            ob.status, ob.detail = UNDECIDED, aborted(ps) or ""
            continue
        bad = []
        dom = s.in_domain(s.f, tcls)
        allowed_t = s.rel(s.allowed, s.f, tcls)
        implicit_t = s.rel(s.implicit, s.f, tcls)
        for p in ps:
            pc = And(*p.pc)
            if p.kind == "raise":
                bad.append(And(pc, dom, Or(allowed_t, not exc_is(p, "SemanticError", "1-1-5-4"))))
                continue
            res = p.value
            comps = res.attrs.get("components") if isinstance(res, ObjV) else None
            if not isinstance(comps, dict):
                bad.append(pc)
                continue
            meas = [(k, c) for k, c in comps.items() if isinstance(c, ObjV) and c.attrs.get("role") is role["MEASURE"]]
            others_ok = all(k in comps and isinstance(comps[k], ObjV) and all(
                _eqv(comps[k].attrs.get(a), ds.attrs["components"][k].attrs.get(a)) for a in ("name", "data_type", "role", "nullable"))
                for k in ("Id_1", "At_1")) and len(comps) == 3
            if len(meas) != 1 or not others_ok:
                bad.append(pc)
                continue
            key, c = meas[0]
            shape_ok = key == c.attrs.get("name") and c.attrs.get("data_type") is tcls and _same(c.attrs.get("nullable"), nul)
            name_ok = And(Implies(implicit_t, key == "Me_1"), Implies(Not(implicit_t), key == rename[tdoc]))
            bad.append(And(pc, Not(And(shape_ok, name_ok, Or(Not(dom), allowed_t)))))
        r = s.solve([Or(*bad)], f"P2-{tn}", get=("f",))
        ob.backend, ob.seconds = r.backend, r.seconds
        if r.status == "unsat":
            ob.status, ob.detail = DISCHARGED, f"{len(ps)} paths"
        elif r.status == "sat":
            a = s.name_of(r.model, "f")
            real = native_dataset_cast(a, tn)
            want = "rejected" if (not s.allowed[(a, tn)]) else ("Me_1" if s.implicit[(a, tn)] else rename[tdoc])
            ob.status, ob.detail = REFUTED, f"counter-model {r.model}"
            ob.witness = {"measure_type": s.docnames[a], "target": tdoc, "real": real, "documented": want}
            ob.replayed = real != (want if want == "rejected" else f"measures ['{want}'] of type {tn}")
            ob.replay_detail = f"Cast.validate(Dataset(Id_1, Me_1:{a}, At_1), {tn}) -> {real}; documented: {want}"
            ob.finding_key = f"rename::{s.docnames[a]}->{tdoc}"
        else:
            ob.status, ob.detail = UNDECIDED, r.raw[:200]

    # mono-measure precondition
    ob = chk.ob(f"{fq}::mono-measure", fq, "a dataset with no measure or with two measures is rejected for every measure "
                "type and every target [docs: 'it must have exactly one measure']")
    if not s.rules.get("mono_measure"):
        ob.status, ob.detail = DISCHARGED, "sentence not in the docs: clause dropped"
    else:
        feas = None
        npaths = 0
        for k in (0, 2):
            ps = eng.explore(fn, [s.cast, mk(k), s.t])
            for p in ps:
                npaths += 1
                if p.kind == "raise":
                    continue
                r = s.solve(list(p.pc), "P2-mono") if p.kind != "abort" else None
                if r is None or r.status != "unsat":
                    feas = (k, p, r)
                    break
            if feas:
                break
        ob.backend = "pyvc-paths"
        if feas is None:
            ob.status, ob.detail = DISCHARGED, f"{npaths} path(s), all raise"
        elif feas[1].kind == "abort":
            ob.status, ob.detail = UNDECIDED, feas[1].abort_reason
        else:
            k, p, r = feas
            real = native_dataset_cast("Integer", "String", nmeas=k)
            ob.status, ob.detail = REFUTED, f"{k} measures: a path returns normally (model {r.model if r else ''})"
            ob.witness = {"measures": k, "real": real}
            ob.replayed, ob.replay_detail = real != "rejected", f"Cast.validate(dataset with {k} measures, String) -> {real}"
            ob.finding_key = f"mono-measure::{k}"


def _eqv(a: Any, b: Any) -> bool:
    if a is b:
        return True
    if is_sym(a) and is_sym(b):
        return a.sx == b.sx
    if isinstance(a, SymEnum) and isinstance(b, SymEnum):
        return a is b
    return (not is_sym(a)) and (not is_sym(b)) and type(a) is type(b) and a == b


def native_dataset_cast(src_cls: str, tgt_cls: str, nmeas: int = 1) -> str:
    core.boot(full=True)
    import importlib
    dt = importlib.import_module("vtlengine.DataTypes")
    co = importlib.import_module("vtlengine.Operators.CastOperator")
    md = importlib.import_module("vtlengine.Model")
    comps = {"Id_1": md.Component("Id_1", dt.Integer, md.Role.IDENTIFIER, False)}
    for i in range(nmeas):
        comps[f"Me_{i + 1}"] = md.Component(f"Me_{i + 1}", getattr(dt, src_cls), md.Role.MEASURE, True)
    comps["At_1"] = md.Component("At_1", dt.String, md.Role.ATTRIBUTE, True)
    try:
        r = co.Cast.validate(md.Dataset(name="DS_1", components=comps, data=None), getattr(dt, tgt_cls))
        ms = [c for c in r.components.values() if c.role == md.Role.MEASURE]
        return f"measures {[c.name for c in ms]} of type {ms[0].data_type.__name__ if ms else None}"
    except Exception:  # noqa: BLE001
        return "rejected"


def part_callsite(chk: Check) -> None:
    """Interpreter: the cast branch hands the visited operand, the type node of the AST and the mask to Cast.validate."""
    where = f"src/vtlengine/{IREL}:InterpreterAnalyzer.visit_ParamOp"
    chk.under_contract(where)
    ob = chk.ob(f"{where}::cast-call-site", where, "the `node.op == CAST` branch returns Cast.validate(self.visit(node."
                "children[0]), node.children[1], <mask taken from node.params[0] or None>)")
    ob.backend = "ast-callsite"
    tree = module_ast(IREL)
    hit = None
    for node in ast.walk(tree):
        if isinstance(node, ast.If) and isinstance(node.test, ast.Compare) and ast.unparse(node.test) == "node.op == CAST":
            hit = node
            break
    if hit is None:
        ob.status, ob.detail = UNDECIDED, "branch `node.op == CAST` not found (code moved)"
        return
    env: Dict[str, str] = {}
    ret = None
    for st in hit.body:
        if isinstance(st, ast.Assign) and len(st.targets) == 1 and isinstance(st.targets[0], ast.Name):
            env[st.targets[0].id] = ast.unparse(st.value)
        elif isinstance(st, ast.If):
            for s2 in st.body:
                if isinstance(s2, ast.Assign) and isinstance(s2.targets[0], ast.Name):
                    env[s2.targets[0].id + "?"] = ast.unparse(s2.value)
        elif isinstance(st, ast.Return):
            ret = st.value
    ok = isinstance(ret, ast.Call) and ast.unparse(ret.func) == "Cast.validate" and len(ret.args) >= 2
    if ok:
        a0 = env.get(ast.unparse(ret.args[0]), ast.unparse(ret.args[0]))
        a1 = env.get(ast.unparse(ret.args[1]), ast.unparse(ret.args[1]))
        ok = a0 == "self.visit(node.children[0])" and a1 == "node.children[1]"
        if ok and len(ret.args) >= 3:
            m = ast.unparse(ret.args[2])
            ok = env.get(m) == "None" and env.get(m + "?", "").startswith("self.visit(node.params[0])")
    if ok:
        ob.status, ob.detail = DISCHARGED, f"line {hit.lineno}"
    else:
        ob.status, ob.detail = REFUTED, f"line {hit.lineno}: {ast.unparse(ret) if ret is not None else 'no return'} with {env}"
        ob.witness = {"site": f"{IREL}:{hit.lineno}", "bindings": env}
        ob.finding_key = "callsite::Interpreter.visit_ParamOp::cast"


# ----------------------------------------------------------------------------------------------------------------
def main() -> None:  # noqa: C901
    chk = Check("C09", "proof",
                "accept/reject table and dataset renaming: symbolic execution (vc.pyvc) of the real Cast.check_* / validate "
                "code over the finite sort of scalar type classes against the tables parsed from docs/data_types.rst; value "
                "conversions: the SQL emitted by the real transpiler for every accepted pair evaluated symbolically with the "
                "macros of sql/init.sql (vc.sqlvc + vc.sqlcast: 3VL, NULLs, reals, character-vector strings, closed-form "
                "calendar) and proved equal to the documented conversion by z3/cvc5, counter-models replayed in the real "
                "DuckDB; plus a BOUNDED end-to-end tier (value pool x all pairs on the extracted API.run)",
                min_obligations=150 if not os.environ.get("VERIF_ONLY") else 1)
    core.boot(full=True)
    trf, sqlf = "src/vtlengine/duckdb_transpiler/Transpiler/__init__.py", "src/vtlengine/duckdb_transpiler/sql/init.sql"
    chk.under_contract(f"{trf}:SQLTranspiler.visit_ParamOp_cast", "contract")
    chk.under_contract(f"{trf}:SQLTranspiler._cast_expr", "inlined")
    for m in ("vtl_date_to_period", "vtl_period_to_date", "vtl_interval_to_date", "vtl_interval_to_period",
              "vtl_period_normalize", "vtl_period_to_vtl"):
        chk.under_contract(f"{sqlf}:{m}", "inlined")
    chk.under_contract("src/vtlengine/API/__init__.py:run", "bounded")
    # ---- fork the workers first (no DuckDB connection exists in this process yet) -----------------------------------
    import _c09_bounded as B
    import _c09_values as V
    stub_vals = V.Values(Check("C09", "proof", "enumerate", min_obligations=0), CD.conversion_rules(), CD.allowed)
    job_ids = [oid for oid, _ in stub_vals.collect()]
    only = os.environ.get("VERIF_ONLY")
    tasks: List[Tuple[str, Any]] = [("conformance", None), ("selfcheck", None)]
    # heavy jobs first
    order = sorted(range(len(job_ids)), key=lambda i: (0 if "calendar-period::W" in job_ids[i] or "::D" in job_ids[i]
                                                       or "irregular" in job_ids[i] else 1, i))
    tasks += [("value", i) for i in order if not only or only in job_ids[i]]
    btasks: List[Tuple[str, Any]] = []
    for src in CD.DOC_TYPES:
        good = tuple(t for t in CD.DOC_TYPES if CD.allowed(src, t) or (src, t) in CD.UNSPECIFIED_PAIRS)
        # accepted pairs run the whole pool (one task each); the forbidden pairs of a source are cheap (one task)
        btasks += [("bounded", (src, (t,))) for t in good]
        if len(good) < len(CD.DOC_TYPES):
            btasks.append(("bounded", (src, tuple(t for t in CD.DOC_TYPES if t not in good))))
    btasks.append(("bounded-nested", None))
    btasks.sort(key=lambda t: 0 if t[1] and t[1][0] == "String" else 1)
    if not only or only == "bounded":
        tasks += btasks
    nproc = max(2, min(len(tasks), int(os.environ.get("VERIF_JOBS", "0")) or min(core.NCPU, 12)))
    ctx = multiprocessing.get_context("fork")
    pool = ctx.Pool(nproc)
    results = [pool.apply_async(worker, (t,)) for t in tasks]
    pool.close()

    # ---- meanwhile: P1 / P2 in this process (pure Python, solver CLIs) ----------------------------------------------
    if not only:
        from vc.pyvc import OutsideSubset, PathLimit
        sem = Sem(chk)
        for part in (part_accept, part_rename):
            try:
                part(sem)
            except (OutsideSubset, PathLimit, KeyError, FileNotFoundError) as e:
                # code under contract moved / left the subset: undecided, never a violation
                ob = chk.ob(f"src/vtlengine/{CREL}:Cast::{part.__name__}::not-analysable", f"src/vtlengine/{CREL}:Cast",
                            "the functions under contract are present and inside the analysable subset")
                ob.status, ob.detail = UNDECIDED, f"{type(e).__name__}: {e}"
        part_callsite(chk)
        chk.extra["functions_inlined"] = sorted(sem.eng.inlined)
        chk.extra["unspecified_pairs"] = [f"{a} -> {b}" for a, b in CD.UNSPECIFIED_PAIRS]
        chk.extra["documented_sentences_found"] = sem.rules

    # ---- collect ---------------------------------------------------------------------------------------------------
    by_task: Dict[Tuple[str, Any], Dict[str, Any]] = {}
    for t, r in zip(tasks, results):
        try:
            by_task[t] = r.get(timeout=1500)
        except Exception as e:  # noqa: BLE001
            by_task[t] = {"task": t, "obs": [], "faults": [f"worker task {t} did not finish: {type(e).__name__}: {e}"], "extra": {}}
    pool.join()
    sql_used: Dict[str, str] = {}
    skipped: List[str] = []
    macros: set = set()
    prune = 0
    stats = {"runs": 0, "cases": 0, "unspecified": 0}
    slow: List[Tuple[float, str]] = []
    bt_sorted = sorted([t for t in btasks if t[0] == "bounded"],
                       key=lambda t: (CD.DOC_TYPES.index(t[1][0]), [CD.DOC_TYPES.index(x) for x in t[1][1]]))
    for t in [("conformance", None), ("selfcheck", None)] + [("value", i) for i in range(len(job_ids))] + \
            bt_sorted + [("bounded-nested", None)]:
        r = by_task.get(t)
        if r is None:
            continue
        for o in r["obs"]:
            chk.add(o)
        for f in r["faults"]:
            chk.fault(f)
        ex = r["extra"]
        sql_used.update(ex.get("sql", {}))
        skipped += [x for x in ex.get("skipped", []) if x not in skipped]
        macros |= set(ex.get("macros", []))
        prune = max(prune, ex.get("prune", 0))
        if "conformance" in ex:
            chk.extra["cast_model_conformance"] = ex["conformance"]
        if "calendar_selfcheck_days" in ex:
            chk.extra["calendar_selfcheck_days"] = ex["calendar_selfcheck_days"]
        for k in stats:
            stats[k] += ex.get("stats", {}).get(k, 0)
        slow.append((round(r.get("cpu", 0.0), 1), f"{t[0]}:{job_ids[t[1]] if t[0] == 'value' else t[1]} "
                                                   f"(wall {r.get('seconds', 0.0):.0f}s)"))
    chk.extra["cast_sql_templates"] = sql_used
    chk.extra["macros_evaluated"] = sorted(macros)
    chk.extra["value_clauses_skipped"] = skipped
    chk.extra["bounded_tier"] = dict(stats, pool_sizes={k: len(v) for k, v in B.POOL.items()}, output_format=B.FMT)
    chk.extra["slowest_tasks_cpu_s"] = sorted(slow, reverse=True)[:8]
    chk.extra["tasks_cpu_s_total"] = round(sum(c for c, _ in slow), 1)
    chk.extra["worker_processes"] = nproc
    chk.extra["evaluations"] = len(chk.obs) + stats["cases"]
    chk.extra["not_covered"] = [
        "Number -> String and Date -> String: the text DuckDB renders (DECIMAL/DOUBLE digits, 'YYYY-MM-DD hh:mm:ss') is not "
        "documented for cast; only NULL -> NULL and 'the text denotes the same number' (bounded tier) are checked",
        "Duration <-> String: the docs do not say whether the letter or the ISO-8601 code is produced; the Python reference "
        "(DataTypes.String.explicit_cast) gives 'P1Y', the SQL gives 'A': both tolerated, the disagreement is reported here",
        "String -> Time_Period from an interval text ('2024-01-01/2024-12-31'): not documented; Python reference gives 2024A, "
        "SQL vtl_period_normalize gives 2024-D001 - reported, not judged",
        "Integer beyond 2**53, Number beyond 2**62, NaN/Infinity, numerals with exponent / blanks / '+' / '_' (outside the SMT "
        "model of DuckDB's VARCHAR and DOUBLE casts): proof tier silent; 2**53+1 is in the bounded pool",
        "time-of-day part of Date values (DuckDB TIMESTAMP): dates are modelled as days",
        "the Python reference implementation DataTypes.*.explicit_cast / implicit_cast (Cast.cast_scalar, cast_component) is "
        "not executed by run(); it is not under contract here",
    ]
    chk.assume("docs/data_types.rst is the oracle; the four pairs of UNSPECIFIED_PAIRS (docs table says '—', both engines and "
               "the upstream tests implement them) are tolerated either way; their VALUE rules are taken from the behaviour "
               "both engines implement (spec/cast_spec.py) and are marked '(pair omitted by the docs table; if accepted)'")
    chk.assume("Number -> Integer truncates towards zero: VTL 2.2 as cited in DataTypes.Integer.implicit_cast (the docs page "
               "gives no sentence for it)")
    chk.assume("DuckDB evaluates scalar SQL as vc.sqlvc / vc.sqlcast model it: DOUBLE as mathematical reals, INTEGER as "
               "mathematical integers, strings as character vectors of fixed length, dates as days; sampled against the real "
               "DuckDB on every run (cast_model_conformance) and by the native replay of every counter-model; not proved")
    chk.assume("proof domains: Integer |x| <= 2**53 (text: |x| < 10**7), Number |x| < 2**62, numerals -?d{1,3|6}(.d{1,2})?, "
               "printable 3-character strings for String -> String, years 1000..9998 for every date / period / interval")
    chk.assume("the measure expression cut out of the generated SELECT is the only place where the cast acts on values "
               "(dataset level: SELECT ids, <expr> AS <measure> FROM DS_1; calc level alike); result fetching / output "
               "formatting is covered by the bounded tier only")
    chk.assume("copy.copy of a Component yields an object with the same attributes (external contract used in P2)")
    chk.assume("BOUNDED tier: fixed value pool per type (checks/_c09_bounded.py POOL), one identifier, one measure; nothing is "
               "proved for other values or shapes; text->AST not exercised (hand-built ParamOp ASTs per spec/ast_shapes.md)")
    chk.trust("sqlglot 30 parse of sql/init.sql and of the generated SELECT; z3 5.1 / cvc5 1.0.3 (LIRA with div/mod by "
              "constants); vc.pyvc semantics for sets / classmethods / dict stores over classes read from source")
    chk.finish()


if __name__ == "__main__":
    core.main_guard("C09", main)
